"""C11 -- all distance computations agree with the XOR metric over hashed addresses
(ant-protocol/src/lib.rs, ant-networking/src/{lib,cmd,replication_fetcher,record_store}.rs,
ant-node/src/node.rs)."""
import hashlib
import re
from vpc.core import cN, cbytes, clist, copt, cpair

U256 = 2 ** 256
CGS = 5                      # CLOSE_GROUP_SIZE; pinned by props/C11.v constants_consistent
K_VALUE = 20                 # libp2p kad K_VALUE (Consts.repl_k_value in the model's agreement)
MAX_FETCH = 20               # MAX_PARALLEL_FETCH = K_VALUE; fetcher cases stay below it
IMPORTS = "Require Import V.lib.Sha256 V.model.Closeness."
THEOREMS = ["constants_consistent", "sha256_is_256_bit", "convert_is_identity", "distance_is_xor", "dist_sym",
            "dist_zero_iff_digest_eq", "dist_zero_equal_or_collision", "dist_zero_of_equal_bytes", "dist_bound", "dist_triangle", "dist_form_independent",
            "sort_sorted", "sort_perm", "sort_prefix", "sort_returns_n_nearest", "sort_by_address_is_by_key", "sort_error_iff",
            "returns_requested_number_or_error_refuted", "returns_requested_number_or_error_outside_known",
            "known_short_list_exact", "close_peers_client_spec", "close_peers_node_spec", "store_farthest_invariant",
            "store_admission_exact", "store_admits_not_farther", "store_history_agreement_sound", "x_closest_chunks_spec", "x_closest_chunks_take_then_filter_refuted", "closest_k_spec",
            "closest_k_insertion_order_irrelevant", "range_filter_exact", "fetcher_range_filter_exact",
            "fetcher_order_closest_first", "fetch_schedule_closest_first", "fetch_acceptor_is_spec",
            "fetch_history_agreement_sound", "farthest_on_full_exact", "fullness_bound_invariant", "store_distance_index_exact", "closest_peers_spec",
            "candidates_spec"]
RULE = ("addresses of all six kinds (peer bytes incl. non-PeerId byte strings, chunk, register, scratchpad, "
        "transaction, raw record key) and the record-key form of each; peers are sha2-256 and identity multihash "
        "PeerIds incl. duplicates, 0-40 per case with boundary sizes 0,1,4,5,6; requested counts 0..|peers|+2; "
        "storage-challenge answers (GetChunkExistenceProof via Node::handle_query, difficulty 1-7) over 0-30 held records of mixed "
        "kinds (all chunks / non-chunks at ranks 2 and 4 / random kinds / the nearest few all non-chunks); "
        "get_closest_k_value_local_peers over real routing tables of 0-60 peers inserted in random order (k-buckets shared by "
        "many, more than K_VALUE-1 peers); admission / eviction histories of a real NodeRecordStore with capacity 2-8: settled "
        "puts of new keys, re-puts of the current farthest record and of other held records (same bytes: read-cache early "
        "return; different bytes) at and below capacity, removes, restarts while partly filled and while full, incl. the shape far records / restart / fill "
        "up with nearer ones / a record between the groups / a record beyond; "
        "closest-peers lookups of a client and of a node through a real Network handle whose swarm side answers the query "
        "with 0..20 peers with / without the asker's own id (once or twice, any position), sizes CLOSE_GROUP_SIZE-2..+4, "
        "targets incl. the asker's own address; ranges 0, exact distance of a chosen element -1/0/+1, 2^256-1, random; routing tables of 0-40 peers; "
        "fetcher adverts of 2-18 distinct keys; fetcher scheduling histories (2-3 holders with overlapping adverts of "
        "6-70 (key,type)s incl. one key under two types, backlog above MAX_PARALLEL_FETCH, completions freeing slots "
        "closest-first or at random, early completions, plain scheduling calls, optional range; every second history "
        "continues with 1-3 'store full' notifications whose farthest keys lie in the same / adjacent power-of-two "
        "buckets (incl. a repeated farther one and 'nothing held'), each followed by an advert of fresh keys inside / "
        "between / beyond the bounds). A case is non-trivial/distinct by (op, outcome class, size class, "
        "address kind, boundary class of the range/count)")
ASSUMPTIONS = [
    "SHA-256 is computed three times independently (Rust sha2 inside libp2p, Gallina V.lib.Sha256, Python hashlib) "
    "and compared on every address of every case; collision-freedom is a reading, never assumed",
    "xornames of register/scratchpad addresses (SHA3 of owner data) are data supplied by the real xorname(); "
    "the oracle re-computes them with hashlib.sha3_256 from the BLS public key bytes blsttc derived",
    "libp2p kad's get_closest_local_peers is third-party: validated per case to be the ascending-by-XOR order of "
    "the routing-table entries (premise of candidates_spec)",
    "uint's decimal Debug of KBucketDistance and ruint's from_str are modelled (third-party; validated by the "
    "correspondence); KBucketDistance values other than real digest XORs cannot be constructed from outside libp2p, "
    "so convert_distance_to_u256 is executed only on those (all of 2^256 is covered by convert_is_identity)",
    "one-shot fetcher cases avoid the single-key fast path and the MAX_PARALLEL_FETCH cap; the scheduling histories "
    "(fetch_sched) exercise the cap with several holders, and skip only adverts with fewer than two new keys (the "
    "single-key fast path is C08's subject); hash-map iteration order of the backlog is nondeterministic, so the "
    "scheduler is judged by an acceptor (sched_ok), which the deterministic model is proved to satisfy for every order; "
    "store cases use a fresh store per case",
]

# ------------------------------------------------------------------------------------------ helpers


def H(b):
    return int.from_bytes(hashlib.sha256(b).digest(), "big")


def sha_peer(seed):
    return bytes([0x12, 0x20]) + seed            # sha2-256 multihash PeerId


def ed_peer(seed):
    return bytes([0x00, 0x24, 0x08, 0x01, 0x12, 0x20]) + seed   # identity multihash of an ed25519 key


def rb(rng, n):
    return bytes(rng.getrandbits(8) for _ in range(n))


OWNERS = {}      # sk hex -> owner public key hex (BLS derivation is blsttc's; learnt through the harness)


def expect_bytes(a):
    """address bytes according to the property: what gets hashed for this address"""
    t = a["t"]
    if t in ("peer", "peerid", "key", "keyfrom"):
        return bytes.fromhex(a["b"])
    if t in ("chunk", "tx"):
        return bytes.fromhex(a["x"])
    if t == "keyof":
        return expect_bytes(a["a"])
    owner = OWNERS.get(a["sk"])
    if owner is None:
        return None
    if t == "reg":
        return hashlib.sha3_256(bytes.fromhex(a["meta"]) + bytes.fromhex(owner)).digest()
    if t == "scratch":
        return hashlib.sha3_256(bytes.fromhex(owner)).digest()
    raise ValueError(t)


CTOR = {"peer": "APeer", "peerid": "APeer", "key": "AKey", "keyfrom": "AKey", "keyof": "AKey",
        "chunk": "AChunk", "tx": "ATx", "reg": "AReg", "scratch": "AScratch"}
VARIANT = {"peer": "peer", "peerid": "peer", "key": "key", "keyfrom": "key", "keyof": "key",
           "chunk": "chunk", "tx": "tx", "reg": "reg", "scratch": "scratch"}


def caddr(a, bytes_hex):
    return "(%s %s)" % (CTOR[a["t"]], cbytes(bytes_hex))


def cpeers(ps):
    return clist([cbytes(p) for p in ps])


def all_addrs(case):
    out = []
    for k in ("a", "b", "c"):
        if isinstance(case.get(k), dict):
            out.append(case[k])
    for k in case.get("keys", []) if case.get("op") == "fetcher" else []:
        out.append(k)
    res = []
    for a in out:
        while a.get("t") == "keyof":
            a = a["a"]
        res.append(a)
    return res


def resolve(ctx, binary, cases):
    """learn the BLS public keys of register/scratchpad owners through the real code"""
    need = {}
    for c in cases:
        for a in all_addrs(c):
            if a["t"] in ("reg", "scratch") and a["sk"] not in OWNERS:
                need[a["sk"]] = {"op": "addr", "a": {"t": "scratch", "sk": a["sk"]}}
    if not need or binary is None:
        return
    sks = sorted(need)
    outs = ctx.run_harness(binary, [need[s] for s in sks]) or []
    for s, o in zip(sks, outs):
        if o and "info" in o and "owner" in o["info"]:
            OWNERS[s] = o["info"]["owner"]


# ------------------------------------------------------------------------------------------ generator

def gen(ctx, binary):
    rng = ctx.rng
    quick = ctx.tier == "quick"
    scale = 1 if quick else 8
    peers = [sha_peer(rb(rng, 32)) for _ in range(40)] + [ed_peer(rb(rng, 32)) for _ in range(30)]
    peers += [bytes([0, 0]), bytes([0, 1, 7]), bytes([0, 5]) + rb(rng, 5)]     # short identity multihashes
    peers = [p.hex() for p in peers]
    sks = [("00" + rb(rng, 31).hex()) for _ in range(6)]
    xns = [rb(rng, 32).hex() for _ in range(30)] + ["00" * 32, "ff" * 32]

    def typed(kind=None):
        kind = kind or rng.choice(["peer", "peerid", "chunk", "tx", "reg", "scratch", "key", "keyfrom", "keyof"])
        if kind == "peerid":
            return {"t": "peerid", "b": rng.choice(peers)}
        if kind == "peer":      # NetworkAddress::PeerId holds arbitrary bytes
            return {"t": "peer", "b": rng.choice(peers) if rng.random() < 0.6 else rb(rng, rng.choice([0, 1, 31, 32, 33, 64, 100])).hex()}
        if kind in ("chunk", "tx"):
            return {"t": kind, "x": rng.choice(xns)}
        if kind == "reg":
            return {"t": "reg", "meta": rng.choice(xns), "sk": rng.choice(sks)}
        if kind == "scratch":
            return {"t": "scratch", "sk": rng.choice(sks)}
        if kind in ("key", "keyfrom"):
            r = rng.random()
            b = rng.choice(xns) if r < 0.5 else (rng.choice(peers) if r < 0.7 else rb(rng, rng.choice([0, 1, 16, 32, 48, 80])).hex())
            return {"t": kind, "b": b}
        return {"t": "keyof", "a": typed(rng.choice(["peerid", "chunk", "tx", "reg", "scratch", "key"]))}

    # resolve owners first so that exact-distance ranges can be computed for every kind
    resolve(ctx, binary, [{"op": "addr", "a": {"t": "scratch", "sk": s}} for s in sks])

    def abytes(a):
        return expect_bytes(a) or b""

    def some_peers():
        k = rng.choice([0, 1, 2, 4, 5, 5, 6, 6, 7, 8, 10, 15, 20, 21, 30, 40])
        ps = [rng.choice(peers) for _ in range(k)]
        if k >= 2 and rng.random() < 0.25:
            ps[rng.randrange(k)] = ps[0]        # a duplicate
        return ps

    def a_range(target, elems):
        """boundary ranges relative to the distances of `elems` (bytes) from `target`"""
        r = rng.random()
        if r < 0.12:
            return 0
        if r < 0.24:
            return U256 - 1
        if elems and r < 0.85:
            d = H(abytes(target)) ^ H(rng.choice(elems))
            return min(max(d + rng.choice([-1, 0, 0, 1]), 0), U256 - 1)
        return rng.getrandbits(rng.choice([250, 253, 254, 255, 256]))

    cases = []
    kinds = ["peer", "peerid", "chunk", "tx", "reg", "scratch", "key", "keyfrom", "keyof"]
    for i in range(45 * scale):
        cases.append({"op": "addr", "a": typed(kinds[i % len(kinds)])})
    for i in range(150 * scale):
        a = typed(kinds[i % len(kinds)])
        r = rng.random()
        if r < 0.25:                                   # the same address in another form
            b = {"t": "keyof", "a": a} if a["t"] != "keyof" else a["a"]
        elif r < 0.35 and a["t"] in ("chunk", "tx"):   # same xorname under another type
            b = {"t": rng.choice(["chunk", "tx", "key"]), "x": a["x"], "b": a["x"]}
        elif r < 0.40:
            b = a
        else:
            b = typed()
        cases.append({"op": "dist", "a": a, "b": b, "c": typed()})
    for i in range(130 * scale):
        ps = some_peers()
        n = rng.choice([0, 1, CGS, len(ps) - 1, len(ps), len(ps) + 1, len(ps) + 2, rng.randrange(0, 45)])
        cases.append({"op": "sort_addr", "peers": ps, "a": typed(), "n": max(n, 0)})
    for i in range(70 * scale):
        ps = some_peers()
        n = max(rng.choice([0, 1, CGS, len(ps) - 1, len(ps), len(ps) + 1, len(ps) + 2]), 0)
        if rng.random() < 0.5:
            cases.append({"op": "sort_key", "peers": ps, "pre": rng.choice(peers), "as_peer": True, "n": n})
        else:
            cases.append({"op": "sort_key", "peers": ps, "pre": rb(rng, rng.choice([0, 1, 32, 38, 64])).hex(), "n": n})
    for i in range(120 * scale):
        ps = some_peers()
        t = typed()
        cases.append({"op": "in_range", "peers": ps, "a": t, "range": str(a_range(t, [bytes.fromhex(p) for p in ps]))})
    for i in range(120 * scale):
        ps = some_peers()
        t = typed()
        tagged = [[p, 1000 + j] for j, p in enumerate(ps)]
        mode = i % 4
        num = None if mode in (0, 2) else max(rng.choice([0, 1, len(ps) - 1, len(ps), len(ps) + 1, len(ps) + 2]), 0)
        rg = None if mode in (0, 1) else a_range(t, [bytes.fromhex(p) for p in ps]).to_bytes(32, "big").hex()
        cases.append({"op": "closest", "peers": tagged, "a": t, "num": num, "range": rg})
    for i in range(60 * scale):
        k = rng.choice([0, 1, 3, 5, 6, 8, 12, 20, 30, 40])
        table = rng.sample(peers[:70], k)
        t = typed()
        rg = None if i % 5 == 0 else a_range(t, [bytes.fromhex(p) for p in table])
        cases.append({"op": "candidates", "n": i, "self_seed": rb(rng, 32).hex(), "table": table, "a": t,
                      "range": None if rg is None else str(rg)})
    for i in range(60 * scale):
        keys, seen = [], set()
        for _ in range(rng.choice([2, 3, 5, 8, 12, 18])):
            a = typed(rng.choice(["chunk", "tx", "reg", "scratch", "key", "keyfrom", "peerid", "keyof"]))
            b = abytes(a)
            if b in seen:
                continue
            seen.add(b)
            keys.append(a)
        if len(keys) < 2:
            continue
        me = rng.choice(peers)
        rg = None if i % 6 == 0 else a_range({"t": "peerid", "b": me}, list(seen))
        cases.append({"op": "fetcher", "self": me, "holder": rng.choice(peers), "keys": keys,
                      "range": None if rg is None else str(rg)})
    for i in range(45 * scale):
        keys = [rng.choice(xns) if rng.random() < 0.8 else rb(rng, rng.choice([1, 20, 40])).hex()
                for _ in range(rng.choice([0, 1, 2, 5, 10, 30]))]
        me = rng.choice(peers)
        rg = a_range({"t": "peerid", "b": me}, [bytes.fromhex(k) for k in keys])
        cases.append({"op": "store_count", "n": i, "self": me, "keys": keys, "range": str(rg)})
    # closest-peers lookups of a client / a node: query results that do / do not list the asker itself, at the size
    # boundaries CLOSE_GROUP_SIZE-1 .. CLOSE_GROUP_SIZE+3 others (and beyond), targets incl. the asker's own address
    for i in range(70 * scale):
        n_others = rng.choice([0, 1, CGS - 2, CGS - 1, CGS - 1, CGS, CGS, CGS + 1, CGS + 1, CGS + 2, CGS + 2, CGS + 3,
                               CGS + 3, CGS + 4, 12, 20])
        found = rng.sample(peers[:70], n_others)
        if n_others >= 2 and rng.random() < 0.15:
            found.append(found[0])                         # a duplicate other peer
        with_self = rng.random() < 0.65
        if with_self:
            for _ in range(rng.choice([1, 1, 1, 2])):      # the asker listed once (or twice)
                found.insert(rng.randrange(0, len(found) + 1), "self")
        t = {"t": "self"} if (with_self and rng.random() < 0.45) else typed()
        cases.append({"op": "close_peers", "self_seed": rb(rng, 32).hex(), "client": rng.random() < 0.7,
                      "found": found, "a": t})
    # storage-challenge answers (GetChunkExistenceProof through Node::handle_query): stores of mixed record kinds
    # around the target, difficulty 1..7
    for i in range(60 * scale):
        t = typed(rng.choice(["chunk", "peerid", "key", "tx"]))
        ht = H(abytes(t))
        n = rng.choice([0, 1, 2, 4, 6, 9, 14, 30])
        keys = sorted({rb(rng, 32).hex() for _ in range(n)}, key=lambda k: ht ^ H(bytes.fromhex(k)))
        mode = i % 4
        recs = []
        for j, k in enumerate(keys):
            if mode == 0:
                tag = 0
            elif mode == 1:
                tag = rng.choice([1, 5, 9]) if j in (1, 3) else 0          # non-chunks among the nearest
            elif mode == 2:
                tag = rng.choice([0, 0, 1, 5])
            else:
                tag = rng.choice([1, 5]) if j < rng.choice([1, 2, 4, 6]) else 0   # the nearest ones are all non-chunks
            recs.append([k, tag])
        rng.shuffle(recs)
        diff = rng.choice([1, 2, 2, 3, 4, 5, 5, 6, 7])
        a = t
        if diff == 1 and keys and rng.random() < 0.6:
            a = {"t": "key", "b": rng.choice(keys)}
        cases.append({"op": "chunk_proofs", "self_seed": rb(rng, 32).hex(), "a": a, "difficulty": diff,
                      "nonce": rng.getrandbits(40), "records": recs})
    # get_closest_k_value_local_peers over a real routing table: 2..60 peers inserted in random order (about half of
    # them share the farthest k-bucket, a quarter the next one, ...), more than K_VALUE-1 of them in some cases
    for i in range(40 * scale):
        k = rng.choice([0, 1, 2, 3, 5, 6, 7, 8, 10, 15, 19, 20, 21, 30, 45, 60])
        table = rng.sample(peers[:70], min(k, 70))
        cases.append({"op": "closest_k", "n": i, "self_seed": rb(rng, 32).hex(), "table": table})
    # admission / eviction histories of a small record store with restarts
    for i in range(40 * scale):
        cases.append(gen_store_hist(rng, peers, i))
    # fetch scheduling histories: 2-3 holders advertising overlapping key sets, a backlog larger than the
    # free capacity, fetches in flight, completions that free a few slots, plain scheduling calls
    for i in range(36 * scale):
        cases.append(gen_fetch_sched(rng, peers, i))
    # SHA-256 padding boundaries through arbitrary-length raw keys / peer byte strings
    for ln in [0, 1, 54, 55, 56, 57, 63, 64, 65, 118, 119, 120, 121, 128, 200]:
        cases.append({"op": "addr", "a": {"t": rng.choice(["key", "peer", "keyfrom"]), "b": rb(rng, ln).hex()}})
    # exhaustive small scope: every (|peers|, requested) with |peers| <= K and requested <= |peers|+2,
    # for both sorters; every order of a 4-peer list with a duplicate (stability is observable through the tags)
    K = 7 if quick else 12
    for k in range(0, K + 1):
        for n in range(0, k + 3):
            ps = rng.sample(peers, k)
            cases.append({"op": "sort_addr", "peers": ps, "a": typed(), "n": n})
            if not quick or (k + n) % 2 == 0:
                cases.append({"op": "closest", "peers": [[p, 2000 + j] for j, p in enumerate(ps)], "a": typed(),
                              "num": n, "range": None})
    import itertools
    base = rng.sample(peers, 3)
    four = [[base[0], 1], [base[1], 2], [base[0], 3], [base[2], 4]]
    t = typed()
    for perm in itertools.permutations(four):
        cases.append({"op": "closest", "peers": [list(x) for x in perm], "a": t, "num": rng.choice([2, 3, 4]), "range": None})
    return cases


def gen_store_hist(rng, peers, i):
    me = rng.choice(peers)
    hs = H(bytes.fromhex(me))
    dist = lambda k: hs ^ H(bytes.fromhex(k))
    mx = rng.choice([2, 3, 4, 4, 6, 8])
    pool = [rb(rng, rng.choice([32, 32, 32, 8, 50])).hex() for _ in range(2 * mx + 8)]
    by = sorted(set(pool), key=dist)
    held, steps, vals, cached = [], [], {}, set()

    def put(k, same=None):
        """follows what the store does, so that later steps are planned on the real contents"""
        if k in held:
            v = vals[k] if same else (vals[k] % 200) + 1 if same is False else rng.choice([vals[k], (vals[k] % 200) + 1])
        else:
            v = rng.randrange(1, 200)
        steps.append({"s": "put", "key": k, "val": v})
        if k in held and k in cached and v == vals[k]:
            return                                   # same bytes still in the read cache: nothing happens
        if len(held) >= mx:
            far = max(held, key=dist)
            if dist(k) > dist(far):
                return                               # refused
            held.remove(far)
            cached.discard(far)
        if k not in held:
            held.append(k)
        vals[k] = v
        cached.add(k)

    if i % 2 == 0:
        # some far records without filling up, RESTART, fill up with nearer ones, then one between the groups,
        # one beyond everything, and a few more
        nfar = rng.randrange(1, mx)
        far_keys = rng.sample(by[-(nfar + 3):], nfar)
        for k in far_keys:
            put(k)
        steps.append({"s": "restart"})
        cached.clear()
        for k in by[:mx - nfar]:
            put(k)
        mid = [k for k in by if k not in held and dist(by[mx - nfar - 1]) < dist(k) < max(dist(x) for x in far_keys)]
        if mid:
            put(rng.choice(mid))
        put(by[-1])
        if mid:
            put(rng.choice(mid))
    for _ in range(rng.choice([3, 6, 10, 16])):
        r = rng.random()
        if r < 0.45:
            put(rng.choice([k for k in by if k not in held] or by))
        elif r < 0.6 and held:
            # the equality case: the current farthest record is put again (same / different bytes), mostly at capacity
            put(max(held, key=dist), same=rng.choice([True, False, False]))
        elif r < 0.68 and held:
            put(rng.choice(held), same=rng.choice([True, False]))
        elif r < 0.85 and held:
            k = rng.choice(held) if rng.random() < 0.8 else rng.choice(by)
            steps.append({"s": "remove", "key": k})
            if k in held:
                held.remove(k)
                cached.discard(k)
        else:
            steps.append({"s": "restart"})
            cached.clear()
    return {"op": "store_hist", "n": i, "self": me, "max": mx, "steps": steps}


def gen_fetch_sched(rng, peers, i):
    me = rng.choice(peers)
    hs = H(bytes.fromhex(me))
    nkeys = rng.choice([6, 15, 22, 30, 45, 60, 60, 70])
    pool = []
    for _ in range(nkeys):
        k = rb(rng, rng.choice([32, 32, 32, 32, 50, 8])).hex()
        t = rng.choice([0, 0, 0, 0, 0, 1, 5])
        pool.append([k, t])
    if nkeys >= 15 and rng.random() < 0.4:      # the same key under a second record type
        for _ in range(3):
            k = rng.choice(pool)[0]
            pool.append([k, rng.choice([1, 5, 6])])
    pool = [list(x) for x in {(k, t) for k, t in pool}]
    by_dist = sorted(pool, key=lambda kt: hs ^ H(bytes.fromhex(kt[0])))
    holders = rng.sample(peers[:70], 3)
    steps = []
    rg = None
    if rng.random() < 0.25:
        d = hs ^ H(bytes.fromhex(rng.choice(pool)[0]))
        rg = min(max(d + rng.choice([-1, 0, 1]), 0), U256 - 1)
    elif rng.random() < 0.1:
        rg = U256 - 1
    advertised = {h: set() for h in holders}

    def advert(h, frac):
        ks = [kt for kt in pool if (kt[0], kt[1]) not in advertised[h] and rng.random() < frac]
        if len(ks) < 2:
            return
        rng.shuffle(ks)
        for k, t in ks:
            advertised[h].add((k, t))
        steps.append({"s": "add", "holder": h, "keys": ks})

    advert(holders[0], rng.choice([1.0, 1.0, 0.8, 0.5]))
    advert(holders[1], rng.choice([1.0, 1.0, 0.7, 0.3]))
    if rng.random() < 0.5:
        advert(holders[2], rng.choice([1.0, 0.5]))
    done = 0
    for _ in range(rng.choice([3, 6, 10, 14])):
        r = rng.random()
        if r < 0.6 and by_dist:      # a fetch completes: mostly the closest outstanding ones, as in a real run
            if rng.random() < 0.7 and done < len(by_dist):
                k, t = by_dist[done]
                done += 1
            else:
                k, t = rng.choice(pool)
            steps.append({"s": "put", "key": k, "type": t})
        elif r < 0.75:
            k, t = rng.choice(pool)
            steps.append({"s": "early", "key": k, "type": t})
        elif r < 0.9:
            steps.append({"s": "next"})
        else:
            advert(rng.choice(holders), 0.6)
    if i % 2 == 0:
        steps = steps[:rng.randrange(2, len(steps) + 1)] if len(steps) > 2 else steps
        steps += gen_fullness(rng, hs, pool, holders)
    return {"op": "fetch_sched", "self": me, "range": None if rg is None else str(rg), "steps": steps}


def gen_fullness(rng, hs, pool, holders):
    """1-3 'store full' notifications whose farthest keys lie in the same / adjacent power-of-two buckets of the
    distance, then adverts with keys inside / between / beyond the bounds, completions and scheduling calls"""
    dist = lambda k: hs ^ H(bytes.fromhex(k))
    far_first = sorted({k for k, _ in pool}, key=dist, reverse=True)
    steps = []

    def fresh(lo, hi, n):
        out = []
        for _ in range(4000):
            if len(out) >= n:
                break
            k = rb(rng, 32).hex()
            if lo < dist(k) <= hi:
                out.append(k)
        return out

    # F1: one of the farthest few; F2: closer, mostly in the same bucket (same bit length); F3: next bucket down
    f1 = far_first[rng.randrange(0, min(3, len(far_first)))]
    d1 = dist(f1)
    same = [k for k in far_first if dist(k) < d1 and dist(k).bit_length() == d1.bit_length()]
    lower = [k for k in far_first if dist(k).bit_length() == d1.bit_length() - 1]
    seq = [f1]
    if same and rng.random() < 0.85:
        seq.append(same[min(len(same) - 1, rng.choice([0, 1, 2, 4, len(same) // 2]))])
    if rng.random() < 0.3:
        seq.append(f1)                                   # a farther (or equal) one again: must be ignored
    if lower and rng.random() < 0.4:
        seq.append(rng.choice(lower[:3]))
    if rng.random() < 0.15:
        seq.insert(rng.randrange(0, len(seq) + 1), None)  # full but nothing held
    h = 100
    for f in seq:
        steps.append({"s": "full", "key": f})
        if f is None:
            continue
        bound = min(dist(x) for x in seq[:seq.index(f) + 1] if x is not None)
        prev = [dist(x) for x in seq[:seq.index(f)] if x is not None]
        wider = min(prev) if prev else U256 - 1
        ks = fresh(0, bound, rng.choice([2, 3, 5]))                       # inside the bound
        if wider > bound:
            ks += fresh(bound, wider, rng.choice([1, 2, 3]))             # between the new and the previous bound
        ks += fresh(max(wider, bound), U256 - 1, rng.choice([0, 1, 2]))   # beyond every bound
        rng.shuffle(ks)
        if len(ks) >= 2:
            steps.append({"s": "add", "holder": rng.choice(holders), "keys": [[k, 0] for k in ks]})
        r = rng.random()
        if r < 0.4:
            steps.append({"s": "next"})
        elif r < 0.7:
            k, t = rng.choice(pool)
            steps.append({"s": "put", "key": k, "type": t})
    return steps


def fetch_bounds(c, hs):
    """per step: the farthest-distance bound in force before / after it = the minimum of the distances of the
    farthest keys notified so far (None before the first notification)"""
    b, out = None, []
    for st in c["steps"]:
        pre = b
        if st["s"] == "full" and st["key"] is not None:
            d = hs ^ H(bytes.fromhex(st["key"]))
            b = d if b is None else min(b, d)
        out.append((pre, b))
    return out


def fetch_pre(c, st, step, hs, bound=None):
    """the backlog and the in-flight set the scheduling call inside this operation starts from
    (`bound`: the farthest-distance bound in force before the step)"""
    P = [tuple(e) for e in step["pre_p"]]
    O = [tuple(e) for e in step["pre_o"]]
    if st["s"] == "full":
        return None
    if st["s"] == "add":
        new = []
        for k, t in st["keys"]:
            e = (k, t, st["holder"])
            if e in P or e in new:
                continue
            if bound is not None and (hs ^ H(bytes.fromhex(k))) > bound:
                continue         # farther than the store's farthest record: refused
            new.append(e)
        if len(new) < 2:
            return None          # single-key fast path: not this property's subject
        if c["range"] is not None:
            new = [e for e in new if (hs ^ H(bytes.fromhex(e[0]))) <= int(c["range"])]
        P = P + new
    elif st["s"] == "put":
        P = [e for e in P if not (e[0] == st["key"] and e[1] == st["type"])]
        O = [e for e in O if e[0] != st["key"]]
    elif st["s"] == "early":
        P = [e for e in P if not (e[0] == st["key"] and e[1] == st["type"])]
        O = [e for e in O if not (e[0] == st["key"] and e[1] == st["type"])]
    return P, O


def fetch_picked(step, O1):
    """entries that went in flight during the step, in hand-out order (None if they do not match `out`)"""
    new = [tuple(e) for e in step["post_o"] if tuple(e) not in O1]
    picked = []
    for h, k in step["out"]:
        m = [e for e in new if e[0] == k and e[2] == h]
        if not m:
            return None
        picked.append(m[0])
        new.remove(m[0])
    return None if new else picked


# ------------------------------------------------------------------------------------------ oracle

DBG = re.compile(r"^Distance\((0|[1-9][0-9]*)\)$")


def dbg_val(s):
    m = DBG.match(s)
    return int(m.group(1)) if m else None


def check_bytes(c, a, got_hex, v, what="address"):
    want = expect_bytes(a)
    if want is None:
        v.append(("owner-unresolved", "owner key of %r not resolved" % (a,)))
    elif want.hex() != got_hex:
        v.append(("address-bytes", "%s %r hashes bytes %s, expected %s" % (what, a, got_hex, want.hex())))


def stable_closest(items, key):
    return sorted(items, key=key)          # python's sort is stable


def oracle(c, o):
    """The property stated directly on what the real code returned (independent of the Coq model)."""
    v = []
    if "panic" in o:
        return [("panic", "%s panicked: %s" % (c["op"], o["panic"]))]
    if "error" in o:
        return [("harness", o["error"])]
    op = c["op"]
    if op == "addr":
        a = c["a"]
        check_bytes(c, a, o["bytes"], v)
        b = bytes.fromhex(o["bytes"])
        if o["variant"] != VARIANT[a["t"]]:
            v.append(("address-variant", "%r built variant %s" % (a, o["variant"])))
        if o["digest"] != hashlib.sha256(b).hexdigest():
            v.append(("digest", "kbucket key of %s is %s, SHA-256 is %s" % (o["bytes"], o["digest"], hashlib.sha256(b).hexdigest())))
        if o["key"] != o["bytes"] or o["back_bytes"] != o["bytes"] or o["back_digest"] != o["digest"] or o["back_variant"] != "key":
            v.append(("form-dependent", "record-key form of %r differs: key=%s back=%s/%s" % (a, o["key"], o["back_bytes"], o["back_digest"])))
        if a["t"] in ("reg", "scratch") and o["info"].get("xorname") != o["bytes"]:
            v.append(("address-bytes", "xorname %s vs bytes %s" % (o["info"].get("xorname"), o["bytes"])))
        return v
    if op == "dist":
        for k in ("a", "b", "c"):
            check_bytes(c, c[k], o["bytes_" + k], v)
        ha, hb, hc = (H(bytes.fromhex(o["bytes_" + k])) for k in ("a", "b", "c"))
        want, want_ac = ha ^ hb, ha ^ hc
        for k in ("dbg_ab", "dbg_ba", "dbg_keys", "dbg_mixed"):
            if dbg_val(o[k]) != want:
                cls = {"dbg_ab": "distance-not-xor", "dbg_ba": "asymmetric", "dbg_keys": "form-dependent",
                       "dbg_mixed": "form-dependent"}[k]
                v.append((cls, "%s = %s but the XOR of the SHA-256 digests is %d" % (k, o[k], want)))
        if dbg_val(o["dbg_ac"]) != want_ac:
            v.append(("distance-not-xor", "dbg_ac = %s, XOR is %d" % (o["dbg_ac"], want_ac)))
        if int(o["u_ab"]) != want or int(o["u_ac"]) != want_ac or int(o["u_keys"]) != want:
            v.append(("convert", "convert_distance_to_u256 gave %s/%s/%s for %d/%d/%d" % (
                o["u_ab"], o["u_ac"], o["u_keys"], want, want_ac, want)))
        if (dbg_val(o["dbg_ab"]) == 0) != (o["bytes_a"] == o["bytes_b"]):
            v.append(("zero-distance", "distance %s between address bytes %s and %s" % (o["dbg_ab"], o["bytes_a"], o["bytes_b"])))
        sign = (want > want_ac) - (want < want_ac)
        if o["cmp_ab_ac"] != sign:
            v.append(("order", "Ord on KBucketDistance says %d for %d vs %d" % (o["cmp_ab_ac"], want, want_ac)))
        return v
    if op in ("sort_addr", "sort_key"):
        ps = c["peers"]
        n = c["n"]
        if op == "sort_addr":
            check_bytes(c, c["a"], o["abytes"], v)
            hk = H(bytes.fromhex(o["abytes"]))
        else:
            hk = H(bytes.fromhex(c["pre"]))
        if o["code"] == 0:
            full = stable_closest(ps, lambda p: hk ^ H(bytes.fromhex(p)))
            if o["l"] != full[:len(o["l"])] or len(o["l"]) > n:
                v.append(("sort-order", "result is not the ascending-by-XOR prefix: got %s want %s" % (o["l"][:4], full[:4])))
            elif len(o["l"]) != n:
                # fewer than requested with no report: the known class is exactly "too few peers known"
                cls = "short-list-no-error" if len(o["l"]) == len(ps) and CGS <= len(ps) < n else "short-list"
                v.append((cls, "%d peers known, %d requested, Ok with %d entries and no report" % (len(ps), n, len(o["l"]))))
        elif o["code"] == 1:
            if len(ps) >= max(n, CGS):
                v.append(("spurious-error", "NotEnoughPeers with %d peers known, %d requested" % (len(ps), n)))
            if o["found"] != len(ps) or o["required"] != CGS:
                v.append(("error-fields", "NotEnoughPeers{found:%s,required:%s} for %d peers" % (o["found"], o["required"], len(ps))))
        else:
            v.append(("unexpected-error", str(o.get("err"))))
        return v
    if op == "chunk_proofs":
        check_bytes(c, c["a"], o["abytes"], v)
        ht = H(bytes.fromhex(o["abytes"]))
        held = {k: t for k, t in c["records"]}
        got = [x[1] for x in o["l"]]
        if c["difficulty"] == 1:
            # existence check of the target itself
            if got != [o["abytes"]] or o["l"][0][2] != (o["abytes"] in held):
                v.append(("chunk-proofs", "difficulty 1: answer is not the target's own record (held: %s)" % (o["abytes"] in held)))
            return v
        chunks = stable_closest([k for k, t in c["records"] if t == 0], lambda k: ht ^ H(bytes.fromhex(k)))
        want = chunks[:min(c["difficulty"], CGS)]
        if got != want:
            v.append(("chunk-proofs", "difficulty %d, %d chunks among %d records held: %d proofs returned, expected the %d "
                      "nearest chunks in ascending XOR distance%s" % (
                          c["difficulty"], len(chunks), len(held), len(got), len(want),
                          "" if set(got) <= set(want) else " (a returned record is not among them)")))
        elif any(x[0] != "key" or not x[2] or not x[3] for x in o["l"]):
            v.append(("chunk-proofs", "a returned proof does not verify"))
        return v
    if op == "closest_k":
        me = o["self"]
        hs = H(bytes.fromhex(me))
        d = lambda p: hs ^ H(bytes.fromhex(p))
        if not set(o["inserted"]) <= set(c["table"]):
            v.append(("harness", "inserted peers not from the table"))
        nearest = stable_closest(o["inserted"], d)
        want = ([me] + nearest)[:K_VALUE]
        got = o["closest_k"]
        if o["kad"] != nearest:
            v.append(("kad-closest-order", "kademlia's closest local peers to our own key are not the table in ascending XOR order"))
        if got != want:
            asc = all(d(a) < d(b) for a, b in zip(got[1:], got[2:]))
            v.append(("closest-k-order", "closest K local peers: %d routing-table peers; %s; expected ourselves followed by the "
                      "%d nearest in ascending XOR distance (first difference at index %s)" % (
                          len(o["inserted"]), "not ascending" if not asc else "ascending but not the nearest", len(want) - 1,
                          next((i for i, (a, b) in enumerate(zip(got, want)) if a != b), min(len(got), len(want))))))
        else:
            # what the consumers read off that order
            if got[:CGS] != ([me] + nearest)[:CGS]:
                v.append(("closest-k-order", "close group is not ourselves plus the nearest"))
            if len(got) > CGS + 2 and got[CGS + 1] != nearest[CGS]:
                v.append(("closest-k-order", "responsible-range reference peer is not the %d-th nearest" % (CGS + 1)))
        return v
    if op == "store_hist":
        hs = H(bytes.fromhex(c["self"]))
        d = lambda k: hs ^ H(bytes.fromhex(k))
        mx = c["max"]
        for i, (st, sp) in enumerate(zip(c["steps"], o["steps"])):
            pre, post = sp["pre_held"], sp["held"]
            if sp["res"] not in (0, 1, 2) or (sp["res"] == 2 and st["s"] != "put"):
                v.append(("harness", "step %d: unexpected outcome %r" % (i, sp["res"])))
                continue
            if st["s"] == "put" and st["key"] in pre:
                # a held record put again (an update, or the same bytes): it is not farther than the farthest held
                # record -- at most AT its distance, when it is the farthest itself -- so it is never refused
                k = st["key"]
                far = max(pre, key=d)
                if sp["res"] == 1:
                    v.append(("store-admission", "step %d: store refused (%d/%d held) a record it already holds, at distance %d; the "
                              "farthest held record is at %d%s" % (i, len(pre), mx, d(k), d(far),
                                                                  " (it IS the farthest record)" if k == far else "")))
                elif sp["res"] == 2 and sorted(post) != sorted(pre):
                    v.append(("store-state", "step %d: cached re-put changed the store" % i))
                elif sp["res"] == 0 and (len(pre) < mx or k == far) and sorted(post) != sorted(pre):
                    v.append(("store-eviction", "step %d: re-put of %s changed the held set %d -> %d" % (
                        i, "the farthest record" if k == far else "a held record below capacity", len(pre), len(post))))
                elif k not in post:
                    v.append(("store-state", "step %d: re-put record is no longer held" % i))
            elif st["s"] == "put" and sp["res"] == 2:
                v.append(("harness", "step %d: early return for a record that is not held" % i))
            elif st["s"] == "put":
                k = st["key"]
                if len(pre) < mx:
                    want_res, want = 0, sorted(pre + [k])
                else:
                    far = max(pre, key=d)
                    if d(k) <= d(far):
                        want_res, want = 0, sorted([x for x in pre if x != far] + [k])
                    else:
                        want_res, want = 1, sorted(pre)
                if sp["res"] != want_res:
                    v.append(("store-admission", "step %d: store %s (%d/%d held) a record at distance %d; the farthest held record "
                              "is at %d" % (i, "refused" if sp["res"] else "admitted", len(pre), mx, d(k),
                                            max(map(d, pre)) if pre else -1)))
                elif sorted(post) != want:
                    gone = [x for x in pre if x not in post]
                    v.append(("store-eviction", "step %d: full store admitted a record and evicted %s (distance %s); the farthest "
                              "held record is at %d" % (i, [g[:12] for g in gone], [d(g) for g in gone], max(map(d, pre)))))
            elif st["s"] == "remove":
                if sorted(post) != sorted(x for x in pre if x != st["key"]):
                    v.append(("store-state", "step %d: remove did not remove exactly the key" % i))
            elif st["s"] == "restart":
                if sorted(post) != sorted(pre):
                    v.append(("store-state", "step %d: restart lost or invented records (%d -> %d)" % (i, len(pre), len(post))))
            # farthest_record == argmax of the integer distance over ALL held records, after every step
            if post:
                far = max(post, key=d)
                if sp["far"] is None or sp["far"][0] != far or int(sp["far"][1]) != d(far) or sp["far_key"] != far:
                    v.append(("store-farthest", "step %d (%s): farthest record is %s, but the farthest of the %d held records is "
                              "%s at distance %d" % (i, st["s"], None if sp["far"] is None else (sp["far"][0][:12], sp["far"][1]),
                                                     len(post), far[:12], d(far))))
            elif sp["far"] is not None or sp["far_key"] is not None:
                v.append(("store-farthest", "step %d (%s): empty store reports a farthest record" % (i, st["s"])))
        return v
    if op == "close_peers":
        me = o["self"]
        if c["a"]["t"] == "self":
            if o["abytes"] != me:
                v.append(("address-bytes", "target is not the asker's own address"))
        else:
            check_bytes(c, c["a"], o["abytes"], v)
        found = [me if p == "self" else p for p in c["found"]]
        if found != o["found_peers"]:
            v.append(("harness", "query answer not as requested"))
        ht = H(bytes.fromhex(o["abytes"]))
        # a client is never one of its own close peers and never counts; a node keeps itself
        known = [p for p in found if p != me] if c["client"] else found
        want = stable_closest(known, lambda p: ht ^ H(bytes.fromhex(p)))[:CGS + CGS // 2]
        if o["code"] == 0:
            if len(known) < CGS:
                v.append(("close-peers-too-few", "%s: only %d %speers known (fewer than CLOSE_GROUP_SIZE) but Ok with %d entries"
                          % ("client" if c["client"] else "node", len(known), "other " if c["client"] else "", len(o["l"]))))
            elif o["l"] != want:
                v.append(("close-peers", "%s: %d %speers known, got %d entries, the nearest %d in ascending XOR distance are "
                          "expected%s" % ("client" if c["client"] else "node", len(known), "other " if c["client"] else "",
                                          len(o["l"]), len(want),
                                          " (the asker itself is in the result)" if c["client"] and me in o["l"] else "")))
        elif o["code"] == 1:
            if len(known) >= CGS:
                v.append(("spurious-error", "NotEnoughPeers with %d peers known" % len(known)))
            elif o["found"] != len(known) or o["required"] != CGS:
                v.append(("error-fields", "NotEnoughPeers{found:%s,required:%s} with %d %speers known" % (
                    o["found"], o["required"], len(known), "other " if c["client"] else "")))
        else:
            v.append(("unexpected-error", str(o.get("err"))))
        return v
    if op == "in_range":
        check_bytes(c, c["a"], o["abytes"], v)
        ht = H(bytes.fromhex(o["abytes"]))
        want = [p for p in c["peers"] if (ht ^ H(bytes.fromhex(p))) <= int(c["range"])]
        if o["l"] != want:
            v.append(("range-filter", "peers within %s: got %d, XOR metric says %d" % (c["range"], len(o["l"]), len(want))))
        return v
    if op == "closest":
        check_bytes(c, c["a"], o["abytes"], v)
        ht = H(bytes.fromhex(o["abytes"]))
        got = [(x[1], x[2]) for x in o["l"]]
        if any(x[0] != "peer" or x[3] != 1 for x in o["l"]):
            v.append(("closest-shape", "entries are not peer addresses with their multi-addresses"))
        tagged = [(p, t) for p, t in c["peers"]]
        if c["range"] is not None:
            r = int(c["range"], 16)
            want = [(p, t) for p, t in tagged if (ht ^ H(bytes.fromhex(p))) <= r]
            if got != want:
                v.append(("range-filter", "closest peers within range: got %d, XOR metric says %d" % (len(got), len(want))))
        elif c["num"] is not None:
            full = stable_closest(tagged, lambda pt: ht ^ H(bytes.fromhex(pt[0])))
            if got != full[:len(got)] or len(got) > c["num"]:
                v.append(("sort-order", "closest peers are not the ascending-by-XOR prefix"))
            elif len(got) != c["num"]:
                cls = "closest-short-no-error" if len(got) == len(tagged) < c["num"] else "short-list"
                v.append((cls, "%d peers known, %d requested, %d returned and no report" % (len(tagged), c["num"], len(got))))
        elif got:
            v.append(("closest-shape", "no count and no range but %d peers returned" % len(got)))
        return v
    if op == "candidates":
        check_bytes(c, c["a"], o["abytes"], v)
        ht = H(bytes.fromhex(o["abytes"]))
        d = lambda p: ht ^ H(bytes.fromhex(p))
        if not set(o["inserted"]) <= set(c["table"]):
            v.append(("harness", "inserted peers not from the table"))
        if o["closest"] != stable_closest(o["inserted"], d):
            v.append(("kad-closest-order", "kademlia's closest local peers are not the table in ascending XOR order"))
        rg = None if c["range"] is None else int(c["range"])
        if (o["range"] is None) != (rg is None) or (rg is not None and int(o["range"]) != rg):
            v.append(("harness", "range not installed"))
        want = o["closest"][:CGS]
        if rg is not None:
            inr = [p for p in o["closest"] if d(p) <= rg]
            if len(inr) >= CGS:
                want = inr
        if o["out"] != want:
            v.append(("candidates", "replicate candidates: got %d, expected %d (range %s)" % (len(o["out"]), len(want), c["range"])))
        return v
    if op == "fetcher":
        for a, b in zip(c["keys"], o["keys_bytes"]):
            check_bytes(c, a, b, v, "key")
        hs = H(bytes.fromhex(c["self"]))
        d = lambda k: hs ^ H(bytes.fromhex(k))
        ks = o["keys_bytes"]
        if c["range"] is not None:
            ks = [k for k in ks if d(k) <= int(c["range"])]
        want = stable_closest(ks, d)
        if o["out"] != want or not o["holders_ok"]:
            v.append(("fetch-range", "fetcher hands out %d keys, XOR metric says %d in range (closest first)" % (len(o["out"]), len(want))))
        return v
    if op == "fetch_sched":
        hs = H(bytes.fromhex(c["self"]))
        maxp = o["max_parallel"]
        bounds = fetch_bounds(c, hs)
        for i, (st, step) in enumerate(zip(c["steps"], o["steps"])):
            b_pre, b_post = bounds[i]
            dist = lambda e: hs ^ H(bytes.fromhex(e[0]))
            # the fullness bound: equals the minimum of the notified distances, and nothing farther than it is
            # queued, in flight or handed out (exact 256-bit comparison)
            got_far = None if step["post_far"] is None else int(step["post_far"])
            if got_far != b_post:
                v.append(("farthest-bound", "step %d (%s): farthest acceptable distance is %s, the minimum of the notified "
                          "farthest distances is %s" % (i, st["s"], got_far, b_post)))
            if b_post is not None:
                beyond = [e for e in step["post_p"] + step["post_o"] if dist(e) > b_post]
                if beyond:
                    v.append(("beyond-farthest", "step %d (%s): %d entries queued / in flight are farther than the store's "
                              "farthest record (e.g. key %s at %d > %d)" % (i, st["s"], len(beyond), beyond[0][0][:16],
                                                                           dist(beyond[0]), b_post)))
            if st["s"] == "full":
                keep = (lambda e: True) if b_post is None else (lambda e: dist(e) <= b_post)
                if sorted(map(tuple, step["post_p"])) != sorted(tuple(e) for e in step["pre_p"] if keep(e)) or \
                        sorted(map(tuple, step["post_o"])) != sorted(tuple(e) for e in step["pre_o"] if keep(e)) or step["out"]:
                    if not any(cl in ("beyond-farthest", "farthest-bound") for cl, _ in v):
                        v.append(("farthest-purge", "step %d (full): maps after the notification are not the entries within the bound" % i))
                continue
            pre = fetch_pre(c, st, step, hs, b_pre)
            if pre is None:
                continue
            P1, O1 = pre
            inflight = {(e[0], e[1]) for e in O1}
            cap = max(maxp - len(inflight), 0)
            cands = {(e[0], e[1]) for e in P1} - inflight
            want = sorted(hs ^ H(bytes.fromhex(k)) for k, _t in cands)[:cap]
            got = [hs ^ H(bytes.fromhex(k)) for _h, k in step["out"]]
            if got != want:
                v.append(("fetch-order", "step %d (%s): handed out keys at distances %s..., but the closest pending "
                          "(key,type)s not in flight are at %s... (%d pending, %d in flight, capacity %d)"
                          % (i, st["s"], [str(x)[:12] for x in got[:3]], [str(x)[:12] for x in want[:3]],
                             len(P1), len(inflight), cap)))
                continue
            picked = fetch_picked(step, O1)
            if picked is None or any(e not in P1 or (e[0], e[1]) in inflight for e in picked) or \
                    len({(e[0], e[1]) for e in picked}) != len(picked):
                v.append(("fetch-state", "step %d (%s): handed-out entries are not distinct pending (key,type)s going in flight" % (i, st["s"])))
                continue
            if sorted(map(tuple, step["post_p"])) != sorted(e for e in P1 if e not in picked) or \
                    sorted(map(tuple, step["post_o"])) != sorted(O1 + picked):
                v.append(("fetch-state", "step %d (%s): maps after the step are not (backlog - picked, in flight + picked)" % (i, st["s"])))
        return v
    if op == "store_count":
        hs = H(bytes.fromhex(c["self"]))
        want = len({k for k in c["keys"] if (hs ^ H(bytes.fromhex(k))) < int(c["range"])})
        if o["n"] != want:
            v.append(("store-range", "records within range: %d, XOR metric says %d" % (o["n"], want)))
        return v
    return [("harness", "unknown op")]


# ------------------------------------------------------------------------------------------ model agreement

def model_term(c, o):
    if "panic" in o or "error" in o:
        return "false"
    op = c["op"]
    S = "sha256"
    if op == "addr":
        return "agree_addr %s %s %s %s %s" % (S, caddr(c["a"], o["bytes"]), cbytes(o["bytes"]), cbytes(o["key"]),
                                             cN(int(o["digest"], 16)))
    if op == "dist":
        vals = [dbg_val(o[k]) for k in ("dbg_ab", "dbg_ba", "dbg_keys")]
        if any(x is None for x in vals):
            return "false"
        return "agree_dist %s %s %s %s %s %s %s" % (S, caddr(c["a"], o["bytes_a"]), caddr(c["b"], o["bytes_b"]),
                                                   cN(vals[0]), cN(vals[1]), cN(int(o["u_ab"])), cN(vals[2]))
    if op in ("sort_addr", "sort_key"):
        res = "%s %s %s %s" % (cN(o["code"]), cN(o.get("found", 0)), cN(o.get("required", 0)), cpeers(o.get("l", [])))
        if o["code"] not in (0, 1):
            return "false"
        if op == "sort_addr":
            return "agree_sort_addr %s %s %s %s %s" % (S, cpeers(c["peers"]), caddr(c["a"], o["abytes"]), cN(c["n"]), res)
        return "agree_sort_key %s %s %s %s %s" % (S, cpeers(c["peers"]), cbytes(c["pre"]), cN(c["n"]), res)
    if op == "chunk_proofs":
        if c["difficulty"] == 1:
            return None
        recs = clist(["(%s, %s)" % (cbytes(k), cN(t)) for k, t in c["records"]])
        return "agree_chunk_proofs %s %s %s %s %s" % (S, caddr(c["a"], o["abytes"]), cN(c["difficulty"]), recs,
                                                     cpeers([x[1] for x in o["l"]]))
    if op == "closest_k":
        return "agree_closest_k %s %s %s %s" % (S, cbytes(o["self"]), cpeers(o["inserted"]), cpeers(o["closest_k"]))
    if op == "store_hist":
        kidx = {}

        def ck(k):
            return "(k %d%%nat)" % kidx.setdefault(k, len(kidx))

        def cfar(f):
            return "None" if f is None else "(Some (%s, %s))" % (ck(f[0]), cN(int(f[1])))
        recs = []
        for st, sp in zip(c["steps"], o["steps"]):
            if sp["res"] not in (0, 1, 2):
                return "false"
            cst = {"put": "(SPutSame %s)" if sp["res"] == 2 else "(SPut %s)", "remove": "(SRemove %s)"}.get(st["s"], "SRestart")
            if "%s" in cst:
                cst = cst % ck(st["key"])
            recs.append("(%s, (%s, %s), %s, (%s, %s))" % (
                cst, clist([ck(x) for x in sp["pre_held"]]), cfar(sp["pre_far"]), cN(sp["res"]),
                clist([ck(x) for x in sp["held"]]), cfar(sp["far"])))
        ks = sorted(kidx, key=kidx.get)
        return ("(let ks : list (list N) := %s in let k := fun i : nat => nth i ks [] in "
                "agree_store_hist %s %s %s ks %s)" % (cpeers(ks), S, cbytes(c["self"]), cN(c["max"]), clist(recs)))
    if op == "close_peers":
        if o["code"] not in (0, 1):
            return "false"
        a = "(APeer %s)" % cbytes(o["abytes"]) if c["a"]["t"] == "self" else caddr(c["a"], o["abytes"])
        return "agree_close_peers %s %s %s %s %s %s %s %s %s" % (
            S, cbytes(o["self"]), "true" if c["client"] else "false", cpeers(o["found_peers"]), a,
            cN(o["code"]), cN(o.get("found", 0)), cN(o.get("required", 0)), cpeers(o.get("l", [])))
    if op == "in_range":
        return "agree_in_range %s %s %s %s %s" % (S, cpeers(c["peers"]), caddr(c["a"], o["abytes"]),
                                                 cN(int(c["range"])), cpeers(o["l"]))
    if op == "closest":
        ctor = {"peer": "APeer", "chunk": "AChunk", "tx": "ATx", "reg": "AReg", "key": "AKey", "scratch": "AScratch"}
        pas = clist([cpair(cbytes(p), cN(t)) for p, t in c["peers"]])
        out = clist([cpair("(%s %s)" % (ctor[x[0]], cbytes(x[1])), cN(x[2])) for x in o["l"]])
        return "agree_closest %s %s %s %s %s %s" % (
            S, pas, caddr(c["a"], o["abytes"]), copt(c["num"], cN),
            copt(c["range"], cbytes), out)
    if op == "candidates":
        return "agree_candidates %s %s %s %s %s %s" % (
            S, cpeers(o["inserted"]), cpeers(o["closest"]), caddr(c["a"], o["abytes"]),
            copt(c["range"], lambda r: cN(int(r))), cpeers(o["out"]))
    if op == "fetcher":
        keys = clist([caddr(a, b) for a, b in zip(c["keys"], o["keys_bytes"])])
        return "agree_fetcher %s %s %s %s %s" % (S, cbytes(c["self"]), copt(c["range"], lambda r: cN(int(r))),
                                                keys, cpeers(o["out"]))
    if op == "fetch_sched":
        hs = H(bytes.fromhex(c["self"]))
        # byte strings are written once (tables ks / hl) and referred to by index: the recorded maps
        # repeat the same keys and holders many times
        kidx, hidx = {}, {}

        def ck(k):
            return "(k %d%%nat)" % kidx.setdefault(k, len(kidx))

        def cent(e):
            return "(e %d%%nat %s %d%%nat)" % (kidx.setdefault(e[0], len(kidx)), cN(e[1]), hidx.setdefault(e[2], len(hidx)))

        def cents(l):
            return clist([cent(e) for e in l])
        recs = []
        bounds = fetch_bounds(c, hs)
        far = lambda x: copt(x, lambda d: cN(int(d)))
        for (st, step), (b_pre, _b) in zip(zip(c["steps"], o["steps"]), bounds):
            if st["s"] == "full":
                recs.append("(FFull %s, (%s, %s, %s), [], (%s, %s, %s))" % (
                    copt(st["key"], ck), cents(step["pre_p"]), cents(step["pre_o"]), far(step["pre_far"]),
                    cents(step["post_p"]), cents(step["post_o"]), far(step["post_far"])))
                continue
            pre = fetch_pre(c, st, step, hs, None if step["pre_far"] is None else int(step["pre_far"]))
            if pre is None:
                continue
            picked = fetch_picked(step, pre[1])
            if picked is None:
                return "false"
            if st["s"] == "add":
                cst = "(FAdd (h %d%%nat) %s)" % (hidx.setdefault(st["holder"], len(hidx)),
                                                 clist(["(%s, %s)" % (ck(k), cN(t)) for k, t in st["keys"]]))
            elif st["s"] in ("put", "early"):
                cst = "(%s %s %s)" % ("FPut" if st["s"] == "put" else "FEarly", ck(st["key"]), cN(st["type"]))
            else:
                cst = "FNext"
            recs.append("(%s, (%s, %s, %s), %s, (%s, %s, %s))" % (
                cst, cents(step["pre_p"]), cents(step["pre_o"]), far(step["pre_far"]), cents(picked),
                cents(step["post_p"]), cents(step["post_o"]), far(step["post_far"])))
        ks = sorted(kidx, key=kidx.get)
        hl = sorted(hidx, key=hidx.get)
        return ("(let ks : list (list N) := %s in let hl : list (list N) := %s in "
                "let k := fun i : nat => nth i ks [] in let h := fun i : nat => nth i hl [] in "
                "let e := fun (i : nat) (t : N) (j : nat) => (k i, t, h j) in agree_fetch_sched %s %s %s %s ks %s)" % (
                    cpeers(ks), cpeers(hl), S, cbytes(c["self"]), cN(o["max_parallel"]),
                    copt(c["range"], lambda r: cN(int(r))), clist(recs)))
    if op == "store_count":
        return "agree_store_count %s %s %s %s %s" % (S, cbytes(c["self"]), cpeers(c["keys"]), cN(int(c["range"])), cN(o["n"]))
    return "false"


def show(c, o):
    op = c["op"]
    S = "sha256"
    if op == "addr":
        return "(as_bytes %s, kbucket_key %s %s)" % (caddr(c["a"], o["bytes"]), S, caddr(c["a"], o["bytes"]))
    if op == "dist":
        a, b = caddr(c["a"], o["bytes_a"]), caddr(c["b"], o["bytes_b"])
        return "(distance %s %s %s, distance_u256 %s %s %s)" % (S, a, b, S, a, b)
    if op == "sort_addr":
        return "sort_peers_by_address %s %s %s %s" % (S, cpeers(c["peers"]), caddr(c["a"], o["abytes"]), cN(c["n"]))
    if op == "sort_key":
        return "sort_peers_by_key %s %s (%s %s) %s" % (S, cpeers(c["peers"]), S, cbytes(c["pre"]), cN(c["n"]))
    if op == "chunk_proofs":
        recs = clist(["(%s, %s)" % (cbytes(k), cN(t)) for k, t in c["records"]])
        return "x_closest_chunks %s %s %s %s" % (S, caddr(c["a"], o["abytes"]), cN(c["difficulty"]), recs)
    if op == "closest_k":
        return "closest_k_value_local_peers %s %s %s %s" % (S, cbytes(o["self"]), cN(K_VALUE), cpeers(o["inserted"]))
    if op == "store_hist":
        return "tt"
    if op == "close_peers":
        a = "(APeer %s)" % cbytes(o["abytes"]) if c["a"]["t"] == "self" else caddr(c["a"], o["abytes"])
        return "get_all_close_peers %s %s %s %s %s" % (S, cbytes(o["self"]), "true" if c["client"] else "false",
                                                      cpeers(o["found_peers"]), a)
    if op == "in_range":
        return "get_peers_in_range %s %s %s %s" % (S, cpeers(c["peers"]), caddr(c["a"], o["abytes"]), cN(int(c["range"])))
    if op == "closest":
        pas = clist([cpair(cbytes(p), cN(t)) for p, t in c["peers"]])
        return "calculate_get_closest_peers %s %s %s %s %s" % (S, pas, caddr(c["a"], o["abytes"]), copt(c["num"], cN),
                                                              copt(c["range"], cbytes))
    if op == "candidates":
        return "get_replicate_candidates %s %s %s %s" % (S, cpeers(o["closest"]), caddr(c["a"], o["abytes"]),
                                                        copt(c["range"], lambda r: cN(int(r))))
    if op == "fetcher":
        keys = clist([caddr(a, b) for a, b in zip(c["keys"], o["keys_bytes"])])
        return "fetcher_add_keys %s %s %s %s" % (S, cbytes(c["self"]), copt(c["range"], lambda r: cN(int(r))), keys)
    if op == "fetch_sched":
        return "tt"
    if op == "store_count":
        return "records_within_distance_range %s %s %s %s" % (S, cbytes(c["self"]), cpeers(c["keys"]), cN(int(c["range"])))
    return "tt"


def size_class(n):
    return 0 if n == 0 else 1 if n < CGS else 2 if n == CGS else 3 if n <= 10 else 4


def nontrivial(c, o):
    op = c["op"]
    if "panic" in o:
        return (op, "panic")
    if op == "addr":
        return (op, c["a"]["t"], len(o["bytes"]) // 2)
    if op == "dist":
        return (op, c["a"]["t"], c["b"]["t"], o["dbg_ab"] == "Distance(0)", o["cmp_ab_ac"])
    if op in ("sort_addr", "sort_key"):
        n, k = c["n"], len(c["peers"])
        return (op, o["code"], size_class(k), (n > k) - (n < k), min(n, 8), c.get("a", {}).get("t"))
    if op == "chunk_proofs":
        nonchunk_near = sum(1 for k, t in c["records"] if t != 0)
        return (op, c["difficulty"], min(len(c["records"]), 10), len(o.get("l", [])), min(nonchunk_near, 4), c["a"]["t"])
    if op == "closest_k":
        return (op, len(o["inserted"]), len(o["closest_k"]))
    if op == "store_hist":
        return (op, c["max"], tuple((st["s"], sp["res"], len(sp["pre_held"]), len(sp["held"])) for st, sp in zip(c["steps"], o["steps"])))
    if op == "close_peers":
        me = o["self"]
        others = len([p for p in o["found_peers"] if p != me])
        return (op, c["client"], "self" in c["found"], min(others, CGS + 4), o["code"], len(o.get("l", [])),
                c["a"]["t"] == "self", me in o.get("l", []))
    if op == "in_range":
        return (op, size_class(len(c["peers"])), size_class(len(o["l"])), len(o["l"]) == len(c["peers"]), c["a"]["t"])
    if op == "closest":
        return (op, c["num"] is None, c["range"] is None, size_class(len(c["peers"])), size_class(len(o["l"])),
                None if c["num"] is None else (c["num"] > len(c["peers"])) - (c["num"] < len(c["peers"])))
    if op == "candidates":
        return (op, c["range"] is None, size_class(len(o["inserted"])), len(o["out"]), c["a"]["t"])
    if op == "fetcher":
        return (op, c["range"] is None, len(c["keys"]), len(o["out"]))
    if op == "fetch_sched":
        sig = tuple((st["s"], min(len(sp["pre_p"]), 40) // 10, len(sp["pre_o"]), len(sp["out"]))
                    for st, sp in zip(c["steps"], o["steps"]))
        return (op, c["range"] is None, sig)
    if op == "store_count":
        return (op, len(c["keys"]), o["n"])
    return (op,)


def run(ctx):
    ctx.regen_consts()
    ctx.prove("props/C11.v", THEOREMS, extra_trusted=[
        "models coq/model/Closeness.v, coq/lib/Sha256.v, coq/lib/XorMetric.v (hand-written) tied to the Rust code by this "
        "run's correspondence; the digest is a function argument with the 256-bit bound as its only law",
        "translator tools/extract_consts.py: c11_close_group_size re-read from ant-protocol/src/lib.rs",
        "hooks: ant_networking::verif_hooks::cmd (get_peers_in_range, get_replicate_candidates, routing-table and range "
        "helpers, fetcher/store probes), ant_node::verif_hooks::calculate_get_closest_peers",
        "harness/crates/c11 (Rust driver), tools/props/C11.py (generator, oracle with hashlib SHA-256/SHA3-256, canonicaliser)",
        "third-party: libp2p kad closest_keys order, uint Debug/decimal printing, ruint from_str, blsttc key derivation"])
    ctx.coq_make(["lib/Harness.v"])      # the generated case files import it; not in props/C11.v's cone
    binary = ctx.cargo_build("c11")
    corpus = ctx.corpus()
    resolve(ctx, binary, corpus)
    generated = [] if ctx.replay or binary is None else gen(ctx, binary)
    ctx.rng.shuffle(generated)      # spread the expensive kinds (scheduling histories, 40-peer sorts) over the coqc shards
    cases = corpus + generated
    relation = ("NetworkAddress::distance / convert_distance_to_u256 / sort_peers_by_* / get_peers_in_range / "
                "calculate_get_closest_peers / get_replicate_candidates / fetcher+store range filters == "
                "Closeness.* with H := Sha256.sha256")
    for attempt in range(3):
        # Another property's check may regenerate gen/Consts.v (a new constant of its own) while this one is
        # building the harness or evaluating: the compiled model is then stale ("inconsistent assumptions").
        # That is a race in the shared build directory, not a property of the code: rebuild and run again.
        snap = (len(ctx.tie_breaks), len(ctx.impl_viol), dict(ctx.cov["distribution"]), ctx.cov["evaluations"],
                ctx.cov["traces_validated_against_impl"], set(ctx._nontrivial), list(ctx.cov["samples"]))
        ctx.coq_make(["model/Closeness.v", "lib/Sha256.v", "lib/Harness.v"])
        ctx.pipeline(cases, binary, oracle, model_term, IMPORTS, nontrivial=nontrivial, show=show, shard_size=60,
                     relation=relation)
        stale = [t for t in ctx.tie_breaks[snap[0]:]
                 if t[0] == "model-eval" and "inconsistent assumptions" in str(t[2])]
        if not stale or attempt == 2:
            break
        ctx.log("stale compiled model (gen/Consts.v was regenerated concurrently); rebuilding and re-running")
        del ctx.tie_breaks[snap[0]:]
        del ctx.impl_viol[snap[1]:]
        ctx.cov["distribution"] = snap[2]
        ctx.cov["evaluations"] = snap[3]
        ctx.cov["traces_validated_against_impl"] = snap[4]
        ctx._nontrivial = snap[5]
        ctx.cov["samples"] = snap[6]
