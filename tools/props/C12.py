"""C12 -- record and message encodings round-trip and stay wire-stable
(ant-protocol/src/storage/header.rs, chunks.rs; stored types of every record kind)."""
import hashlib
from vpc.core import cN, cZ, clist, copt, cbool



def cbytes(b):
    """`list N` through the hex reader; long strings are split (coqc overflows its stack on
    string literals above ~100k characters)"""
    h = b if isinstance(b, str) else bytes(b).hex()
    if len(h) <= 8192:
        return '(hx "%s")' % h
    return "(" + " ++ ".join('hx "%s"' % h[i:i + 8192] for i in range(0, len(h), 8192)) + ")"


IMPORTS = "Require Import V.lib.Serde V.lib.Msgpack V.lib.Cbor V.model.Quote V.model.Header V.model.Messages."
THEOREMS = ["is_chunk_iff_header_chunk", "kind_tag_table", "tag_bijection", "unknown_tag_rejected", "header_fixed_prefix",
            "header_roundtrip", "from_record_accepts_iff", "from_record_short", "record_roundtrip",
            "record_kinds_distinguished", "chunk_roundtrip", "chunk_address_recomputed",
            "chunk_encoding_carries_no_address", "decode_truncated_header", "decode_truncated",
            "mp_decode_stable_under_extension", "message_roundtrip", "cbor_roundtrip_generic",
            "cbor_encoding_prefix_free", "message_name_tables", "mp_roundtrip_generic",
            "mp_encoding_prefix_free"]
RULE = ("values of all eight record kinds built from real types (chunks with 0/1/31/32/255/256/65535/65536-byte and "
        "one 4 MiB payload; scratchpads with and without signature; Vec<Transaction> of 0-4 entries with 0-3 parents and "
        "outputs; signed registers with both permission variants and 0-8 (quick) / 0-64 (thorough) ops; proofs of payment "
        "of 0-5 quotes with msgpack-boundary metrics); sequences of 2-7 encodings of mixed kinds on one thread with failing "
        "encodings in between (a proof of payment whose quote is dated before the unix epoch), each output compared with the "
        "encoding of the same value on a fresh thread and with the model; malformed stream derived from the real encodings: truncation at "
        "every offset (small records) or 40 offsets, single-bit flips, kind byte 8..255 and non-canonical integer forms of "
        "the tag (cc/cd/ce/cf/d0..d3), bin8 / map forms of the header, trailing garbage, empty/1/2-byte values, str and "
        "array-of-int encodings of a chunk; every other spelling of a header (wide tags cc/cd/ce/cf/d0/d1, bin, index- and "
        "name-keyed maps, array16/32, map16, arity 2, missing / doubled) in front of a valid body of every kind and bodies "
        "shifted by one byte (oracle: the typed result equals T's own decoding of value[2..]); an adversarial structured stream for the chunk decoders (maps / 2-arrays / nested / "
        "variant-wrapped bodies carrying an `address` next to the `value`, address as hex str / bin / int array / ..., set to the "
        "true hash, another content's hash or garbage; value as bin / str / int array; extra, missing, duplicated fields), behind "
        "Chunk and ChunkWithPayment headers; plus the exhaustive sweep of all 2^24 three-byte headers through "
        "RecordHeader::from_record; the record KEY of the decode cases cycles through lengths 0/1/2/3/5/31/32/33/64 bytes and every "
        "run happens under an always-on TRACE-level tracing subscriber that formats all event fields; every Request / Response variant (all NetworkAddress forms, Ok and eleven Err payloads, "
        "0-40 keys / proofs / peers; free text of lengths 0/1/23/24/255/256/257/1000/70000 (ASCII, and 2-/3-/4-byte characters "
        "straddling every offset next to 24 and 256 -- more in thorough) and byte strings of 0..65536 bytes in every variant that "
        "carries text or bytes; each of the 17 Error variants with its payload in each of the 7 places of a Response that can carry an "
        "Error) through the real libp2p CBOR codec and rmp-serde, and truncations / bit flips of the CBOR.  Distinct/non-trivial by (op, kind, outcome class, size class)")
ASSUMPTIONS = [
    "cases whose encoding exceeds 8 KiB are not turned into Coq literals (one 70000-byte case costs coqc more than 1 GB): they are "
    "judged by the model-independent oracle only (round trip, tag, content hash, never panics); the single exception is the "
    "65536-byte chunk (bin32 boundary), evaluated in a shard of its own. The 4-byte CBOR head form is still exercised in the model "
    "through integer arguments >= 65536",
    "all harness runs happen under an always-on tracing subscriber (every level enabled, every event's fields formatted): "
    "evaluating and formatting log arguments is part of what the decoders do in production",
    "serde-derive symmetry (Deserialize inverts Serialize for the derived types) and the totality of the third-party typed "
    "decoders (rmp-serde, blsttc point validation, bytes) are validated by the correspondence run, not proved",
    "the recorded serde call tree (harness module rec) is normalised as documented in coq/lib/Serde.v; "
    "XorName::from_content is SHA3-256 (checked against hashlib on every decoded chunk)",
    "Request/Response messages go through the real libp2p request_response::cbor codec (its private Codec type is recovered "
    "through the public cbor::Behaviour alias; write_request/read_request, write_response/read_response on in-memory "
    "cursors), and cbor4ii::serde::{to_vec,from_slice} must agree with it; the CBOR model (coq/lib/Cbor.v) decodes canonically (fields in declaration order, definite "
    "lengths) -- cbor4ii's own decoder leniency and its behaviour on malformed input are validated (no panic, stable "
    "re-encoding), not modelled"]

PINNED = {"ChunkWithPayment": 0, "Chunk": 1, "Transaction": 2, "Register": 3, "RegisterWithPayment": 4,
          "Scratchpad": 5, "ScratchpadWithPayment": 6, "TransactionWithPayment": 7}
BY_TAG = {v: k for k, v in PINNED.items()}
KINDS = ["Chunk", "ChunkWithPayment", "Transaction", "TransactionWithPayment", "Register", "RegisterWithPayment",
         "Scratchpad", "ScratchpadWithPayment"]
EXACT_KINDS = {"Chunk"}           # typed layer modelled exactly (see Header.decode_bytes_lenient)
SEEN = []                         # (case, impl output) of the record phase, feeds the malformed stream


# ------------------------------------------------------------------------------------------------
# independent reference: msgpack of a recorded tree, header acceptance, payload pattern
# ------------------------------------------------------------------------------------------------
def mp_uint(n):
    if n < 128:
        return bytes([n])
    if n < 256:
        return bytes([0xcc, n])
    if n < 65536:
        return b"\xcd" + n.to_bytes(2, "big")
    if n < 2 ** 32:
        return b"\xce" + n.to_bytes(4, "big")
    return b"\xcf" + n.to_bytes(8, "big")


def mp_sint(z):
    if z >= 0:
        return mp_uint(z)
    if z >= -32:
        return bytes([256 + z])
    if z >= -128:
        return bytes([0xd0, 256 + z])
    if z >= -32768:
        return b"\xd1" + (65536 + z).to_bytes(2, "big")
    if z >= -2 ** 31:
        return b"\xd2" + (2 ** 32 + z).to_bytes(4, "big")
    return b"\xd3" + (2 ** 64 + z).to_bytes(8, "big")


def mp_len(n, fixbase, fixcap, m8, m16, m32):
    if n < fixcap:
        return bytes([fixbase + n])
    if m8 is not None and n < 256:
        return bytes([m8, n])
    if n < 65536:
        return bytes([m16]) + n.to_bytes(2, "big")
    return bytes([m32]) + n.to_bytes(4, "big")


def mp_str(b):
    return mp_len(len(b), 0xa0, 32, 0xd9, 0xda, 0xdb) + b


def mp_tree(t):
    if "b" in t:
        return b"\xc3" if t["b"] else b"\xc2"
    if "u" in t:
        return mp_uint(t["u"][1])
    if "i" in t:
        return mp_sint(t["i"][1])
    if "f32" in t:
        return b"\xca" + t["f32"].to_bytes(4, "big")
    if "f64" in t:
        return b"\xcb" + t["f64"].to_bytes(8, "big")
    if "s" in t:
        return mp_str(bytes.fromhex(t["s"]))
    if "y" in t:
        b = bytes.fromhex(t["y"])
        return mp_len(len(b), 0, 0, 0xc4, 0xc5, 0xc6) + b
    if "n" in t or "unit" in t:
        return b"\xc0"
    if "some" in t:
        return mp_tree(t["some"])
    if "uv" in t:
        return mp_str(bytes.fromhex(t["uv"]))
    if "v" in t:
        return b"\x81" + mp_str(bytes.fromhex(t["v"][0])) + mp_tree(t["v"][1])
    if "seq" in t or "tup" in t:
        items = t.get("seq", t.get("tup"))
        return mp_len(len(items), 0x90, 16, None, 0xdc, 0xdd) + b"".join(mp_tree(x) for x in items)
    if "map" in t:
        return mp_len(len(t["map"]) // 2, 0x80, 16, None, 0xde, 0xdf) + b"".join(mp_tree(x) for x in t["map"])
    raise ValueError(t)


def cb_head(major, n):
    if n < 24:
        return bytes([major * 32 + n])
    if n < 256:
        return bytes([major * 32 + 24, n])
    if n < 65536:
        return bytes([major * 32 + 25]) + n.to_bytes(2, "big")
    if n < 2 ** 32:
        return bytes([major * 32 + 26]) + n.to_bytes(4, "big")
    return bytes([major * 32 + 27]) + n.to_bytes(8, "big")


def cbor_tree(t):
    """RFC 8949 encoding of a recorded (named-mode) serde tree, definite lengths, shortest heads"""
    if "b" in t:
        return b"\xf5" if t["b"] else b"\xf4"
    if "u" in t:
        return cb_head(0, t["u"][1])
    if "i" in t:
        z = t["i"][1]
        return cb_head(0, z) if z >= 0 else cb_head(1, -1 - z)
    if "f32" in t:
        return b"\xfa" + t["f32"].to_bytes(4, "big")
    if "f64" in t:
        return b"\xfb" + t["f64"].to_bytes(8, "big")
    if "s" in t:
        b = bytes.fromhex(t["s"])
        return cb_head(3, len(b)) + b
    if "y" in t:
        b = bytes.fromhex(t["y"])
        return cb_head(2, len(b)) + b
    if "n" in t:
        return b"\xf6"
    if "unit" in t:
        return b"\x80"
    if "some" in t:
        return cbor_tree(t["some"])
    if "uv" in t:
        b = bytes.fromhex(t["uv"])
        return cb_head(3, len(b)) + b
    if "v" in t:
        b = bytes.fromhex(t["v"][0])
        return b"\xa1" + cb_head(3, len(b)) + b + cbor_tree(t["v"][1])
    if "seq" in t or "tup" in t:
        items = t.get("seq", t.get("tup"))
        return cb_head(4, len(items)) + b"".join(cbor_tree(x) for x in items)
    if "map" in t:
        return cb_head(5, len(t["map"]) // 2) + b"".join(cbor_tree(x) for x in t["map"])
    raise ValueError(t)


def header_spec(b0, b1, b2):
    """tag denoted by a 3-byte window as rmp-serde reads a one-field struct of u32, or None"""
    if b0 == 0x91:
        if b1 < 0x80:
            return b1
        if b1 in (0xcc, 0xd0) and b2 < 0x80:
            return b2
        if b1 == 0xcc:
            return b2
        return None
    if b0 == 0xc4 and b1 == 1:
        return b2
    if b0 == 0x81 and b1 == 0 and b2 < 0x80:
        return b2
    return None


def from_record_spec(bs):
    if len(bs) < 3:
        return None
    t = header_spec(bs[0], bs[1], bs[2])
    return BY_TAG.get(t) if t is not None else None


def payload(spec):
    if "gen" in spec:
        n, seed = spec["gen"]
        m, a = seed | 1, seed >> 3
        return bytes(((i * m + a) & 0xFFFFFFFFFFFFFFFF) % 251 for i in range(n))
    return bytes.fromhex(spec)


# ------------------------------------------------------------------------------------------------
# generator
# ------------------------------------------------------------------------------------------------
EDGE = [0, 1, 127, 128, 255, 256, 65535, 65536, 2 ** 32 - 1, 2 ** 32, 2 ** 64 - 1]


def rnd_u64(rng):
    return rng.choice(EDGE) if rng.random() < 0.5 else rng.getrandbits(rng.choice([7, 8, 16, 32, 64]))


def rnd_hex(rng, n):
    return bytes(rng.randrange(256) for _ in range(n)).hex()


def rnd_data(rng, big=False):
    sizes = [0, 1, 2, 31, 32, 100, 255, 256, 300, 1000]
    if big:
        sizes += [65535, 65536]
    n = rng.choice(sizes)
    if n > 2000:
        return {"gen": [n, rng.getrandbits(20)]}
    return rnd_hex(rng, n)


def rnd_proof(rng):
    qs = []
    for _ in range(rng.choice([0, 1, 1, 2, 3, 5])):
        qs.append({"e": rnd_hex(rng, rng.choice([0, 2, 38])), "content": rnd_hex(rng, 32),
                   "ts": {"s": rng.choice([0, 1700000000, 2 ** 32, rng.getrandbits(34)]), "n": rng.choice([0, 999999999, rng.randrange(10 ** 9)])},
                   "m": {"crs": rnd_u64(rng), "mr": rnd_u64(rng), "rpc": rnd_u64(rng), "lt": rnd_u64(rng),
                         "nd": None if rng.random() < 0.4 else rnd_hex(rng, 32), "ns": None if rng.random() < 0.4 else rnd_u64(rng)},
                   "addr": rnd_hex(rng, 20), "pk": rnd_hex(rng, rng.choice([0, 36, 40])), "sig": rnd_hex(rng, rng.choice([0, 64, 70]))})
    return qs


def rnd_value(rng, kind, quick):
    base = kind.replace("WithPayment", "")
    if base == "Chunk":
        return {"data": rnd_data(rng, big=True)}
    if base == "Scratchpad":
        if rng.random() < 0.25:     # built with the public API only (no serde on the way in)
            return {"owner": rng.randrange(8), "enc": rnd_u64(rng), "data": rnd_hex(rng, rng.choice([0, 5, 200])),
                    "counter": rng.choice([0, 1, 2, 9]), "sig": "valid", "native": True}
        return {"owner": rng.randrange(8), "enc": rnd_u64(rng), "data": rnd_data(rng), "counter": rnd_u64(rng),
                "sig": rng.choice(["none", "valid", "other"])}
    if base == "Transaction":
        def tx():
            return {"owner": rng.randrange(8), "parents": [rng.randrange(8) for _ in range(rng.randrange(4))],
                    "content": rnd_hex(rng, 32), "outputs": [[rng.randrange(8), rnd_hex(rng, 32)] for _ in range(rng.randrange(4))],
                    "sig": rng.choice(["valid", "valid", "other"])}
        if kind == "Transaction":
            return [tx() for _ in range(rng.choice([0, 1, 1, 2, 4]))]
        return tx()
    nops = rng.choice([0, 1, 2, 3, 8] if quick else [0, 1, 2, 5, 16, 17, 40, 64])
    return {"owner": rng.randrange(8), "anyone": rng.random() < 0.4, "writers": [rng.randrange(8) for _ in range(rng.randrange(4))],
            "meta": rnd_hex(rng, 32),
            "entries": [[rng.randrange(8), rnd_hex(rng, rng.choice([0, 1, 20, 200])), rng.random() < 0.6] for _ in range(nops)]}


def gen_encseq(ctx):
    """sequences of encodings on one thread, failing ones included: encoding must be a function of the value alone"""
    rng, quick = ctx.rng, ctx.tier == "quick"
    cases = []
    for _ in range(40 if quick else 600):
        steps = []
        for j in range(rng.choice([2, 3, 4, 6])):
            kind = rng.choice(KINDS)
            v = rnd_value(rng, kind, True)
            if isinstance(v, dict) and v.get("native"):
                v = {"owner": 1, "enc": 3, "data": rnd_hex(rng, 20), "counter": 9, "sig": "valid"}   # deterministic bytes only
            if isinstance(v, dict) and isinstance(v.get("data"), dict):
                v["data"] = rnd_hex(rng, 40)
            st = {"kind": kind, "v": v}
            if kind.endswith("WithPayment"):
                proof = rnd_proof(rng)
                if rng.random() < 0.5:
                    # a quote dated before the unix epoch cannot be serialised: the encoding fails part-way,
                    # after the header and whatever precedes that quote have been written
                    while not proof:
                        proof = rnd_proof(rng)
                    proof[rng.randrange(len(proof))]["ts"] = {"before_epoch": rng.choice([1, 3600, 10 ** 9])}
                    st["fails"] = True
                st["proof"] = proof
            steps.append(st)
        if not any(st.get("fails") for st in steps[:-1]):
            # make sure a failure is followed by something
            k = rng.choice(["ChunkWithPayment", "ScratchpadWithPayment", "TransactionWithPayment", "RegisterWithPayment"])
            proof = rnd_proof(rng)
            while not proof:
                proof = rnd_proof(rng)
            proof[-1]["ts"] = {"before_epoch": 5}
            steps.insert(rng.randrange(len(steps)), {"kind": k, "v": rnd_value(rng, k, True) if not k.startswith("Chunk") else {"data": rnd_hex(rng, 33)},
                                                      "proof": proof, "fails": True})
            for st in steps:
                v = st["v"]
                if isinstance(v, dict) and v.get("native"):
                    st["v"] = {"owner": 1, "enc": 3, "data": rnd_hex(rng, 20), "counter": 9, "sig": "valid"}
                if isinstance(v, dict) and isinstance(v.get("data"), dict):
                    v["data"] = rnd_hex(rng, 40)
        cases.append({"op": "encseq", "steps": steps})
    return cases


def gen_records(ctx):
    rng, quick = ctx.rng, ctx.tier == "quick"
    cases = [{"op": "headers"}, {"op": "sweep"}]
    n = 10 if quick else 150
    for kind in KINDS:
        for _ in range(n):
            c = {"op": "record", "kind": kind, "v": rnd_value(rng, kind, quick)}
            if kind.endswith("WithPayment"):
                c["proof"] = rnd_proof(rng)
            cases.append(c)
    # payload-size boundaries of bin8 / bin16 / bin32 for chunks, and one 4 MiB chunk
    for size in [0, 1, 255, 256, 65535, 65536]:
        cases.append({"op": "record", "kind": "Chunk", "v": {"data": {"gen": [size, 77 + size]}}})
    # the one case above BIG that is also evaluated in Coq (the bin32 boundary), in a shard of its own
    cases[-1]["model_big"] = True
    cases.append({"op": "record", "kind": "Chunk", "v": {"data": {"gen": [4 * 1024 * 1024, 12345]}}})
    cases.append({"op": "record", "kind": "ChunkWithPayment", "v": {"data": {"gen": [70000, 5]}}, "proof": rnd_proof(rng)})
    return cases


def rnd_addr(rng):
    t = rng.choice(["peer", "chunk", "tx", "reg", "pad", "key"])
    a = {"t": t}
    if t in ("peer", "reg", "pad"):
        a["i"] = rng.randrange(8)
    if t in ("chunk", "tx", "reg"):
        a["x"] = rnd_hex(rng, 32)
    if t == "key":
        a["x"] = rnd_hex(rng, rng.choice([0, 1, 32, 40]))
    return a


def rnd_rtype(rng):
    t = rng.choice(["chunk", "pad", "non"])
    return {"t": t, "x": rnd_hex(rng, 32)} if t == "non" else {"t": t}


ERRORS = ["UserDataDirectoryNotObtainable", "CouldNotObtainPortFromMultiAddr", "ParseRetryStrategyError",
          "CouldNotObtainDataDir", "ChunkDoesNotExist", "RegisterNotFound", "RegisterAlreadyClaimed",
          "RegisterRecordNotFound", "ScratchpadHexDeserializeFailed", "ScratchpadCipherTextFailed",
          "ScratchpadCipherTextInvalid", "GetStoreQuoteFailed", "QuoteGenerationFailed", "ReplicatedRecordNotFound",
          "RecordHeaderParsingFailed", "RecordParsingFailed", "RecordExists"]     # all 17 variants of error.rs


def rnd_err(rng, which=None):
    return {"e": which or rng.choice(ERRORS), "a": rnd_addr(rng), "b": rnd_addr(rng), "x": rnd_hex(rng, 32),
            "i": rng.randrange(8), "k": rnd_hex(rng, rng.choice([0, 1, 23, 24, 32, 32, 40, 300]))}


def rnd_res(rng, ok):
    return rnd_err(rng) if rng.random() < 0.4 else ok()


def rnd_proofs(rng):
    return [[rnd_addr(rng), rnd_res(rng, lambda: {"data": rnd_hex(rng, rng.choice([0, 10, 300])), "nonce": rnd_u64(rng)})]
            for _ in range(rng.choice([0, 1, 2, 5]))]


def rnd_text(rng):
    return rng.choice(["", "bad quoting", "x" * 31, "y" * 32, "z" * 300, "caf\u00e9 \u2603 \U0001f600"]).encode("utf-8").hex()


def rnd_request(rng, m):
    if m == "Replicate":
        return {"m": m, "holder": rnd_addr(rng), "keys": [[rnd_addr(rng), rnd_rtype(rng)] for _ in range(rng.choice([0, 1, 3, 15, 16, 40]))]}
    if m == "PeerConsideredAsBad":
        return {"m": m, "a": rnd_addr(rng), "b": rnd_addr(rng), "text": rnd_text(rng)}
    if m == "GetStoreQuote":
        return {"m": m, "a": rnd_addr(rng), "nonce": None if rng.random() < 0.4 else rnd_u64(rng), "n": rnd_u64(rng)}
    if m in ("GetReplicatedRecord", "GetRegisterRecord"):
        return {"m": m, "a": rnd_addr(rng), "b": rnd_addr(rng)}
    if m == "GetChunkExistenceProof":
        return {"m": m, "a": rnd_addr(rng), "nonce": rnd_u64(rng), "n": rnd_u64(rng)}
    if m == "CheckNodeInProblem":
        return {"m": m, "a": rnd_addr(rng)}
    return {"m": "GetClosestPeers", "a": rnd_addr(rng), "n": None if rng.random() < 0.4 else rnd_u64(rng),
            "range": None if rng.random() < 0.4 else rnd_hex(rng, 32), "sign": rng.random() < 0.5}


REQUESTS = ["Replicate", "PeerConsideredAsBad", "GetStoreQuote", "GetReplicatedRecord", "GetRegisterRecord",
            "GetChunkExistenceProof", "CheckNodeInProblem", "GetClosestPeers"]
RESPONSES = ["Replicate", "PeerConsideredAsBad", "GetStoreQuote", "CheckNodeInProblem", "GetReplicatedRecord",
             "GetRegisterRecord", "GetChunkExistenceProof", "GetClosestPeers"]
MADDRS = ["/ip4/127.0.0.1/udp/1234/quic-v1", "/ip4/10.0.0.1/tcp/80", "/ip6/::1/udp/9/quic-v1", "/dns4/example.org/tcp/443/ws"]


def rnd_response(rng, m):
    if m in ("Replicate", "PeerConsideredAsBad"):
        return {"m": m, "r": rnd_res(rng, lambda: {})}
    if m == "GetStoreQuote":
        q = rnd_proof(rng)
        while not q:
            q = rnd_proof(rng)
        return {"m": m, "r": rnd_res(rng, lambda: {"q": q[0]}), "a": rnd_addr(rng), "proofs": rnd_proofs(rng)}
    if m == "CheckNodeInProblem":
        return {"m": m, "a": rnd_addr(rng), "b": rnd_addr(rng), "flag": rng.random() < 0.5}
    if m in ("GetReplicatedRecord", "GetRegisterRecord"):
        return {"m": m, "r": rnd_res(rng, lambda: {"a": rnd_addr(rng), "data": rnd_data(rng)})}
    if m == "GetChunkExistenceProof":
        return {"m": m, "proofs": rnd_proofs(rng)}
    return {"m": "GetClosestPeers", "a": rnd_addr(rng),
            "peers": [[rnd_addr(rng), [rng.choice(MADDRS) for _ in range(rng.randrange(3))]] for _ in range(rng.choice([0, 1, 5, 20]))],
            "sig": None if rng.random() < 0.5 else rnd_hex(rng, rng.choice([0, 64]))}


def error_carriers(rng, err):
    """one response per place of the Response type that can hold a protocol Error, holding `err`"""
    q = rnd_proof(rng)
    while not q:
        q = rnd_proof(rng)
    proofs_err = [[rnd_addr(rng), {"data": "00", "nonce": 1}], [rnd_addr(rng), err]]
    return [{"m": "Replicate", "r": err}, {"m": "PeerConsideredAsBad", "r": err},
            {"m": "GetStoreQuote", "r": err, "a": rnd_addr(rng), "proofs": []},
            {"m": "GetStoreQuote", "r": {"q": q[0]}, "a": rnd_addr(rng), "proofs": proofs_err},
            {"m": "GetReplicatedRecord", "r": err}, {"m": "GetRegisterRecord", "r": err},
            {"m": "GetChunkExistenceProof", "proofs": proofs_err}]


def boundary_texts(quick):
    """free text of lengths around every length-prefix boundary, pure ASCII and with a 2-, 3- and 4-byte
    character straddling each byte offset near those boundaries (so that any cut at that offset falls
    inside a character)"""
    out = []
    lens = [0, 1, 23, 24, 255, 256, 257, 1000] + ([] if quick else [31, 32, 65535, 65536])
    for n in lens:
        out.append(("ascii:%d" % n, b"r" * n))
    bounds = [24, 256] + ([] if quick else [32, 255, 257, 1024, 65536])
    for b in bounds:
        for ch in ("\u00e9", "\u20ac", "\U0001f600"):
            e = ch.encode("utf-8")
            for back in range(1, len(e)):
                # the character starts `back` bytes before offset b
                head = b"a" * (b - back)
                for tail in (0, 1, 50):
                    out.append(("straddle:%d:%dB@-%d+%d" % (b, len(e), back, tail), head + e + b"z" * tail))
    out.append(("ascii:70000", b"q" * 70000))
    if not quick:
        out.append(("multibyte:70000", ("\u20ac" * 23334).encode("utf-8")[:69999] + b"!"))
    return out


def gen_long_fields(ctx):
    """long / boundary-length free text and byte strings in every message variant that carries one"""
    rng, quick = ctx.rng, ctx.tier == "quick"
    cases = []
    for tag, t in boundary_texts(quick):
        cases.append({"op": "msg", "ty": "request", "family": "text:" + tag,
                      "v": {"m": "PeerConsideredAsBad", "a": rnd_addr(rng), "b": rnd_addr(rng), "text": t.hex()}})
    sizes = [0, 1, 23, 24, 255, 256, 257, 1000, 65535, 65536] + ([] if quick else [70000, 300000])
    for n in sizes:
        blob = {"gen": [n, 7 + n]} if n > 2000 else rnd_hex(rng, n)
        key = bytes((i * 31 + n) % 251 for i in range(n)).hex()
        fam = "bytes:%d" % n
        batch = [
            {"op": "msg", "ty": "request", "family": fam, "v": {"m": "GetReplicatedRecord", "a": {"t": "key", "x": key}, "b": rnd_addr(rng)}},
            {"op": "msg", "ty": "request", "family": fam, "v": {"m": "Replicate", "holder": {"t": "key", "x": key}, "keys": [[{"t": "key", "x": key}, {"t": "chunk"}]]}},
            {"op": "msg", "ty": "response", "family": fam, "v": {"m": "GetReplicatedRecord", "r": {"a": rnd_addr(rng), "data": blob}}},
            {"op": "msg", "ty": "response", "family": fam, "v": {"m": "GetRegisterRecord", "r": {"a": {"t": "key", "x": key}, "data": blob}}},
            {"op": "msg", "ty": "response", "family": fam, "v": {"m": "Replicate", "r": dict(rnd_err(rng, "RecordExists"), k=key)}},
            {"op": "msg", "ty": "response", "family": fam, "v": {"m": "GetClosestPeers", "a": rnd_addr(rng), "peers": [], "sig": key}},
        ]
        # Vec<u8> carriers (one tree node per byte) stay below 64 KiB in the quick tier
        if quick and n >= 65535:
            cases += [batch[2]] if n == 65536 else []      # one 4-byte-length case; the rest in thorough
        else:
            cases += batch
    return cases


def gen_messages(ctx):
    rng = ctx.rng
    n = 4 if ctx.tier == "quick" else 60
    cases = gen_long_fields(ctx)
    rng.shuffle(cases)
    # every Error variant (with its payload) in every position of a Response that can carry an Error
    for rep in range(1 if ctx.tier == "quick" else 6):
        for e in ERRORS:
            for v in error_carriers(rng, rnd_err(rng, e)):
                cases.append({"op": "msg", "ty": "response", "family": "error:" + e, "v": v})
    for m in REQUESTS:
        cases += [{"op": "msg", "ty": "request", "v": rnd_request(rng, m)} for _ in range(n)]
    for m in RESPONSES:
        cases += [{"op": "msg", "ty": "response", "v": rnd_response(rng, m)} for _ in range(n)]
    return cases


def gen_malformed_messages(ctx):
    rng, quick = ctx.rng, ctx.tier == "quick"
    out = [{"op": "msg_decode", "family": "short", "bytes": b.hex()} for b in
           [b"", b"\xa1", b"\xa0", b"\x80", b"\xf6", b"\xa1\x63Cmd", b"\xa1\x63Cmd\xa1", b"\xbf\xff", b"\x9f\xff", b"\xa1\x65Query\xf6",
            b"\xff", b"\x1b\xff\xff\xff\xff\xff\xff\xff\xff", b"\x5b\xff\xff\xff\xff\xff\xff\xff\xff", b"\x9b\xff\xff\xff\xff\xff\xff\xff\xff",
            b"\xbb\xff\xff\xff\xff\xff\xff\xff\xff", b"\x7b\xff\xff\xff\xff\xff\xff\xff\xff", b"\xc0\x00", b"\xd8\x18\x40"]]
    pool = [o["cbor"] for c, o in SEEN if c.get("op") == "msg" and o and o.get("cbor")]
    rng.shuffle(pool)
    for h in pool[:12 if quick else 80]:
        b = bytes.fromhex(h)
        for k in (range(len(b)) if len(b) < 120 else sorted(rng.sample(range(len(b)), 40))):
            out.append({"op": "msg_decode", "family": "truncate", "bytes": b[:k].hex()})
        for _ in range(15 if quick else 60):
            m = bytearray(b)
            m[rng.randrange(len(m))] ^= 1 << rng.randrange(8)
            out.append({"op": "msg_decode", "family": "bitflip", "bytes": bytes(m).hex()})
        out.append({"op": "msg_decode", "family": "trailing", "bytes": (b + b"\x00").hex()})
    return out


def mp_bin(b):
    return mp_len(len(b), 0, 0, 0xc4, 0xc5, 0xc6) + b


def mp_arr(items):
    return mp_len(len(items), 0x90, 16, None, 0xdc, 0xdd) + b"".join(items)


def mp_map(pairs):
    return mp_len(len(pairs), 0x80, 16, None, 0xde, 0xdf) + b"".join(k + v for k, v in pairs)


def gen_structured_chunks(ctx):
    """Adversarial *structured* bodies behind a Chunk / ChunkWithPayment header: every plausible way of
    spelling a chunk that carries its own address (the one field the decoder must derive, never read).
    The oracle only asks: whenever the real decoder says Ok(chunk), chunk.address() is the content hash of
    chunk.value()."""
    rng, quick = ctx.rng, ctx.tier == "quick"
    out = []
    datas = [b"abc", bytes(rng.randrange(256) for _ in range(40))] + ([] if quick else [b""] +
             [bytes(rng.randrange(256) for _ in range(n)) for n in (1, 31, 32, 300)])
    for data in datas:
        true_h = hashlib.sha3_256(data).digest()
        other_h = hashlib.sha3_256(data + b"!").digest()
        junk = bytes(rng.randrange(256) for _ in range(32))
        values = {"bin": mp_bin(data), "str": mp_str(data), "ints": mp_arr([mp_uint(x) for x in data])}
        bodies = []
        for aname, h in (("true", true_h), ("other", other_h), ("junk", junk)):
            addrs = {"hex": mp_str(h.hex().encode()), "HEX": mp_str(h.hex().upper().encode()), "bin": mp_bin(h),
                     "ints": mp_arr([mp_uint(x) for x in h]), "str-raw": mp_str(h), "0xhex": mp_str(b"0x" + h.hex().encode()),
                     "newtype": mp_arr([mp_arr([mp_uint(x) for x in h])]), "short": mp_str(h.hex()[:62].encode()),
                     "map-xor": mp_map([(mp_str(b"0"), mp_str(h.hex().encode()))])}
            for an, a in addrs.items():
                for vn, v in values.items():
                    if quick and vn != "bin" and an not in ("hex", "bin", "ints"):
                        continue
                    tagname = "%s/%s/%s" % (aname, an, vn)
                    ka, kv = mp_str(b"address"), mp_str(b"value")
                    bodies += [("map-av:" + tagname, mp_map([(ka, a), (kv, v)])),
                               ("map-va:" + tagname, mp_map([(kv, v), (ka, a)])),
                               ("arr-av:" + tagname, mp_arr([a, v])),
                               ("arr-va:" + tagname, mp_arr([v, a]))]
                    if vn == "bin":
                        bodies += [("map-idx:" + tagname, mp_map([(mp_uint(0), a), (mp_uint(1), v)])),
                                   ("map-extra:" + tagname, mp_map([(ka, a), (kv, v), (mp_str(b"x"), b"\xc0")])),
                                   ("arr-extra:" + tagname, mp_arr([a, v, b"\xc0"])),
                                   ("nested:" + tagname, mp_arr([mp_arr([a]), mp_arr([v])])),
                                   ("variant:" + tagname, mp_map([(mp_str(b"Chunk"), mp_map([(ka, a), (kv, v)]))])),
                                   ("variant-full:" + tagname, mp_map([(mp_str(b"Full"), mp_map([(ka, a), (kv, v)]))])),
                                   ("map-name:" + tagname, mp_map([(mp_str(b"name"), a), (kv, v)])),
                                   ("only-address:" + tagname, mp_map([(ka, a)])),
                                   ("dup-value:" + tagname, mp_map([(ka, a), (kv, v), (kv, mp_bin(b"zz"))]))]
        for vn, v in values.items():
            bodies += [("only-value:" + vn, mp_map([(mp_str(b"value"), v)])), ("arr1:" + vn, mp_arr([v])),
                       ("some:" + vn, v), ("map-idx-value:" + vn, mp_map([(mp_uint(0), v)]))]
        proof = mp_arr([mp_arr([])])       # ProofOfPayment { peer_quotes: [] }
        for fam, body in bodies:
            out.append({"op": "decode", "family": "forged-chunk:" + fam, "as": "Chunk", "bytes": (b"\x91\x01" + body).hex()})
            if not quick or fam.split(":")[0] in ("map-av", "arr-av", "some"):
                out.append({"op": "decode", "family": "forged-chunk-paid:" + fam, "as": "ChunkWithPayment",
                            "bytes": (b"\x91\x00" + mp_arr([proof, body])).hex()})
    return out


def gen_malformed(ctx):
    rng, quick = ctx.rng, ctx.tier == "quick"
    out = []

    def add(fam, kind, b):
        out.append({"op": "decode", "family": fam, "as": kind, "bytes": bytes(b).hex()})

    for b in [b"", b"\x91", b"\x91\x01", b"\x00\x00", b"\xc4\x01", b"\x91\x01\xc0", b"\x91\x08\xc0", b"\x91\xff\x00",
              b"\x92\x01\x01", b"\x90\x00\x00", b"\x91\xcd\x00\x01\xc4\x00", b"\x91\xce\x00\x00\x00\x01\xc4\x00",
              b"\x91\xcf\x00\x00\x00\x00\x00\x00\x00\x01\xc4\x00", b"\x91\xd1\x00\x01\xc4\x00", b"\x91\xca\x3f\x80\x00\x00",
              b"\x91\xc3\x00", b"\x91\xc0\x00", b"\x91\xa1\x31", b"\xdc\x00\x01\x01", b"\x81\x01\x01", b"\x81\xa0\x01",
              b"\x82\x00\x01", b"\xc4\x02\x01", b"\xc4\x00\x01", b"\xc5\x00\x01\x01", b"\x91\xe0\x00", b"\x91\x7f\x00"]:
        add("short", "Chunk", b)
    # non-canonical but accepted header forms in front of a valid chunk body, and what the typed layer
    # (which skips exactly SIZE = 2 bytes) then sees
    body = b"\xc4\x03abc"
    for h in [b"\x91\xcc\x01", b"\x91\xd0\x01", b"\xc4\x01\x01", b"\x81\x00\x01", b"\x91\x01", b"\x91\x00", b"\x91\x07"]:
        add("header-forms", "Chunk", h + body)
    # every way `Bytes` can be spelled for a chunk
    for enc in [b"\xc4\x03abc", b"\xc5\x00\x03abc", b"\xc6\x00\x00\x00\x03abc", b"\xa3abc", b"\xd9\x03abc", b"\xda\x00\x03abc",
                b"\xa2\xff\xfe", b"\x93\x01\x02\x03", b"\x93\xcc\xff\xd0\x05\x00", b"\x92\x01\xcd\x01\x00", b"\x92\x01\xff",
                b"\x91\xc3", b"\x90", b"\xdc\x00\x02\x01\x02", b"\xc0", b"\x05", b"\xc4\x05abc", b"\xc4", b"\x80", b"\xd4\x01\x02",
                b"\xc4\x03abcTRAILING"]:
        add("chunk-forms", "Chunk", b"\x91\x01" + enc)
    # derived from real encodings
    pool = [(c, o) for c, o in SEEN if c.get("op") == "record" and o and o.get("bytes")]
    rng.shuffle(pool)
    per_kind = {}
    for c, o in pool:
        per_kind.setdefault(c["kind"], []).append((c, o))
    take = 2 if quick else 6
    for kind in KINDS:
        for c, o in sorted(per_kind.get(kind, []), key=lambda co: co[1]["len"])[:take] + per_kind.get(kind, [])[:take]:
            b = bytes.fromhex(o["bytes"])
            if len(b) > 2500:
                continue
            offs = range(len(b)) if len(b) <= (100 if quick else 400) else sorted(rng.sample(range(len(b)), 30 if quick else 120))
            for k in offs:
                add("truncate", kind, b[:k])
            for _ in range(8 if quick else 60):
                i = rng.randrange(len(b))
                m = bytearray(b)
                m[i] ^= 1 << rng.randrange(8)
                add("bitflip", kind, m)
            for t in [8, 9, 0x7f, 0x80, 0xc0, 0xff] + [rng.randrange(8, 256) for _ in range(3)]:
                add("unknown-kind", kind, bytes([b[0], t]) + b[2:])
            for t in range(8):
                if t != b[1]:
                    add("other-kind", KINDS[0] if False else kind, bytes([b[0], t]) + b[2:])
            add("trailing", kind, b + bytes(rng.randrange(256) for _ in range(rng.choice([1, 7]))))
            add("noncanonical-tag", kind, b"\x91\xcc" + b[1:])
            add("noncanonical-tag", kind, b"\x91\xcd\x00" + b[1:])
    # the tag occupies a FIXED-SIZE prefix: every other spelling of a header (accepted by from_record or
    # merely valid msgpack for a RecordHeader) in front of a valid body, and valid header + shifted body;
    # whatever try_deserialize_record::<T> makes of it must be what T's decoder makes of value[2..]
    for kind in KINDS:
        k = PINNED[kind]
        for c, o in sorted(per_kind.get(kind, []), key=lambda co: co[1]["len"])[:2 if quick else 6]:
            b = bytes.fromhex(o["bytes"])
            if len(b) > 6000:
                continue
            body = b[2:]
            heads = [bytes([0x91, 0xcc, k]), bytes([0x91, 0xd0, k]), bytes([0xc4, 0x01, k]), bytes([0x81, 0x00, k]),
                     b"\x81\xa4kind" + bytes([k]), b"\x81\xa4kind\xcc" + bytes([k]), bytes([0x91, 0xcd, 0x00, k]),
                     bytes([0x91, 0xce, 0, 0, 0, k]), bytes([0x91, 0xcf, 0, 0, 0, 0, 0, 0, 0, k]), bytes([0x91, 0xd1, 0x00, k]),
                     bytes([0xdc, 0x00, 0x01, k]), bytes([0xdd, 0, 0, 0, 1, k]), bytes([0xde, 0x00, 0x01, 0x00, k]),
                     bytes([0x81, 0xc4, 0x04]) + b"kind" + bytes([k]), bytes([0x91]), bytes([k]), b"",
                     bytes([0x91, k, 0xc0]), bytes([0x91, k, k]), bytes([0x91, k, 0x91, k]), bytes([0x92, k, 0xc0])]
            for h in heads:
                add("prefix-size", kind, h + body)
            # a body that starts one byte late / early behind the canonical header
            add("prefix-size", kind, b[:2] + b"\xc0" + body)
            add("prefix-size", kind, b[:2] + body[1:])
            add("prefix-size", kind, b[:2] + body[:1] + body)
    # random windows for the header layer
    for _ in range(200 if quick else 5000):
        w = bytes([rng.choice([0x91, 0x91, 0x81, 0xc4, 0x92, 0x90, rng.randrange(256)]),
                   rng.choice([rng.randrange(8), 0xcc, 0xd0, 0xcd, 1, 0, rng.randrange(256)]), rng.randrange(256)])
        add("window", "Chunk", w + b"\xc4\x00")
    return out


# ------------------------------------------------------------------------------------------------
# oracle
# ------------------------------------------------------------------------------------------------
def oracle(c, o):
    v = []
    if "panic" in o:
        if o["panic"].startswith("LOSSY"):
            return [("roundtrip", o["panic"])]
        return [("panic", "%s panicked: %s" % (c["op"], o["panic"]))]
    if "error" in o:
        return [("harness", o["error"])]
    if c["op"] == "headers":
        for h in o["headers"]:
            want = bytes([0x91, PINNED[h["kind"]]]).hex()
            if h["bytes"] != want:
                v.append(("kind-tag", "header of %s is %s, the fixed wire form is %s" % (h["kind"], h["bytes"], want)))
            if len(h["bytes"]) != 4 or h["size_const"] != 2:
                v.append(("header-size", "header of %s takes %d bytes, RecordHeader::SIZE = %d" % (h["kind"], len(h["bytes"]) // 2, h["size_const"])))
            if h["back"] != h["kind"]:
                v.append(("header-roundtrip", "header of %s reads back as %s" % (h["kind"], h["back"])))
    elif c["op"] == "sweep":
        got = {x: k for x, k in o["accepted"]}
        for x, k in got.items():
            t = header_spec(x >> 16, (x >> 8) & 255, x & 255)
            if t is None:
                continue          # a window the msgpack reading does not explain: left to the model comparison
            if BY_TAG.get(t) != k:
                v.append(("kind-tag", "header bytes %06x (tag %d) decode to %s, fixed table says %s" % (x, t, k, BY_TAG.get(t))))
        for t in range(256):
            for b2 in (0, 0xc4, 0xff):
                x = (0x91 << 16) | (t << 8) | b2
                want = BY_TAG.get(t) if t < 0x80 else None
                if t < 0x80 and got.get(x) != want:
                    v.append(("kind-tag" if want else "unknown-kind-accepted",
                              "canonical header 91 %02x decodes to %s, expected %s" % (t, got.get(x), want)))
        if o["short_ok"]:
            v.append(("short-accepted", "%d values shorter than 3 bytes were given a header" % o["short_ok"]))
        for m in o.get("chunk_mismatch", [])[:3]:
            v.append(("is-chunk-disagrees", "is_record_of_type_chunk(%s) = %s but from_record says %s (None = error): the two "
                      "readers of the header must agree (error iff from_record errs, true iff the kind is Chunk)"
                      % (m["value"], m["is_chunk_says"], m["from_record_says"])))
    elif c["op"] == "record":
        kind = c["kind"]
        if not o["rt_ok"] or not o["rt_eq"]:
            v.append(("roundtrip", "%s value does not decode back to an equal value (decoded=%s equal=%s)" % (kind, o["rt_ok"], o["rt_eq"])))
        if o["header"] != kind:
            v.append(("roundtrip-kind", "record written as %s is read as %s" % (kind, o["header"])))
        if o["header_len"] != 2:
            v.append(("header-size", "header of %s takes %d bytes" % (kind, o["header_len"])))
        head = bytes.fromhex(o["bytes"][:4]) if o.get("bytes") else bytes.fromhex(o["head"][:4])
        if head != bytes([0x91, PINNED[kind]]):
            v.append(("kind-tag", "%s record starts with %s, fixed wire form 91%02x" % (kind, head.hex(), PINNED[kind])))
        if kind.startswith("Chunk"):
            data = payload(c["v"]["data"])
            if o.get("addr") != hashlib.sha3_256(data).hexdigest():
                v.append(("chunk-address", "decoded chunk address %s is not the content hash of its %d bytes" % (o.get("addr"), len(data))))
            if kind == "Chunk":
                want = b"\x91\x01" + (bytes([0xc4, len(data)]) if len(data) < 256 else
                                      b"\xc5" + len(data).to_bytes(2, "big") if len(data) < 65536 else
                                      b"\xc6" + len(data).to_bytes(4, "big")) + data
                if o.get("bytes"):
                    if bytes.fromhex(o["bytes"]) != want:
                        v.append(("chunk-wire", "chunk of %d bytes is not header ++ bin(value)" % len(data)))
                elif o["len"] != len(want) or o["head"] != want[:16].hex() or o["tail"] != want[-8:].hex():
                    v.append(("chunk-wire", "large chunk of %d bytes is not header ++ bin(value)" % len(data)))
        if o.get("tree") is not None and o.get("bytes"):
            if (bytes([0x91, PINNED[kind]]) + mp_tree(o["tree"])).hex() != o["bytes"]:
                v.append(("wire-format", "%s bytes differ from header ++ compact msgpack of the value's serde tree" % kind))
        if not o.get("tree_same") and o["rt_ok"]:
            v.append(("roundtrip", "%s decodes to a value with a different serde tree" % kind))
    elif c["op"] == "encseq":
        for i, (st, r) in enumerate(zip(c["steps"], o["steps"])):
            before = [j for j in range(i) if not o["steps"][j]["ok"]]
            if not r["fresh_same"]:
                v.append(("encode-history-dependent", "step %d: try_serialize_record of a %s value gives %s on this thread (after %d "
                          "earlier calls, failed ones at %s) but %s on a fresh thread: the encoding is not a function of the value"
                          % (i, st["kind"], (r["bytes"] or r["err"])[:40], i, before, (r.get("fresh_bytes") or "an error" if not r["fresh_ok"] else (r.get("fresh_bytes") or ""))[:40])))
            if r["ok"]:
                if bytes.fromhex(r["bytes"][:4]) != bytes([0x91, PINNED[st["kind"]]]):
                    v.append(("kind-tag", "step %d: %s record starts with %s, fixed wire form 91%02x (failed encodings before it: %s)"
                              % (i, st["kind"], r["bytes"][:4], PINNED[st["kind"]], before)))
                if r["header"] != st["kind"]:
                    v.append(("roundtrip-kind", "step %d: record written as %s is read as %s" % (i, st["kind"], r["header"])))
                if r.get("tree") is not None and (bytes([0x91, PINNED[st["kind"]]]) + mp_tree(r["tree"])).hex() != r["bytes"]:
                    v.append(("wire-format", "step %d: %s bytes differ from header ++ compact msgpack of the value's serde tree" % (i, st["kind"])))
    elif c["op"] == "msg":
        if not (o["cbor_ok"] and o["cbor_rt"]):
            v.append(("message-roundtrip", "%s %s%s does not survive the libp2p request_response::cbor codec "
                      "(decoded=%s, equal=%s, %s)" % (c["ty"], c["v"]["m"], " [%s]" % c["family"] if c.get("family") else "",
                                                      o["cbor_ok"], o["cbor_rt"], o.get("wire_err"))))
        if not (o["direct_same"] and o["direct_rt"]) and o["cbor_ok"] and o["cbor_rt"]:
            v.append(("message-roundtrip", "%s %s: cbor4ii::serde::{to_vec,from_slice} disagree with the codec "
                      "(same bytes=%s, round trip=%s)" % (c["ty"], c["v"]["m"], o["direct_same"], o["direct_rt"])))
        if not o["rmp_rt"]:
            v.append(("message-roundtrip", "%s %s does not survive rmp-serde (its serde impls are not inverse)" % (c["ty"], c["v"]["m"])))
        if o.get("cbor") and o.get("ntree") is not None and cbor_tree(o["ntree"]).hex() != o["cbor"]:
            v.append(("message-wire-format", "%s %s: the codec's bytes differ from the CBOR encoding (maps keyed by field name, "
                      "externally tagged enums) of the value's serde tree" % (c["ty"], c["v"]["m"])))
    elif c["op"] == "msg_decode":
        for ty in ("request", "response"):
            if o[ty + "_ok"] and o[ty + "_stable"] is False:
                v.append(("message-decode-unstable", "bytes decode as a %s that does not re-encode to an equal value" % ty))
            if c.get("family") == "truncate" and o[ty + "_ok"]:
                v.append(("truncated-accepted", "a strict prefix of a valid message decoded as a %s" % ty))
    elif c["op"] == "decode":
        b = bytes.fromhex(c["bytes"])
        want = from_record_spec(b)
        if o["header"] != want:
            fam = c.get("family")
            if want is None and len(b) >= 3 and b[0] == 0x91 and b[1] < 0x80:
                v.append(("unknown-kind-accepted", "value starting %s (kind %d) accepted as %s" % (b[:3].hex(), b[1], o["header"])))
            elif len(b) < 3 and o["header"] is not None:
                v.append(("short-accepted", "a %d-byte value was given header %s" % (len(b), o["header"])))
            elif want is not None and b[0] == 0x91 and b[1] < 8:
                v.append(("kind-tag", "canonical header %s read as %s instead of %s [%s]" % (b[:2].hex(), o["header"], want, fam)))
            # other differences are about lenient forms: left to the model comparison
        want_chunk = None if o["header"] is None else (o["header"] == "Chunk")
        if o["is_chunk"] != want_chunk:
            v.append(("is-chunk-disagrees", "is_record_of_type_chunk = %s but from_record gives %s on a %d-byte value starting %s [%s]"
                      % (o["is_chunk"], o["header"], len(b), b[:4].hex(), c.get("family"))))
        val = o.get("value")
        if val and val.get("ok") and "addr" in val:
            if val["addr"] != hashlib.sha3_256(bytes.fromhex(val["value"])).hexdigest():
                v.append(("chunk-address", "decoded chunk carries address %s which is not the content hash of its %d bytes "
                          "(the address was taken from the wire, not recomputed) [%s]"
                          % (val["addr"], len(val["value"]) // 2, c.get("family"))))
        if val and val.get("direct_same") is False:
            v.append(("prefix-size", "try_deserialize_record::<%s> %s a %d-byte value whose bytes after the 2-byte prefix %s "
                      "[%s, value starts %s]: the result does not depend on value[2..] alone, so the tag does not occupy a "
                      "fixed-size prefix" % (c["as"], "accepts" if val.get("ok") else "rejects", len(b),
                                             "decode on their own" if val.get("direct_ok") else "do not decode as that type",
                                             c.get("family"), b[:6].hex())))
        if c.get("family") == "truncate" and val and val.get("ok"):
            # a strict prefix of a valid encoding must not decode (only full values do)
            v.append(("truncated-accepted", "a %d-byte strict prefix of a valid %s record decoded successfully" % (len(b), c["as"])))
    return v


# ------------------------------------------------------------------------------------------------
# model agreement
# ------------------------------------------------------------------------------------------------
def all_u8(items):
    return len(items) > 3 and all("u" in x and x["u"][0] == 8 for x in items)


def c_tree(t):
    if "b" in t:
        return "(VBool %s)" % cbool(t["b"])
    if "u" in t:
        return "(VU W%d %s)" % (t["u"][0], cN(t["u"][1]))
    if "i" in t:
        return "(VI W%d %s)" % (t["i"][0], cZ(t["i"][1]))
    if "f32" in t:
        return "(VF32 %s)" % cN(t["f32"])
    if "f64" in t:
        return "(VF64 %s)" % cN(t["f64"])
    if "s" in t:
        return "(VStr %s)" % cbytes(t["s"])
    if "y" in t:
        return "(VBytes %s)" % cbytes(t["y"])
    if "n" in t:
        return "VNone"
    if "unit" in t:
        return "VUnit"
    if "some" in t:
        return "(VSome %s)" % c_tree(t["some"])
    if "uv" in t:
        return "(VUnitVariant %s)" % cbytes(t["uv"])
    if "v" in t:
        return "(VVariant %s %s)" % (cbytes(t["v"][0]), c_tree(t["v"][1]))
    for key, ctor in (("seq", "VSeq"), ("tup", "VTuple"), ("map", "VMap")):
        if key in t:
            items = t[key]
            if all_u8(items):
                return "(%s (vu8s %s))" % (ctor, cbytes(bytes(x["u"][1] for x in items)))
            return "(%s %s)" % (ctor, clist([c_tree(x) for x in items]))
    raise ValueError(t)


def c_kind(name):
    return "K" + name


BIG = 8192       # bytes: above this a case is not turned into Coq literals (a 70000-byte case costs coqc > 1 GB)


def case_size(c, o):
    if c["op"] == "record":
        return o.get("len", 0)
    if c["op"] == "msg":
        return max(o.get("cbor_len", 0), len(o.get("rmp") or "") // 2)
    if c["op"] in ("decode", "msg_decode"):
        return len(c.get("bytes", "")) // 2
    if c["op"] == "encseq":
        return sum(len(r.get("bytes") or "") // 2 for r in o["steps"])
    return 0


def model_term(c, o):
    if "panic" in o or "error" in o:
        return "false"
    if case_size(c, o) > BIG and not c.get("model_big"):
        return None       # judged by the model-independent oracle only
    if c["op"] == "headers":
        return " && ".join("agree_header %s %s %s" % (c_kind(h["kind"]), cbytes(h["bytes"]), copt(h["back"], c_kind))
                           for h in o["headers"])
    if c["op"] == "sweep":
        acc = sorted(o["accepted"])
        return "agree_sweep %s" % clist(["(%s, %s)" % (cN(x), c_kind(k)) for x, k in acc])
    if c["op"] == "record":
        if not o.get("bytes") or o.get("tree") is None:
            return None
        return "agree_record %s %s %s" % (c_kind(c["kind"]), c_tree(o["tree"]), cbytes(o["bytes"]))
    if c["op"] == "encseq":
        terms = ["agree_record %s %s %s" % (c_kind(st["kind"]), c_tree(r["tree"]), cbytes(r["bytes"]))
                 for st, r in zip(c["steps"], o["steps"]) if r["ok"] and r.get("tree") is not None]
        return " && ".join(terms) if terms else None
    if c["op"] == "msg":
        if o.get("tree") is None:
            return "false"
        t = c_tree(o["tree"])
        term = "wf %s && agree_encode %s %s" % (t, t, cbytes(o["rmp"]))
        if o.get("cbor") and o.get("ntree") is not None:
            term += " && agree_%s %s %s" % (c["ty"], c_tree(o["ntree"]), cbytes(o["cbor"]))
        return term
    if c["op"] == "msg_decode":
        return None
    if c["op"] == "decode":
        val = o.get("value") or {}
        td2 = "None" if o.get("td2") is None else "(Some %s)" % copt(o["td2"]["kind"], c_kind)
        hdr = "agree_header_fns %s %s %s %s" % (cbytes(c["bytes"]), copt(o["header"], c_kind), copt(o["is_chunk"], cbool), td2)
        if c["as"] == "Chunk":
            return "%s && agree_decode_chunk %s %s" % (
                hdr, cbytes(c["bytes"]),
                copt(val.get("value") if val.get("ok") else None, cbytes))
        tree = val.get("tree") if val.get("ok") else None
        if val.get("ok") and tree is None:
            return "agree_from_record %s %s" % (cbytes(c["bytes"]), copt(o["header"], c_kind))
        return "%s && agree_decode_record %s %s %s %s %s" % (
            hdr, cbool(c["as"] in EXACT_KINDS), c_kind(c["as"]), cbytes(c["bytes"]), copt(o["header"], c_kind), copt(tree, c_tree))
    return "false"


def show(c, o):
    if c["op"] == "decode":
        return "(from_record %s, decode_chunk (fun _ => nil) %s)" % (cbytes(c["bytes"]), cbytes(c["bytes"]))
    if c["op"] == "record" and o.get("bytes"):
        return "(V.lib.Strs.tohex (encode_record %s %s), has_shape (shape_of_kind %s) %s)" % (
            c_kind(c["kind"]), c_tree(o["tree"]), c_kind(c["kind"]), c_tree(o["tree"]))
    return "true"


def nontrivial(c, o):
    if "panic" in o:
        return (c["op"], "panic")
    if c["op"] == "record":
        return (c["op"], c["kind"], o["rt_eq"], min(o["len"].bit_length(), 18))
    if c["op"] == "decode":
        val = o.get("value") or {}
        return (c["op"], c.get("family"), c["as"], o["header"], bool(val.get("ok")))
    if c["op"] == "encseq":
        return (c["op"], tuple((st["kind"], r["ok"]) for st, r in zip(c["steps"], o["steps"])))
    if c["op"] == "msg":
        return (c["op"], c["ty"], c["v"]["m"], c.get("family") or ("e" in (c["v"].get("r") or {})), min(o["cbor_len"].bit_length(), 14))
    if c["op"] == "msg_decode":
        return (c["op"], c.get("family"), o["request_ok"], o["response_ok"])
    return (c["op"],)


KEY_LENS = [0, 1, 2, 3, 5, 31, 32, 33, 64]


def with_keys(cases):
    """record keys are arbitrary byte strings chosen by the remote peer: the decode cases cycle through key lengths"""
    n = 0
    for c in cases:
        if c.get("op") == "decode" and "key" not in c:
            k = KEY_LENS[n % len(KEY_LENS)]
            c["key"] = bytes((0xab + i) & 0xff for i in range(k)).hex()
            n += 1
    return cases


def tracking_oracle(c, o):
    if c.get("op") in ("record", "msg") and not any(c is c0 for c0, _ in SEEN):
        SEEN.append((c, o))
    return oracle(c, o)


def robust_pipeline(ctx, target, cases, *args, **kw):
    """ctx.pipeline, repeated (after rebuilding this property's cone) when another check rebuilt
    gen/Consts.vo between our proof build and our case evaluation (coqc then reports
    'inconsistent assumptions over library V.gen.Consts'; the shared driver has no guard for that)"""
    import copy as _copy
    for attempt in range(3):
        snap = (len(ctx.tie_breaks), len(ctx.impl_viol), _copy.deepcopy(ctx.cov), set(ctx._nontrivial))
        ctx.pipeline(cases, *args, **kw)
        new = ctx.tie_breaks[snap[0]:]
        if attempt < 2 and any(k == "model-eval" and "inconsistent assumptions" in str(d) for k, _n, d in new):
            del ctx.tie_breaks[snap[0]:]
            del ctx.impl_viol[snap[1]:]
            ctx.cov = snap[2]
            ctx._nontrivial = snap[3]
            ctx.log("gen/Consts.vo was rebuilt by another check meanwhile: rebuilding %s and repeating the run" % target)
            ctx.coq_make([target])
            continue
        return


def run(ctx):
    ctx.regen_consts()
    ctx.prove("props/C12.v", THEOREMS, extra_trusted=[
        "models coq/lib/Msgpack.v (rmp-serde compact encoding, typed decoder) and coq/model/Header.v (header.rs, chunks.rs, "
        "shapes of the stored types), hand-written, tied to the code by this run's correspondence",
        "translator tools/extract_consts.py (tools/consts.d/codec.py): RecordKind <-> u32 tables of the Serialize and "
        "Deserialize impls, RecordKind's variant list, RecordHeader::SIZE re-read from header.rs",
        "model coq/lib/Cbor.v (cbor4ii's serde serializer, typed decoder) and coq/model/Messages.v (shapes of Request / Response "
        "and the types they contain), tied by byte-for-byte comparison with cbor4ii::serde::to_vec on every generated message; "
        "variant / field name tables re-read from messages*.rs, lib.rs, error.rs, header.rs, address.rs, data_payments.rs, "
        "quoting_metrics.rs",
        "harness/crates/c12 (tree-recording serde::Serializer, value builders), tools/props/C12.py (generator, oracle with "
        "independent msgpack and CBOR encoders and SHA3-256, canonicaliser)"])
    binary = ctx.cargo_build("c12")
    rel = ("try_serialize_record / try_deserialize_record / RecordHeader::{try_serialize,try_deserialize,from_record} / "
           "Chunk::{serialize,deserialize} == Header.{encode_record,decode_record,header,header_try_deserialize,from_record,"
           "decode_chunk} over Msgpack.{mp_encode,mp_decode_as}; cbor4ii::serde::{to_vec,from_slice} on Request/Response == "
           "Cbor.{cbor_encode,cbor_decode_as} at Messages.{c_request,c_response}")
    if ctx.replay:
        robust_pipeline(ctx, "props/C12.v", ctx.corpus(), binary, oracle, model_term, IMPORTS, nontrivial=nontrivial, show=show,
                        relation=rel, shard_size=60)
        return
    first = ctx.corpus() + gen_records(ctx) + gen_encseq(ctx) + gen_messages(ctx)
    robust_pipeline(ctx, "props/C12.v", [c for c in first if c.get("model_big")], binary, tracking_oracle, model_term,
                    IMPORTS, nontrivial=nontrivial, show=show, relation=rel, shard_size=1)
    robust_pipeline(ctx, "props/C12.v", [c for c in first if not c.get("model_big")], binary, tracking_oracle, model_term,
                    IMPORTS, nontrivial=nontrivial, show=show, relation=rel, shard_size=10)
    robust_pipeline(ctx, "props/C12.v", with_keys(gen_malformed(ctx) + gen_structured_chunks(ctx)) + gen_malformed_messages(ctx), binary,
                    oracle, model_term, IMPORTS,
                    nontrivial=nontrivial, show=show, relation=rel, shard_size=40)
