"""C04 -- every accepted record's address is derived from its own content or owner
(ant-node/src/put_validation.rs, ant-protocol chunks/address mapping, ant-networking RecordStore::put)."""
import copy
from vpc.core import cN, copt
from props import putval as pv

IMPORTS = pv.IMPORTS + "\nRequire Import V.model.PutStore."
THEOREMS = ["stored_key_is_derived", "stored_under_record_key", "history_keys_derived", "mismatch_rejected",
            "unverified_never_readable", "oversized_refused", "unparsable_refused", "put_forwards_only",
            "source_constants_c04"]
RULE = ("path table: 4 record kinds (chunk, scratchpad, transaction(s), register) x 3 node-side entry points (paid "
        "client upload, unpaid update, replicated copy) x record key in {derived key, key of another object of the same "
        "kind, key of an object of another kind, key of a held record, opaque key} x prior content in {none, same "
        "address held, presented key held, a record of another kind whose preimage coincides (chunk of the owner's "
        "public-key bytes / of meta++owner)}; RecordStore::put of the real NodeRecordStore with every header tag, "
        "lengths on both sides of max_value_bytes, unparseable headers, and index entries Chunk / Scratchpad / "
        "NonChunk(same hash) / NonChunk(other hash); plus random multi-delivery histories. Exhaustive over the "
        "table. A case is non-trivial/distinct by (entry point, header kind, body kind, key relation, held?, outcome).")
ASSUMPTIONS = [
    "XorName::from_content (SHA3-256) and the typed address -> record key mapping are modelled as the injective "
    "constructor NHash over the hashed byte string; the harness compares real keys byte for byte",
    "msgpack decoding of a value as a different record type fails (validated on every generated combination, not proved)",
    "RecordStore::put is driven on the real NodeRecordStore through the public libp2p trait; prior content is "
    "installed with the hook wrappers of put_verified / mark_as_stored (ant_networking::verif_hooks::record_store)",
]

OBJ = {
    "chunk": lambda: {"t": "chunk", "c": {"d": 1}},
    "pad": lambda: pv.pad(1, 9),
    "tx": lambda: pv.tx(1, 2),
    "reg": lambda: pv.reg(1, 1, ops=[pv.op(1, 1)]),
}
OTHER_SAME_KIND = {"chunk": {"chunk": {"d": 2}}, "pad": {"owner": 2}, "tx": {"owner": 2}, "reg": {"reg": [1, 2]}}
OTHER_KIND = {"chunk": {"owner": 1}, "pad": {"chunk": {"d": 1}}, "tx": {"reg": [1, 1]}, "reg": {"owner": 1}}
PRIOR_SAME = {
    "chunk": lambda: pv.held({"t": "chunk", "c": {"d": 1}}),
    "pad": lambda: pv.held(pv.pad(1, 3)),
    "tx": lambda: pv.held({"t": "txs", "list": [pv.tx(1, 1)]}),
    "reg": lambda: pv.held(pv.reg(1, 1)),
}
COLLIDING = {   # a record of another kind whose key coincides with this object's derived key
    "pad": lambda: pv.held({"t": "chunk", "c": {"pk": 1}}),
    "tx": lambda: pv.held(pv.pad(1, 3)),
    "reg": lambda: pv.held({"t": "chunk", "c": {"regpre": [1, 1]}}),
    "chunk": lambda: None,
}


def foreign_holder(key):
    """some record legitimately held under `key` (so that the presented key is a held one)"""
    if "chunk" in key:
        return pv.held({"t": "chunk", "c": key["chunk"]})
    if "owner" in key:
        return pv.held(pv.pad(key["owner"], 2))
    if "reg" in key:
        return pv.held(pv.reg(key["reg"][0], key["reg"][1]))
    return None


def table():
    cs = []
    for kind in ("chunk", "pad", "tx", "reg"):
        for entry in ("paid", "unpaid", "repl"):
            keys = [("derived", None), ("same-kind", OTHER_SAME_KIND[kind]), ("other-kind", OTHER_KIND[kind]), ("opaque", {"raw": 9})]
            for krel, key in keys:
                for prior in ("none", "same", "presented", "colliding"):
                    body = OBJ[kind]()
                    if kind == "tx" and entry == "repl":
                        body = {"t": "txs", "list": [body]}
                    store = []
                    if prior == "same":
                        store.append(PRIOR_SAME[kind]())
                    elif prior == "presented":
                        h = foreign_holder(key) if key else PRIOR_SAME[kind]()
                        if h is None:
                            continue
                        store.append(h)
                    elif prior == "colliding":
                        h = COLLIDING[kind]()
                        if h is None:
                            continue
                        store.append(h)
                    d = pv.delivery("repl" if entry == "repl" else "client", body, paid=(entry == "paid"), key=copy.deepcopy(key))
                    if entry == "paid":
                        d["proof"] = pv.good_proof(pv.key_of_body(body))
                    c = pv.case("table", [d], store=store)
                    c["krel"] = krel
                    cs.append(c)
    # replicated transaction lists mixing owners
    for key in ({"owner": 1}, {"owner": 2}, {"owner": 3}, {"raw": 1}):
        for lst in ([pv.tx(1, 1), pv.tx(2, 1)], [pv.tx(2, 2), pv.tx(2, 3, sig="junk")], [pv.tx(1, 1, sig="junk")], []):
            cs.append(pv.case("table", [pv.delivery("repl", {"t": "txs", "list": lst}, key=key)],
                              store=[pv.held({"t": "txs", "list": [pv.tx(1, 7)]})]))
    return cs


def storeput_cases(rng, n):
    cs = []
    mx = 300
    bodies = [{"t": "chunk", "c": {"d": 1}}, {"t": "chunk", "c": {"d": 2}}, pv.pad(1, 9), pv.tx(1, 2),
              {"t": "txs", "list": [pv.tx(1, 2)]}, pv.reg(1, 1), {"t": "garbage"}, {"t": "empty"}, {"t": "short"}]
    priors = [None,
              {"key": {"chunk": {"d": 1}}, "obj": {"t": "chunk", "c": {"d": 1}}, "rtype": "chunk"},
              {"key": {"owner": 1}, "obj": pv.pad(1, 9), "rtype": "pad"},
              {"key": {"owner": 1}, "obj": {"t": "txs", "list": [pv.tx(1, 2)]}, "rtype": "nonchunk"},
              {"key": {"owner": 1}, "obj": {"t": "txs", "list": [pv.tx(1, 2)]}, "rtype": "stalehash"},
              {"key": {"reg": [1, 1]}, "obj": pv.reg(1, 1), "rtype": "nonchunk"},
              {"key": {"owner": 1}, "obj": pv.pad(1, 9), "rtype": "chunk"}]
    for prior in priors:
        puts = []
        for b in bodies:
            for hdr in (0, 1, 2, 3, 4, 5, 6, 7, 9, -1):
                natural = pv.PLAIN_TAG.get(b["t"])
                if hdr not in (natural, pv.PAID_TAG.get(b["t"]), -1, 9) and rng.random() < 0.7:
                    continue
                key = pv.key_of_body(b) if rng.random() < 0.8 else rng.choice([{"owner": 1}, {"chunk": {"d": 1}}, {"raw": 2}])
                p = {"key": key, "hdr": hdr, "body": b, "proof": pv.good_proof(key) if hdr in (0, 4, 6, 7) and rng.random() < 0.8 else None}
                r = rng.random()
                if r < 0.12:
                    p["pad_to"] = mx
                elif r < 0.24:
                    p["pad_to"] = mx - 1
                elif r < 0.3:
                    p["pad_to"] = mx + rng.randrange(1, 500)
                puts.append(p)
        rng.shuffle(puts)
        for i in range(0, len(puts), 12):
            cs.append({"mode": "storeput", "kind": "storeput", "max": mx, "prior": [prior] if prior else [], "puts": puts[i:i + 12]})
    return cs[:n] if n else cs


def rand_history(rng):
    ds = []
    store = []
    for _ in range(rng.randrange(2, 6)):
        kind = rng.choice(["chunk", "pad", "tx", "reg"])
        body = OBJ[kind]()
        if kind == "pad":
            body = pv.pad(rng.choice([1, 2]), rng.randrange(0, 12))
        if kind == "chunk":
            body = {"t": "chunk", "c": rng.choice([{"d": 1}, {"d": 2}, {"pk": 1}, {"regpre": [1, 1]}])}
        if kind == "reg":
            body = pv.reg(rng.choice([1, 2]), 1, ops=[pv.op(rng.randrange(1, 5), 1)])
        entry = rng.choice(["paid", "unpaid", "repl"])
        if kind == "tx":
            body = pv.tx(rng.choice([1, 2]), rng.randrange(1, 5))
            if entry == "repl":
                body = {"t": "txs", "list": [body, pv.tx(rng.choice([1, 2]), rng.randrange(1, 5))]}
        key = None if rng.random() < 0.7 else rng.choice([{"owner": 1}, {"owner": 2}, {"chunk": {"d": 1}}, {"reg": [1, 1]}, {"raw": 4}, {"chunk": {"pk": 1}}])
        d = pv.delivery("repl" if entry == "repl" else "client", body, paid=(entry == "paid"), key=key)
        if entry == "paid":
            d["proof"] = pv.good_proof(pv.key_of_body(body))
        ds.append(d)
    if rng.random() < 0.5:
        store.append(rng.choice([PRIOR_SAME[k]() for k in PRIOR_SAME] + [COLLIDING["pad"](), COLLIDING["reg"]()]))
    return pv.case("history", ds, store=store)


def gen(ctx):
    cs = table() + pv.cross_kind_cases() + pv.back_to_back_cases() + pv.raw_chunk_cases() + pv.pad_boundary_cases() + pv.tx_tamper_cases() + pv.forged_update_cases() + pv.reg_branch_cases()
    cs += storeput_cases(ctx.rng, 0) + pv.raw_chunk_storeput_cases()
    n = 300 if ctx.tier == "quick" else 8000
    cs += [rand_history(ctx.rng) for _ in range(n)]
    return cs


def oracle(case, out):
    """C04 stated directly on what the real code did."""
    v = []
    if case.get("mode") == "storeput":
        if isinstance(out, dict) and "panic" in out:
            return [("panic", "the implementation panicked on this case: %s" % str(out["panic"])[:300])]
        if not isinstance(out, dict) or "puts" not in out:
            return [("harness", "no result: %r" % (out,))]
        for i, (p, r) in enumerate(zip(case["puts"], out["puts"])):
            if not r["unchanged"]:
                v.append(("put-changed-store", "RecordStore::put #%d changed the store's readable records / index / files: "
                          "before %s after %s" % (i, pv.dumps(r["before"])[:400], pv.dumps(r["after"])[:400])))
            if r["len"] >= case["max"] and (r["res"] != "ValueTooLarge" or r["events"]):
                v.append(("oversized-accepted", "put #%d: value of %d bytes (max %d) gave %s with %d event(s)"
                          % (i, r["len"], case["max"], r["res"], len(r["events"]))))
            parses = 0 <= p["hdr"] <= 7 and r["len"] >= 3      # RecordHeader::from_record reads 3 bytes
            if not parses and r["events"]:
                v.append(("unparsable-forwarded", "put #%d: record with an unparseable header was forwarded" % i))
            for e in r["events"]:
                if not e.get("same_record"):
                    v.append(("forwarded-other-record", "put #%d forwarded something that is not the record it was given: %s" % (i, e)))
            if r["res"] not in ("Ok", "ValueTooLarge"):
                v.append(("put-error", "put #%d returned %s" % (i, r["res"])))
        return v
    if isinstance(out, dict) and "panic" in out:
        return [("panic", "the implementation panicked on this case: %s" % str(out["panic"])[:300])]
    if not isinstance(out, dict) or "results" not in out:
        return [("harness", "no result: %r" % (out,))]
    if not pv.is_serial(case):
        return []
    for i, (d, r) in enumerate(zip(case["deliveries"], out["results"])):
        stored = [p for p in r["puts"] if not p.get("refused_by_driver")]
        # (a) whatever is written is written under the key its content determines
        for p in stored:
            k = pv.name_of(p["key"])
            dn = pv.derived_name_of_stored(p["val"])
            if dn is None or any(x != k for x in dn):
                v.append(("stored-under-foreign-key", "delivery %d wrote %s under key %s, but its content determines %s"
                          % (i, pv.dumps(p["val"])[:300], k, dn)))
        # (b) presented under a key its content does not determine => rejected, nothing changes
        if d["body"]["t"] in ("chunk", "pad", "tx", "txs", "reg") and pv.header_parses(d):
            names = pv.derived_names_of_body(d["body"])
            if pv.name_of(d["key"]) not in names:
                changed = r.get("store_at_start") != r.get("store_after")
                if r["res"] == "Ok" or stored or changed:
                    cls = "mismatched-key-accepted"
                    if d["hdr"] == 3 and d["path"] == "client" and d["body"]["t"] == "reg":
                        cls = "register-update-foreign-key"
                    v.append((cls, "delivery %d (%s, header tag %d) presented under %s although its content determines %s: "
                              "result %s, %d record(s) written, store changed: %s"
                              % (i, d["path"], d["hdr"], pv.name_of(d["key"]), names, r["res"], len(stored), changed)))
    # every record held at the end sits under its derived key
    for s in out["store"]:
        k = pv.name_of(s["key"])
        dn = pv.derived_name_of_stored(s["val"])
        if dn is not None and any(x != k for x in dn):
            v.append(("held-under-foreign-key", "store holds %s under %s" % (pv.dumps(s["val"])[:300], k)))
    return v + pv.kind_change_violations(case, out) + pv.rejection_violations(case, out)


def r_rtype(h):
    if h is None:
        return "None"
    if h == "chunk":
        return "(Some RTChunk)"
    if h == "pad":
        return "(Some RTPad)"
    return "(Some (RTNonChunk %s))" % cN(h["nonchunk"])


def model_term(case, out):
    if case.get("mode") != "storeput":
        return pv.model_term(case, out)
    if not isinstance(out, dict) or "puts" not in out:
        return "false"
    ts = []
    for p, r in zip(case["puts"], out["puts"]):
        parses = 0 <= p["hdr"] < 128 and r["len"] >= 3
        hdr = "(kind_of_tag %s)" % cN(p["hdr"]) if parses else "None"
        code = 1 if r["res"] == "ValueTooLarge" else (3 if len(r["events"]) == 1 else (2 if not r["events"] and r["res"] == "Ok" else 9))
        ts.append("agree_put %s %s {| in_len := %s; in_hdr := %s; in_hash := %s |} %s" % (
            cN(case["max"]), r_rtype(r["held_before"]), cN(r["len"]), hdr, cN(r["vhash"]), cN(code)))
    return " && ".join(ts) if ts else "true"


def show(case, out):
    if case.get("mode") == "storeput":
        return "tt"
    return pv.show_term(case, out)


def nontrivial(case, out):
    if case.get("mode") == "storeput":
        if not isinstance(out, dict) or "puts" not in out:
            return None
        return tuple((p["hdr"], p["body"]["t"], r["len"] >= case["max"], pv.dumps(r["held_before"])[:12], r["res"], len(r["events"]))
                     for p, r in zip(case["puts"], out["puts"]))
    if not isinstance(out, dict) or "results" not in out:
        return None
    ks = []
    for d, r in zip(case["deliveries"], out["results"]):
        names = pv.derived_names_of_body(d["body"])
        rel = "derived" if pv.name_of(d["key"]) in names else "foreign"
        held = pv.name_of(d["key"]) in pv.listed_names(r.get("store_at_start") or [])
        ks.append((d["path"], d["hdr"], d["body"]["t"], rel, held, bool(d.get("proof")), r["res"], len(r["puts"])))
    return tuple(ks)


def run(ctx):
    ctx.regen_consts()
    extra = [
        "models coq/model/PutValidation.v and coq/model/PutStore.v (hand-written) tied to put_validation.rs / "
        "record_store.rs by this run's correspondence and by the regenerated constants (RecordKind wire tags, presence "
        "of the record-key check in the unpaid register branch)",
        "harness/crates/c03 (real Node around a harness-driven Network; real NodeRecordStore for RecordStore::put), "
        "tools/props/putval.py and C04.py (generator, oracle, canonicaliser)"]
    ctx.prove("props/C04.v", THEOREMS, extra_trusted=extra)
    binary = ctx.cargo_build("c03")
    cases = ctx.corpus() + ([] if ctx.replay else gen(ctx))
    ctx.cov["exhaustive"] = not ctx.replay
    pv.pipeline(ctx, "props/C04.v", THEOREMS, extra, cases, binary, oracle, model_term, IMPORTS, nontrivial=nontrivial, show=show, shard_size=120,
                 relation="validate_and_store_record / store_replicated_in_record == PutValidation.sched_run; "
                          "NodeRecordStore::put == PutStore.rs_put")
