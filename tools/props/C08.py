"""C08 -- replication fetcher: bounded, duplicate-free, in-range, progress
(ant-networking/src/replication_fetcher.rs; call sites event/request_response.rs, cmd.rs).

A case is a whole history run on the REAL ReplicationFetcher through the cfg-guarded hook.  After
every primitive operation the harness dumps what was returned, the FailedToFetchHolders events and
both hash maps (virtual deadlines), and

* the ORACLE below states the property clauses directly on those recorded executions (no model);
* the MODEL term asks Coq to accept every step: `run_ok init [(op, out, post); ...] = true`
  (model/Fetcher.v: deterministic transcription + acceptor for the hash-map-ordered scheduling).
"""
import hashlib
import itertools

THEOREMS = [
    "fetcher_constants_positive",
    "code_refines_acceptor", "accepted_step_exists", "reachable_wf",
    "no_duplicate_inflight", "batch_respects_cap", "cap_without_fast_path",
    "only_unheld_scheduled", "put_clears_queue", "full_node_bound", "closest_first",
    "leaves_ongoing", "leaves_when", "timed_out_holder_reported_and_dropped",
    "multi_key_in_range", "multi_key_in_range_refuted",
    "liveness_bound", "liveness",
    "add_keys_within_cap_fetches_exactly_unheld", "add_keys_idle_clean",
    "chan_delivers_all", "try_send_loses_report", "timed_out_report_delivered", "agree_deferred_sound",
    "put_arm_order", "put_arm_wrong_order_refuted", "run_items_sound",
    "fetch_completed_arm_is_early", "put_arm_calls_in_order", "early_completion_exact",
    "put_notification_drops_other_version",
]
IMPORTS = "Require Import V.model.Fetcher."
RULE = ("histories of 1-60 primitive operations on one fetcher: 2-4 holders, 3-40 keys (real 256-bit XOR "
        "distances of random 32-byte keys to a random node id, recomputed by the oracle with hashlib), kinds "
        "Chunk/Scratchpad/NonChunk(h1|h2); single- and multi-key adverts with 0-100% held keys, duplicates and "
        "divergent versions; completions fed back from the real in-flight set (matching / other type / early), "
        "range updates at exact key distances +-1, fullness updates, clock advances 1 s-1000 s kept 2 s away from "
        "every deadline; directed scripts: F15 fast path, timeouts with queue drop, saturation beyond the cap, "
        "re-advertising rounds (liveness), back-pressure (NetworkEvent channel of capacity 1-3 kept full while fetches "
        "time out, drained at the end), driver-level histories (REAL SwarmDriver::handle_local_cmd PutLocalRecord / "
        "FetchCompleted arms around the driver-owned fetcher, record store filled to max_records = 16384 with keys "
        "closer than 2^255, advertised keys farther / a few nearer, arrivals refused for MaxRecords or accepted by "
        "eviction; two versions of one key in flight from different holders and FetchCompleted of one of them), "
        "exhaustive short histories over 3 keys x 2 holders (thorough). "
        "A case is distinct/non-trivial by (multiset of op kinds, max in-flight bucket, max queue bucket, "
        "events seen, fast path taken, cap reached)")
ASSUMPTIONS = [
    "time is ambient in the code (Instant::now); the harness ages stored deadlines and reports virtual "
    "deadlines rounded to 1 s; the generator keeps every clock value 2 s away from every deadline, so strict vs "
    "non-strict deadline comparisons are not distinguished",
    "distances are data in the model (the harness reports the real distance of every key; the oracle recomputes "
    "them as sha256(node) xor sha256(key)); collision-freedom of SHA-256 is a reading, not an axiom",
    "hash-map iteration order is not controlled: the acceptor admits every order, the transcription "
    "`schedule_code iter` is proved to be accepted for every iteration order `iter`",
    "the NetworkEvent channel is modelled as a bounded FIFO queue plus FIFO waiting senders (tokio mpsc); the harness "
    "owns the receiver and decides when it drains; task scheduling of the spawned senders is the current-thread "
    "runtime's",
    "driver-level cases: the record store's answers (MaxRecords, farthest record, responsible range) are data of "
    "the arm item; the store itself is C10's subject; real time elapsed inside a driver step is undone on the "
    "stored deadlines (hook rewind_micros) so that only the harness's clock advances count",
    "liveness is proved under explicit fairness premises (finite universe with one version per key, responsive "
    "holders: nothing in flight has expired at a round, fetches in flight after a round are stored before the next "
    "one, the queued entry has not passed PENDING_TIMEOUT, the record stays in range); bound = "
    "ceil(unheld universe keys / MAX_PARALLEL_FETCH) rounds",
]

U256 = 2 ** 256
GUARD = 2000


# ------------------------------------------------------------------------------------------ helpers
def sha_int(b):
    return int.from_bytes(hashlib.sha256(b).digest(), "big")


def dist_py(self_hex, key_hex):
    return sha_int(bytes.fromhex(self_hex)) ^ sha_int(bytes.fromhex(key_hex))


def peer_hex(rng):
    return "1220" + rng.randbytes(32).hex()      # sha2-256 multihash: a valid PeerId


class Clock:
    """Keeps every clock value GUARD ms away from every deadline that can exist."""

    def __init__(self, fetch_ms, pending_ms):
        self.v = 0
        self.seen = {0}
        self.f, self.p = fetch_ms, pending_ms

    def ok(self, v):
        for s in self.seen:
            if abs(v - (s + self.f)) < GUARD or abs(v - (s + self.p)) < GUARD:
                return False
        return True

    def advance(self, want):
        ms = max(1000, want // 1000 * 1000)
        for _ in range(60):
            if self.ok(self.v + ms):
                self.v += ms
                self.seen.add(self.v)
                return ms
            ms += 1000
        return None


class World:
    def __init__(self, rng, nk, nh, consts, kinds=None):
        self.rng = rng
        self.self_ = peer_hex(rng)
        self.holders = [peer_hex(rng) for _ in range(nh)]
        self.keys = [rng.randbytes(32).hex() for _ in range(nk)]
        self.dist = [dist_py(self.self_, k) for k in self.keys]
        # base kind per key: 0 chunk, 1 scratchpad, 2/3 = NonChunk(h1)/NonChunk(h2)
        self.kind = kinds or [rng.choice([0, 0, 0, 0, 1, 2, 2]) for _ in range(nk)]
        self.clock = Clock(consts[1], consts[2])
        self.order = sorted(range(nk), key=lambda i: self.dist[i])     # closest first

    def typ(self, i, divergent=0.0):
        t = self.kind[i]
        if t >= 2 and self.rng.random() < max(divergent, 0.25):
            return self.rng.choice([2, 3])
        if self.rng.random() < divergent:
            return self.rng.choice([0, 1, 2, 3])
        return t

    def case(self, ops, kind, **extra):
        c = {"kind": kind, "self": self.self_, "holders": self.holders, "keys": self.keys, "ops": ops}
        c.update(extra)
        return c


def age_op(w, want):
    ms = w.clock.advance(want)
    return [{"op": "age", "ms": ms, "want": want}] if ms else []


def retime(case, consts):
    """re-resolve the clock advances of a stored case against the CURRENT timeouts, so that corpus cases
    keep their 2 s guard bands when FETCH_TIMEOUT / PENDING_TIMEOUT change in the source"""
    clock = Clock(consts[1], consts[2])
    ops = []
    for op in case["ops"]:
        if op.get("op") == "age":
            ms = clock.advance(op.get("want", op["ms"]))
            if ms is None:
                continue
            op = dict(op, ms=ms)
        ops.append(op)
    return dict(case, ops=ops)


# ------------------------------------------------------------------------------------------ generator
def random_history(rng, consts, deep=False, adversarial=False):
    nk = rng.choice([3, 4, 6, 8, 12]) if not deep else rng.choice([24, 30, 40])
    w = World(rng, nk, rng.randint(2, 4), consts)
    ops = []
    nops = rng.randint(3, 18) if not deep else rng.randint(8, 26)
    for _ in range(nops):
        r = rng.random()
        if r < 0.42:
            h = rng.randrange(len(w.holders))
            m = rng.random()
            if m < 0.18:
                n = 1
            elif m < 0.36:
                n = 2
            elif m < 0.7:
                n = rng.randint(2, min(nk, 10))
            else:
                n = nk
            idx = rng.sample(range(nk), min(n, nk))
            if rng.random() < 0.3:
                idx.sort(key=lambda i: w.dist[i], reverse=rng.random() < 0.5)
            inc = [[i, w.typ(i, 0.3 if adversarial else 0.0)] for i in idx]
            if adversarial and inc and rng.random() < 0.4:
                inc.append(list(rng.choice(inc)))                   # duplicate entry
            if adversarial and rng.random() < 0.1:
                inc = []
            if rng.random() < 0.65:
                held = "auto"
            else:
                frac = rng.choice([0.0, 0.3, 0.6, 0.9, 1.0])
                held = [[i, w.typ(i, 0.2 if adversarial else 0.0)] for i in range(nk) if rng.random() < frac]
                if n >= 2 and rng.random() < 0.4:
                    # all advertised keys but one are held: the steady-state shape of periodic lists
                    keep = rng.choice(idx)
                    held = [[i, w.kind[i]] for i in idx if i != keep]
            ops.append({"op": "add", "h": h, "inc": inc, "held": held})
        elif r < 0.62:
            mode = rng.choice(["put", "put", "put", "early"])
            ops.append({"op": "complete", "n": rng.choice([1, 1, 2, 5, 20, 100]), "mode": mode,
                        "store": mode == "put" and rng.random() < 0.8,
                        "type_shift": 1 if rng.random() < 0.15 else 0,
                        "from_end": rng.random() < 0.5})
        elif r < 0.70:
            i = rng.randrange(nk)
            ops.append({"op": rng.choice(["put", "early"]), "k": i, "t": w.typ(i, 0.3)})
        elif r < 0.76:
            ops.append({"op": "next"})
        elif r < 0.88:
            F, P = consts[1], consts[2]
            ops += age_op(w, rng.choice([1000, 3000, F // 2, F - 3000, F + 3000, F * 3 // 2, 3 * F, P // 3,
                                         P - 10000, P + 10000, P + 100000]))
            if rng.random() < 0.5:
                ops.append({"op": "next"})
        elif r < 0.94:
            i = rng.randrange(nk)
            rv = w.dist[i] + rng.choice([0, 0, 0, 1, -1])
            if rng.random() < 0.1:
                rv = rng.choice([0, U256 - 1])
            ops.append({"op": "range", "r": str(min(max(rv, 0), U256 - 1))})
        elif r < 0.98:
            ops.append({"op": "far", "k": rng.choice([None] + list(range(nk)) * 3)})
        else:
            i = rng.randrange(nk)
            ops.append(rng.choice([{"op": "store", "k": i, "t": w.typ(i)}, {"op": "unstore", "k": i}]))
    extra = {"addr": "chunk"} if rng.random() < 0.3 else {}
    return w.case(ops, "deep" if deep else ("adversarial" if adversarial else "random"), **extra)


def f15_script(rng, consts, control=False):
    """advert of two keys, one held, the other out of range (F15); control: both unheld."""
    w = World(rng, 4, 2, consts, kinds=[0, 0, 0, 0])
    near, far_ = w.order[0], w.order[-1]
    other = w.order[1]
    ops = [{"op": "range", "r": str(w.dist[other])}]
    held = [] if control else [[near, 0]]
    ops.append({"op": "add", "h": 0, "inc": [[near, 0], [far_, 0]], "held": held})
    return w.case(ops, "f15-control" if control else "f15")


def timeout_script(rng, consts):
    w = World(rng, rng.choice([6, 25, 40]), 3, consts)
    nk = len(w.keys)
    ops = [{"op": "add", "h": 0, "inc": [[i, w.kind[i]] for i in range(nk)], "held": []},
           {"op": "add", "h": 1, "inc": [[i, w.kind[i]] for i in range(nk)], "held": []}]
    F = consts[1]
    ops += age_op(w, rng.choice([F // 4, F * 3 // 4]))
    ops.append({"op": "add", "h": 2, "inc": [[rng.randrange(nk), 0]], "held": []})       # fast path, other holder
    ops += age_op(w, rng.choice([F // 2, F * 4 // 5]))       # first batch expired, the later fetch maybe not
    ops.append(rng.choice([{"op": "next"}, {"op": "put", "k": 0, "t": w.kind[0]},
                           {"op": "add", "h": 1, "inc": [[0, w.kind[0]], [1, w.kind[1]]], "held": []}]))
    ops += age_op(w, F * 3 // 2)
    ops.append({"op": "next"})
    ops.append({"op": "next"})
    return w.case(ops, "timeout")


def saturate_script(rng, consts):
    w = World(rng, 40, 3, consts, kinds=[0] * 40)
    ops = [{"op": "add", "h": 0, "inc": [[i, 0] for i in range(0, 30)], "held": "auto"},
           {"op": "add", "h": 1, "inc": [[i, 0] for i in range(10, 40)], "held": "auto"}]
    for j in range(3):                                      # single-key adverts go beyond the cap
        ops.append({"op": "add", "h": 2, "inc": [[rng.randrange(40), 0]], "held": "auto"})
    for _ in range(rng.randint(2, 5)):
        ops.append({"op": "complete", "n": rng.choice([1, 3, 7, 25]), "mode": "put", "store": True,
                    "from_end": rng.random() < 0.5})
        if rng.random() < 0.5:
            ops.append({"op": "add", "h": rng.randrange(3), "inc": [[i, 0] for i in rng.sample(range(40), 12)],
                        "held": "auto"})
    if rng.random() < 0.5:
        ops.append({"op": "far", "k": w.order[rng.randint(10, 30)]})
        ops.append({"op": "add", "h": 0, "inc": [[i, 0] for i in range(40)], "held": "auto"})
    return w.case(ops, "saturate")


def liveness_script(rng, consts):
    """a responsive holder re-advertises its whole list every round; every fetch of a round is stored before
    the next one; the farthest in-range key must be fetched within (#unheld keys)+1 rounds."""
    nk = rng.choice([5, 23, 40])
    w = World(rng, nk, 3, consts, kinds=[0] * nk)
    target = w.order[-1] if rng.random() < 0.7 else rng.choice(w.order)
    ops = []
    if rng.random() < 0.5:
        ops.append({"op": "range", "r": str(w.dist[target])})          # exactly in range
    rounds = -(-nk // consts[0]) + 2
    for r in range(rounds):
        if rng.random() < 0.5:
            ops.append({"op": "add", "h": 1, "inc": [[i, 0] for i in rng.sample(range(nk), max(2, nk // 2))],
                        "held": "auto"})
        ops.append({"op": "add", "h": 0, "inc": [[i, 0] for i in range(nk)], "held": "auto", "round": True})
        ops.append({"op": "complete", "n": 1000, "mode": "put", "store": True})
        ops += age_op(w, rng.choice([1000, 5000, consts[1] * 3 // 2]))
        if len(ops) > 70:
            break
    return w.case(ops, "liveness", live={"k": target, "t": 0, "h": 0, "bound": -(-nk // consts[0]) + 1})


def backpressure_script(rng, consts):
    """the NetworkEvent channel is small and full while fetches time out: every timed-out holder must still be
    reported, exactly once, as soon as the consumer drains the channel"""
    w = World(rng, rng.choice([6, 25]), 4, consts, kinds=None)
    nk = len(w.keys)
    F = consts[1]
    chan = rng.choice([1, 1, 2, 3])
    ops = [{"op": "add", "h": 0, "inc": [[i, w.kind[i]] for i in range(nk)], "held": [], "nodrain": True}]
    ops += age_op(w, F // 2)
    for a in ops[-1:]:
        a["nodrain"] = True
    ops.append({"op": "add", "h": 1, "inc": [[rng.randrange(nk), 0]], "held": [], "nodrain": True})
    ops.append({"op": "add", "h": 2, "inc": [[rng.randrange(nk), 1]], "held": [], "nodrain": True})
    ops += age_op(w, F * 3 // 5)                 # holder 0's fetches have timed out
    ops[-1]["nodrain"] = True
    ops.append(dict(rng.choice([{"op": "next"}, {"op": "put", "k": 0, "t": w.kind[0]}]), nodrain=True))
    ops += age_op(w, F // 2)                     # now the single fetches of holders 1 and 2 as well
    ops[-1]["nodrain"] = True
    ops.append({"op": "next", "nodrain": rng.random() < 0.7})
    if rng.random() < 0.5:
        ops.append({"op": "add", "h": 3, "inc": [[rng.randrange(nk), 0]], "held": [], "nodrain": True})
        ops += age_op(w, F * 3 // 2)
        ops[-1]["nodrain"] = True
        ops.append({"op": "next", "nodrain": True})
    return w.case(ops, "backpressure", chan=chan, prefill=rng.choice([chan, chan, max(chan - 1, 0)]), deferred=True)


def driver_script(rng, consts, kp_seed, peer_hex, full=True):
    """the PutLocalRecord / FetchCompleted arms of the REAL SwarmDriver::handle_local_cmd around the
    driver-owned fetcher, against a store filled to max_records with keys closer than `below`"""
    w = World(rng, 0, 3, consts, kinds=[])
    w.self_ = peer_hex
    nk = rng.choice([24, 28, 40])
    # the store holds MAX_RECORDS generated keys closer than 2^255; `split` keys of the case are nearer than
    # that (accepted by evicting the farthest record), the others are farther than everything held (refused)
    split = rng.choice([0, 0, 3, 8])
    half = 1 << 255
    near, farl = [], []
    while len(near) < split or len(farl) < nk - split:
        k = rng.randbytes(32).hex()
        (near if dist_py(peer_hex, k) < half else farl).append(k)
    w.keys = near[:split] + farl[:nk - split]
    w.dist = [dist_py(peer_hex, k) for k in w.keys]
    w.order = sorted(range(nk), key=lambda i: w.dist[i])
    w.kind = [0] * nk
    below = half
    fill_n = 16384 if full else rng.choice([0, 100])
    ops = []
    o = w.order
    ops.append({"op": "add", "h": 0, "inc": [[i, 0] for i in o[:rng.choice([22, 22, 24, nk])]]})
    if rng.random() < 0.5:
        ops.append({"op": "add", "h": 1, "inc": [[i, 0] for i in rng.sample(range(nk), 6)]})
    ops += age_op(w, rng.choice([1000, consts[1] // 2]))
    arrivals = [o[0], o[1]] + rng.sample(o[:20], 3) + [o[split + 1] if split + 1 < nk else o[2]]
    rng.shuffle(arrivals)
    for k in arrivals[:rng.randint(2, 5)]:
        ops.append({"op": "put", "k": k, "t": 0})
        if rng.random() < 0.3:
            ops.append({"op": "early", "k": rng.choice(o[:24]), "t": 0})
        if rng.random() < 0.3:
            ops.append({"op": "add", "h": rng.randrange(3), "inc": [[i, 0] for i in rng.sample(range(nk), 5)]})
    return w.case(ops, "driver-full" if full else "driver", mode="driver", kp_seed=kp_seed,
                  fill={"n": fill_n, "seed": rng.randrange(1 << 30), "below": str(below)})


def driver_versions_script(rng, consts, kp_seed, peer_hex):
    """two versions (NonChunk h1 / h2) of the same register/transaction keys in flight from different holders,
    then FetchCompleted (early completion) of ONE version through the real handle_local_cmd arm: exactly that
    version's fetch and queued entries go, the other version keeps running"""
    w = World(rng, 0, 4, consts, kinds=[])
    w.self_ = peer_hex
    nk = rng.randint(3, 8)
    w.keys = [rng.randbytes(32).hex() for _ in range(nk)]
    w.dist = [dist_py(peer_hex, k) for k in w.keys]
    w.order = sorted(range(nk), key=lambda i: w.dist[i])
    w.kind = [2] * nk
    both = rng.sample(range(nk), rng.randint(1, nk))
    ops = [{"op": "add", "h": 0, "inc": [[i, 2] for i in range(nk)]},
           {"op": "add", "h": 1, "inc": [[i, 3] for i in both] + ([[both[0], 3]] if len(both) == 1 else [])}]
    if rng.random() < 0.6:        # a third holder's entries for the second version stay queued
        ops.append({"op": "add", "h": 2, "inc": [[i, 3] for i in both] + [[both[0], 2]]})
    ops += age_op(w, rng.choice([1000, consts[1] // 4]))
    for k in rng.sample(both, min(len(both), rng.randint(1, 3))):
        ops.append({"op": "early", "k": k, "t": rng.choice([2, 3])})
        if rng.random() < 0.4:
            ops.append({"op": "add", "h": rng.choice([1, 3]), "inc": [[i, 3] for i in both] + [[k, 2]]})
        if rng.random() < 0.3:
            ops.append({"op": "early", "k": k, "t": 4})            # a version nobody advertised
    return w.case(ops, "driver-versions", mode="driver", kp_seed=kp_seed,
                  fill={"n": rng.choice([0, 50]), "seed": rng.randrange(1 << 30), "below": str(1 << 255)})


def exhaustive_cases(rng, consts, length, limit):
    """all histories of `length` ops over a small alphabet on 3 keys x 2 holders (sampled down to limit)."""
    w = World(rng, 3, 2, consts, kinds=[0, 2, 0])
    a, b, c = w.order
    alphabet = [
        {"op": "add", "h": 0, "inc": [[a, 0]], "held": "auto"},
        {"op": "add", "h": 0, "inc": [[a, 0], [c, 0]], "held": "auto"},
        {"op": "add", "h": 1, "inc": [[a, 0], [b, 2], [c, 0]], "held": "auto"},
        {"op": "add", "h": 1, "inc": [[b, 3]], "held": "auto"},
        {"op": "complete", "n": 1, "mode": "put", "store": True},
        {"op": "complete", "n": 1, "mode": "early", "from_end": True},
        {"op": "put", "k": b, "t": 3},
        {"op": "range", "r": str(w.dist[b])},
        {"op": "far", "k": b},
        {"op": "age", "ms": 25000, "want": consts[1] + 5000},
        {"op": "next"},
    ]
    seqs = list(itertools.product(range(len(alphabet)), repeat=length))
    if len(seqs) > limit:
        seqs = rng.sample(seqs, limit)
    out = []
    for s in seqs:
        out.append(retime(w.case([dict(alphabet[i]) for i in s], "exhaustive"), consts))
    return out


def gen(ctx):
    rng = ctx.rng
    consts = ctx.c08_consts
    quick = ctx.tier == "quick"
    cases = []
    for control in (False, True):
        cases.append(f15_script(rng, consts, control))
    n_rand, n_adv, n_deep, n_script = (170, 60, 28, 8) if quick else (3000, 1000, 400, 100)
    for _ in range(n_script):
        cases += [timeout_script(rng, consts), saturate_script(rng, consts), liveness_script(rng, consts),
                  f15_script(rng, consts, rng.random() < 0.3), backpressure_script(rng, consts)]
    # driver-level histories (real SwarmDriver + real record store filled to max_records)
    for j in range(6 if quick else 60):
        seed = rng.randrange(1, 200)
        cases.append(driver_script(rng, consts, seed, ctx.c08_peer(seed), full=(j % 3 != 2)))
    for j in range(8 if quick else 80):
        seed = rng.randrange(1, 200)
        cases.append(driver_versions_script(rng, consts, seed, ctx.c08_peer(seed)))
    for _ in range(n_rand):
        cases.append(random_history(rng, consts))
    for _ in range(n_adv):
        cases.append(random_history(rng, consts, adversarial=True))
    for _ in range(n_deep):
        cases.append(random_history(rng, consts, deep=True))
    if quick:
        cases += exhaustive_cases(rng, consts, 3, 120)
    else:
        cases += exhaustive_cases(rng, consts, 3, 2000) + exhaustive_cases(rng, consts, 4, 5000) \
            + exhaustive_cases(rng, consts, 5, 3000)
    return cases


# ------------------------------------------------------------------------------------------ oracle
def _state(step):
    tbf = {(e[0], e[1], e[2]): int(e[3]) for e in step["tbf"]}
    ong = {(e[0], e[1]): (e[2], int(e[3])) for e in step["ong"]}
    return tbf, ong


def survivors(op, pre_tbf, pre_far, dist):
    """entries of the advert that are not held (by key), not already queued for this holder and not beyond
    the fullness limit -- the class predicate of the known fast-path finding needs their number"""
    held = {e[0] for e in op["held"]}
    out = []
    for k, t in op["inc"]:
        if k in held or (k, t, op["h"]) in pre_tbf:
            continue
        if pre_far is not None and dist[k] > pre_far:
            continue
        out.append((k, t))
    return out


def oracle(c, o):
    """The property, clause by clause, on what the real fetcher did."""
    if o is None:
        return []
    if "panic" in o:
        return [("panic", "the fetcher panicked: %s" % o["panic"])]
    v = []
    maxp, fetch_ms, pending_ms = int(o["consts"][0]), int(o["consts"][1]), int(o["consts"][2])
    dist = [int(d) for d in o["dist"]]
    for i, k in enumerate(c["keys"]):
        if dist[i] != dist_py(c["self"], k):
            v.append(("distance", "distance of key %d reported as %d, XOR of the SHA-256 digests is %d"
                      % (i, dist[i], dist_py(c["self"], k))))
    pre_tbf, pre_ong, pre_far, pre_range, pre_now = {}, {}, None, None, 0
    first_inflight_round = None
    rounds = 0
    live = c.get("live")
    deferred = bool(c.get("deferred"))
    expected_reports, delivered_reports = [], []
    for n, st in enumerate(o["steps"]):
        op = st["op"]
        kind = op["op"]
        # the PutLocalRecord arm of handle_local_cmd: an arrival, preceded by a fullness update when the store
        # refused the record for MaxRecords, followed by a range update when the store has a responsible range
        arm = None
        if kind == "putarm":
            arm, kind = op, "put"
        arm_far = None          # the store's farthest record's distance handed to set_farthest_on_full
        if arm and arm["res"] == "max" and arm["far_dist"] is not None:
            arm_far = int(arm["far_dist"])
        tbf, ong = _state(st)
        now = int(st["now"])
        far = None if st["far"] is None else int(st["far"])
        rng_ = None if st["range"] is None else int(st["range"])
        out = [tuple(p) for p in st["out"]]
        where = "step %d (%s)" % (n, kind)
        if any(p[0] < 0 or p[1] < 0 for p in out) or any(min(e[0], e[2]) < 0 for e in st["tbf"] + st["ong"]):
            v.append(("unknown-id", "%s: a peer or key the harness never supplied appears" % where))
        for ev in st["events"]:
            if not isinstance(ev, list):
                v.append(("event", "%s: unexpected event %r" % (where, ev)))
        events = [set(ev) for ev in st["events"] if isinstance(ev, list)]
        sched = kind in ("add", "next", "put", "early")

        # which in-flight entries of the previous state must have left / may stay
        def removed_by_op(kt):
            if kind == "put" and kt[0] == op["k"]:
                return True
            if kind == "early" and kt == (op["k"], op["t"]):
                return True
            if kind == "add" and any(e[0] == kt[0] and e[1] == kt[1] for e in op["held"]):
                return True
            if kind == "far" and op["k"] is not None and (pre_far is None or dist[op["k"]] < pre_far) \
                    and dist[kt[0]] > dist[op["k"]]:
                return True
            if arm_far is not None and (pre_far is None or arm_far < pre_far) and dist[kt[0]] > arm_far:
                return True
            return False

        def survives(kt, ent):
            return not removed_by_op(kt) and not (sched and ent[1] < now)

        fresh = {kt: e for kt, e in ong.items() if not (kt in pre_ong and survives(kt, pre_ong[kt]) and pre_ong[kt] == e)}
        # ---- in-flight entries leave on arrival / completion / timeout and ONLY then
        outc = list(tuple(p) for p in st["out"])
        for kt, e in pre_ong.items():
            if not survives(kt, e):
                if kt in ong and ong[kt] == e:
                    if (e[0], kt[0]) in outc:
                        outc.remove((e[0], kt[0]))        # legitimately scheduled again
                    else:
                        del fresh[kt]
                        v.append(("stuck-inflight", "%s: fetch %s should have left the in-flight set" % (where, kt)))
            elif kt not in ong or ong[kt] != e:
                v.append(("lost-inflight", "%s: fetch %s left the in-flight set (or changed) without arrival, "
                          "completion or timeout" % (where, kt)))
        # ---- never two fetches for one record version; returned pairs <-> fresh in-flight entries
        want = sorted((e[0], kt[0]) for kt, e in fresh.items())
        if sorted(out) != want:
            # an entry that legitimately stayed in flight and was returned again is the duplicate case
            cls = "dup-inflight" if len(out) > len(want) else "returned-vs-inflight"
            v.append((cls, "%s: returned (holder,key) pairs %s but the fetches newly in flight are %s"
                      % (where, sorted(out), want)))
        for kt, e in fresh.items():
            if e[1] != now + fetch_ms:
                v.append(("fetch-deadline", "%s: new fetch %s has deadline %d, not now+FETCH_TIMEOUT" % (where, kt, e[1])))
        # ---- timeouts: holder reported, its queue dropped, nobody else accused
        expired_holders = {e[0] for kt, e in pre_ong.items() if sched and e[1] < now and not removed_by_op(kt)}
        reported = set().union(*events) if events else set()
        if expired_holders:
            expected_reports.append(set(expired_holders))
        delivered_reports.extend(events)
        if deferred:
            # the consumer is busy: reports may be delivered later; compared at the end of the history
            for (k, t, h) in tbf:
                if h in expired_holders:
                    v.append(("slow-holder-queue", "%s: queued entry %s of timed-out holder %d survived" % (where, (k, t), h)))
        elif sched:
            if expired_holders != reported or (expired_holders and len(events) != 1) or (not expired_holders and events):
                v.append(("timeout-report", "%s: holders with timed-out fetches %s, FailedToFetchHolders events %s"
                          % (where, sorted(expired_holders), [sorted(e) for e in events])))
            for (k, t, h) in tbf:
                if h in expired_holders:
                    v.append(("slow-holder-queue", "%s: queued entry %s of timed-out holder %d survived" % (where, (k, t), h)))
        elif events:
            v.append(("timeout-report", "%s: event fired by a non-scheduling operation" % where))
        # ---- only records not held
        surv = None
        if kind == "add":
            surv = survivors(op, pre_tbf, pre_far, dist)
            heldd = {e[0]: e[1] for e in op["held"]}
            for kt, e in fresh.items():
                if heldd.get(kt[0]) == kt[1]:
                    v.append(("held-scheduled", "%s: %s is held and was scheduled" % (where, kt)))
                if (kt[0], kt[1], e[0]) not in pre_tbf and kt[0] in heldd and e[0] == op["h"]:
                    v.append(("held-scheduled", "%s: advertised key %d is held and was fetched" % (where, kt[0])))
            for (k, t, h) in tbf:
                if heldd.get(k) == t or ((k, t, h) not in pre_tbf and k in heldd):
                    v.append(("held-queued", "%s: %s is held and is queued" % (where, (k, t))))
        if kind == "put":
            for (k, t, h) in tbf:
                if (k, t) == (op["k"], op["t"]):
                    v.append(("held-queued", "%s: the record just stored is still queued" % where))
        # ---- full node
        if far is not None:
            for (k, t, h) in list(tbf) + [(kt[0], kt[1], e[0]) for kt, e in ong.items()]:
                if dist[k] > far:
                    v.append(("beyond-farthest", "%s: key %d (distance %d) is queued or in flight beyond the "
                              "farthest acceptable distance %d" % (where, k, dist[k], far)))
        if kind == "far":
            want_far = pre_far
            if op["k"] is not None and (pre_far is None or dist[op["k"]] < pre_far):
                want_far = dist[op["k"]]
            if far != want_far:
                v.append(("farthest-update", "%s: farthest acceptable distance is %s, expected %s" % (where, far, want_far)))
        elif arm:
            want_far = pre_far
            if arm_far is not None and (pre_far is None or arm_far < pre_far):
                want_far = arm_far
            if far != want_far:
                v.append(("farthest-update", "%s: store %s the record (farthest held %s): farthest acceptable distance is %s, "
                          "expected %s" % (where, arm["res"], arm["far_dist"], far, want_far)))
            # ---- once the store refused for MaxRecords nothing farther than its farthest record is fetched
            if arm_far is not None:
                for (h, k) in out:
                    if dist[k] > arm_far:
                        v.append(("full-node-fetch-emitted", "%s: the store is full (farthest held record at distance %d) and "
                                  "refused key %d, yet the same command ordered a fetch of key %d at distance %d from holder %d"
                                  % (where, arm_far, op["k"], k, dist[k], h)))
        elif far != pre_far:
            v.append(("farthest-update", "%s: farthest acceptable distance changed" % where))
        if far is not None:
            for (h, k) in out:
                if dist[k] > far:
                    v.append(("beyond-farthest", "%s: returned key %d (distance %d) is beyond the farthest acceptable "
                              "distance %d" % (where, k, dist[k], far)))
        # ---- cap, closest first, maximality (batch = everything returned except a fast-path fetch)
        if sched:
            fastn = 1 if (kind == "add" and len(surv) == 1) else 0
            base = len([kt for kt in ong if kt not in fresh])
            nfast = 0
            batch = list(out)
            if fastn and out:
                # the fast-path pair, if it was scheduled, comes first
                sk = surv[0]
                if sk in fresh and (fresh[sk][0], sk[0]) == out[0]:
                    batch = out[1:]
                    nfast = 1
            if batch and len(ong) > maxp:
                v.append(("cap", "%s: batch scheduling left %d fetches in flight (limit %d)" % (where, len(ong), maxp)))
            if not batch and len(ong) > max(maxp, base + nfast) and len(ong) > len(pre_ong) + nfast:
                v.append(("cap", "%s: %d fetches in flight (limit %d)" % (where, len(ong), maxp)))
            ds = [dist[p[1]] for p in batch]
            if ds != sorted(ds):
                v.append(("closest-first", "%s: batch not ordered closest first: %s" % (where, batch)))
            waiting = [(k, t, h) for (k, t, h) in tbf if (k, t) not in ong]
            if len(ong) < maxp and waiting:
                v.append(("not-maximal", "%s: capacity left (%d in flight) but %s is queued and not in flight"
                          % (where, len(ong), waiting[0])))
            if batch and waiting and min(dist[k] for (k, t, h) in waiting) < max(ds):
                v.append(("closest-first", "%s: a queued record is closer than one that was scheduled" % where))
        else:
            if out:
                v.append(("returned-vs-inflight", "%s: a non-scheduling operation returned keys" % where))
        # ---- queue bookkeeping: nothing appears from nowhere, pending deadlines
        for x, dl in tbf.items():
            if x not in pre_tbf:
                if kind != "add" or x[2] != op["h"] or [x[0], x[1]] not in op["inc"]:
                    v.append(("queue-origin", "%s: queued entry %s was never advertised by that holder" % (where, x)))
                elif dl != now + pending_ms:
                    v.append(("pending-deadline", "%s: new queued entry %s has deadline %d" % (where, x, dl)))
            elif dl != pre_tbf[x]:
                v.append(("pending-deadline", "%s: deadline of queued entry %s changed" % (where, x)))
        for kt, e in fresh.items():
            x = (kt[0], kt[1], e[0])
            if x not in pre_tbf and not (kind == "add" and e[0] == op["h"] and [kt[0], kt[1]] in op["inc"]):
                v.append(("queue-origin", "%s: fetch %s from %d was never advertised by that holder" % (where, kt, e[0])))
        # ---- multi-record advertisements stay within the responsible distance
        if kind == "add" and len(op["inc"]) >= 2 and pre_range is not None:
            bad = [x for x in tbf if x not in pre_tbf and dist[x[0]] > pre_range]
            bad += [(kt[0], kt[1], e[0]) for kt, e in fresh.items()
                    if (kt[0], kt[1], e[0]) not in pre_tbf and dist[kt[0]] > pre_range]
            if bad:
                cls = "fastpath-multi-key-out-of-range" if len(surv) == 1 else "multi-key-out-of-range"
                v.append((cls, "%s: advert of %d records from holder %d: %s taken although its distance %d exceeds the "
                          "responsible range %d (%d key(s) survived the held/queued filter)"
                          % (where, len(op["inc"]), op["h"], bad[0], dist[bad[0][0]], pre_range, len(surv))))
        # ---- range bookkeeping
        if kind == "range":
            if rng_ != int(op["r"]):
                v.append(("range-update", "%s: range is %s" % (where, rng_)))
        elif arm:
            want = pre_range if arm["rng"] is None else int(arm["rng"])
            if rng_ != want:
                v.append(("range-update", "%s: range is %s, the store's responsible range is %s" % (where, rng_, arm["rng"])))
        elif rng_ != pre_range:
            v.append(("range-update", "%s: range changed" % where))
        # ---- liveness script
        if live and kind == "add" and op.get("round"):
            rounds += 1
            if first_inflight_round is None and ((live["k"], live["t"]) in ong or
                                                 any(e[0] == live["k"] for e in op["held"])):
                first_inflight_round = rounds
        pre_tbf, pre_ong, pre_far, pre_range, pre_now = tbf, ong, far, rng_, now
    # ---- every timed-out holder is reported, exactly once, also when the event channel was full meanwhile
    delivered_reports.extend(set(ev) for ev in o.get("late", []) if isinstance(ev, list))
    if (deferred or o.get("late")) and delivered_reports != expected_reports:
        cls = "timeout-report-lost" if len(delivered_reports) < len(expected_reports) else "timeout-report"
        v.append((cls, "event channel of capacity %s (%s filler events): timed-out holders to report per pruning step %s, "
                  "FailedToFetchHolders events delivered once the consumer drained the channel %s"
                  % (c.get("chan"), c.get("prefill"), [sorted(e) for e in expected_reports],
                     [sorted(e) for e in delivered_reports])))
    if live and rounds >= live["bound"] and first_inflight_round is None:
        v.append(("starved", "key %d re-advertised by a responsive holder in %d rounds was never fetched (bound %d)"
                  % (live["k"], rounds, live["bound"])))
    # one violation per class and history is enough
    seen, res = set(), []
    for cls, d in v:
        if cls not in seen:
            seen.add(cls)
            res.append((cls, d))
    return res


# ------------------------------------------------------------------------------------------ model term
def _k(i):
    return "k%d" % i if i >= 0 else "(K 999999 0)"


def _lst(xs):
    return "[" + "; ".join(xs) + "]"


def _op(op):
    k = op["op"]
    if k == "add":
        return "AddKeys %d %s %s" % (op["h"], _lst("(%s, T %d)" % (_k(e[0]), e[1]) for e in op["inc"]),
                                     _lst("(%s, T %d)" % (_k(e[0]), e[1]) for e in op["held"]))
    if k == "next":
        return "NextKeys"
    if k in ("put", "putarm"):
        return "NotifyPut %s (T %d)" % (_k(op["k"]), op["t"])
    if k == "early":
        return "NotifyEarly %s (T %d)" % (_k(op["k"]), op["t"])
    if k == "range":
        return "SetRange %s" % op["r"]
    if k == "far":
        return "SetFarthest %s" % ("None" if op["k"] is None else "(Some %s)" % _k(op["k"]))
    if k == "age":
        return "Advance %d" % op["ms"]
    raise ValueError(k)


def _opt(x):
    return "None" if x is None else "(Some %s)" % x


def _out(st, events=True):
    return "mkOut %s %s" % (_lst("(%d, %s)" % (p[0], _k(p[1])) for p in st["out"]),
                            _lst(_lst(str(h) for h in ev) for ev in st["events"]) if events else "[]")


def _post(st):
    return "ST %s %s %s %s %s" % (
        _lst("TE %s %d %d %s" % (_k(e[0]), e[1], e[2], e[3]) for e in st["tbf"]),
        _lst("OE %s %d %d %s" % (_k(e[0]), e[1], e[2], e[3]) for e in st["ong"]),
        _opt(st["range"]), _opt(st["far"]), st["now"])


def model_term(c, o):
    if o is None:
        return None
    if "panic" in o:
        return "false"
    if "peer" in o:
        return None
    deferred = bool(c.get("deferred"))
    driver = c.get("mode") == "driver"
    steps = []
    for n, st in enumerate(o["steps"]):
        if any(p[0] < 0 or p[1] < 0 for p in st["out"]) or any(not isinstance(e, list) for e in st["events"]):
            return "false"
        if any(int(e[3]) < 0 or e[2] < 0 or e[0] < 0 for e in st["tbf"] + st["ong"]):
            return "false"
        op = st["op"]
        if op["op"] == "putarm":
            if op["res"] == "ok":
                res = "PutOk"
            elif op["res"] == "max":
                res = "(PutMaxRecords %s)" % ("None" if op["far_dist"] is None
                                              else "(Some (K %d %s))" % (1000000 + n, op["far_dist"]))
            else:
                res = "PutErr"
            steps.append("IArm %s %s (T %d) %s (%s) (%s)" % (res, _k(op["k"]), op["t"], _opt(op["rng"]), _out(st), _post(st)))
        else:
            stp = "(%s, %s, %s)" % (_op(op), _out(st, events=not deferred), _post(st))
            steps.append("IStep %s" % stp if driver else stp)
    lets = "".join("let k%d := K %d %s in " % (i, i, d) for i, d in enumerate(o["dist"]))
    head = "%sagree_consts %s %s %s && " % (lets, o["consts"][0], o["consts"][1], o["consts"][2])
    if driver:
        return head + "run_items init %s" % _lst(steps)
    if deferred:
        delivered = [ev for st in o["steps"] for ev in st["events"]] + list(o.get("late", []))
        if any(not isinstance(e, list) for e in delivered):
            return "false"
        return head + "agree_deferred %s %s" % (_lst(steps), _lst(_lst(str(h) for h in ev) for ev in delivered))
    if o.get("late"):
        return "false"          # a drained channel delivered something after the last step
    return head + "run_ok init %s" % _lst(steps)


def show(c, o):
    t = model_term(c, o)
    if "run_ok init" not in t:
        i = t.index("agree_consts")
        if "agree_deferred" in t:
            j = t.index("agree_deferred")
            return t[:i] + "run_deferred init " + t[j + len("agree_deferred"):t.rindex(" [")]
        j = t.index("run_items init")
        return t[:i] + "diag init (expand init " + t[j + len("run_items init"):] + ")"
    i = t.index("agree_consts")
    j = t.index("run_ok init")
    return t[:i] + "(" + t[i:j - 4] + ", diag init " + t[j + len("run_ok init"):] + ")"


def _bucket(n, maxp):
    return 0 if n == 0 else 1 if n < maxp else 2 if n == maxp else 3


def nontrivial(c, o):
    if o is None or "panic" in o:
        return None
    maxp = int(o["consts"][0])
    kinds = tuple(sorted(st["op"]["op"] for st in o["steps"]))[:12]
    mo = max([len(st["ong"]) for st in o["steps"]] + [0])
    mq = max([len(st["tbf"]) for st in o["steps"]] + [0])
    ev = any(st["events"] for st in o["steps"])
    if mo == 0 and mq == 0:
        return None
    return (kinds, _bucket(mo, maxp), min(mq // 8, 5), ev, c["kind"])


def run(ctx):
    ctx.regen_consts()
    ctx.prove("props/C08.v", THEOREMS, extra_trusted=[
        "model coq/model/Fetcher.v (hand-written transcription + acceptor) tied to "
        "ant-networking/src/replication_fetcher.rs by this run's step-by-step correspondence",
        "translator tools/consts.d/fetcher.py: MAX_PARALLEL_FETCH (= K_VALUE of the vendored libp2p-kad), "
        "FETCH_TIMEOUT, PENDING_TIMEOUT re-read from the source; the harness reports the compiled values",
        "hook ant_networking::verif_hooks::replication_fetcher (wrapper, dumps, age), harness/crates/c08, "
        "tools/props/C08.py (generator, oracle, renderer)"])
    # auxiliary (not part of C08's verdict): the translation of the bridge to C09's model/Replication.v lives
    # in proofs/FetcherBridgeRepl.v and is meant to be pinned by props/C09.v; build it so that it cannot rot
    # unnoticed, but a change of C09's model file must not fail C08
    ok_aux, log_aux = ctx.coq_make(["proofs/FetcherBridgeRepl.v"])
    ctx.log("auxiliary proofs/FetcherBridgeRepl.v (bridge to model/Replication.v): %s"
            % ("builds" if ok_aux else "DOES NOT BUILD: " + log_aux[-600:]))
    binary = ctx.cargo_build("c08")
    ctx.c08_consts = read_consts()
    peers = {}

    def c08_peer(seed):
        # the driver's PeerId for a key-pair seed (ed25519 is not available to the generator)
        if seed not in peers:
            r = ctx.run_harness(binary, [{"mode": "peerinfo", "kp_seed": seed}]) if binary else None
            peers[seed] = r[0]["peer"] if r and r[0] and "peer" in r[0] else "00"
        return peers[seed]
    ctx.c08_peer = c08_peer
    cases = ctx.corpus()
    if not ctx.replay:
        cases = [retime(c, ctx.c08_consts) for c in cases] + gen(ctx)
    # The model is evaluated against a private snapshot of the four compiled libraries it needs: the coq/
    # directory is shared, and a concurrent check of another property may regenerate gen/Consts.v (and rebuild
    # Consts.vo) in the middle of a long evaluation, which coqc reports as "inconsistent assumptions".
    from vpc import core
    snap = make_snapshot(ctx)
    old = core.COQ
    if snap:
        core.COQ = snap
    try:
        ctx.pipeline(cases, binary, oracle, model_term, IMPORTS, nontrivial=nontrivial, show=show, shard_size=24,
                     relation="ReplicationFetcher::{add_keys,next_keys_to_fetch,notify_*,set_*} steps accepted by "
                              "Fetcher.step_ok (run_ok init trace)")
    finally:
        core.COQ = old
        if snap:
            import shutil
            shutil.rmtree(snap, ignore_errors=True)


def make_snapshot(ctx):
    """copy lib/Strs, lib/Harness, gen/Consts, model/Fetcher (.vo) taken under the coq lock into a private
    directory with the same logical layout, and check that they load together"""
    import os
    import shutil
    from vpc import core
    d = os.path.join(core.CACHE, "c08_eval_%d" % os.getpid())
    for attempt in range(4):
        with core.Lock("coq"):
            shutil.rmtree(d, ignore_errors=True)
            for sub, names in (("lib", ["Strs", "Harness"]), ("gen", ["Consts"]), ("model", ["Fetcher"])):
                os.makedirs(os.path.join(d, sub))
                for n in names:
                    src = os.path.join(core.COQ, sub, n + ".vo")
                    if os.path.exists(src):
                        shutil.copy(src, os.path.join(d, sub, n + ".vo"))
            os.makedirs(os.path.join(d, "cases"))
        with open(os.path.join(d, "cases", "probe.v"), "w") as f:
            f.write("Require Import V.lib.Strs V.lib.Harness V.model.Fetcher.\n")
        rc, out = core.sh("timeout 120 coqc -noglob -Q . V cases/probe.v", cwd=d, timeout=150)
        if rc == 0:
            return d
        ctx.log("snapshot of the compiled model is not consistent yet (%s); rebuilding" % out.strip()[-200:])
        ctx.coq_make(["props/C08.v"])
    shutil.rmtree(d, ignore_errors=True)
    return None


def read_consts():
    import os
    import re
    from vpc import core
    txt = open(os.path.join(core.COQ, "gen", "Consts.v")).read()
    vals = []
    for name in ("fetcher_max_parallel", "fetcher_fetch_timeout_ms", "fetcher_pending_timeout_ms"):
        m = re.search(r"Definition %s : N := (\d+)\." % name, txt)
        vals.append(int(m.group(1)) if m else {"fetcher_max_parallel": 20, "fetcher_fetch_timeout_ms": 20000,
                                               "fetcher_pending_timeout_ms": 900000}[name])
    return vals
