"""C17 -- parsers of untrusted text and bytes never crash; formatter output parses back.

Parsers driven (real code, under catch_unwind, debug profile with overflow checks):
RegisterAddress::from_hex/to_hex, ScratchpadAddress::from_hex/to_hex, str_to_addr/addr_to_str,
DataMapChunk::from_hex/to_hex, decrypt_private_key/encrypt_private_key, PortRange::parse/validate,
increment_port_option, AttoTokens::from_str, craft_valid_multiaddr_from_str, load_cache_data,
NodeRegistry::load/from_json, RecordHeader::from_record."""
import json
import os
import re
from vpc.core import cN, cstr, cbytes, clist, copt, cbool

IMPORTS = "Require Import V.model.Amount V.model.Parsers V.model.BootCache."
THEOREMS = [
    "no_panic_reg_from_hex", "reg_format_parse_roundtrip", "reg_from_hex_accepts_iff",
    "no_panic_scratch_from_hex", "scratch_format_parse_roundtrip",
    "no_panic_str_to_addr", "addr_format_parse_roundtrip",
    "no_panic_datamap_from_hex", "datamap_format_parse_roundtrip",
    "no_panic_decrypt_private_key", "decrypt_encrypt_roundtrip",
    "no_panic_port_parse", "no_panic_port_validate", "no_panic_port_parse_validate",
    "port_format_parse_roundtrip", "port_validate_accepts_iff",
    "no_panic_increment_port", "no_panic_amount_from_str",
    "no_panic_craft_from_str", "no_panic_load_cache", "no_panic_registry_load",
    "no_panic_header_from_record", "no_panic_record_payload",
    "reg_from_hex_unfixed_refuted", "decrypt_unfixed_refuted", "port_validate_unfixed_refuted",
    "increment_port_unfixed_refuted", "load_cache_unfixed_refuted",
    "no_panic_expiry_test", "expiry_by_addition_refuted", "str_slice_prefix_refuted",
    "registry_save_load_roundtrip", "write_without_truncate_refuted",
    "amount_format_parse_roundtrip",
    "sync_counters_bounded", "sync_wrapping_refuted",
    "cache_write_then_read", "cache_write_empty_wipes", "write_skip_empty_refuted",
    "no_panic_check_port_availability", "check_port_availability_refuses_iff", "port_availability_exclusive_refuted",
    "no_panic_try_deserialize_record", "try_deserialize_record_refuses_short", "payload_slice_first_refuted",
]
RULE = ("per text parser: non-ASCII inputs whose BYTE length is exactly L for L around every special length (hex "
        "lengths 64/66/96/98/160/162, short port / amount / multiaddress lengths) with a 2-, 3- or 4-byte character "
        "starting at byte offsets 0..4 and ending at the end; 0x/0X prefixes, blanks, quotes, signs around valid values; "
        "cache files with last_seen at 0, 1, 2^31, 2^32, 2^62, i64::MAX-{0,1,59..86401,10^9}, u64 values and nanos "
        "serde rejects, and within 1-3 s of now / the expiry boundary; "
        "cache-file merge path (through the c18 store harness): file entries with counters 0, 1, 2, 2^15, 2^16, 2^31, u32::MAX-{0,1,2} "
        "x the same address in memory with a later last_seen, flush + load, two rounds; non-cache files that are valid UTF-8 with a "
        "multi-byte character across byte offsets 1..300, 1024, 4096; "
        "formatter -> parser over the whole value domain: amounts of every bit length 1..256 (2^k-1, 2^k, 2^k+1, random), "
        "2^k * 10^18 and neighbours, 10^k neighbours, MAX; canonical port texts for 2^k-1/2^k/2^k+1; "
        "PortRange consumers: check_port_availability / get_start_port_if_applicable for ranges with start 0, end 65535, "
        "start = end, end < start and neighbours against 0-3 recorded services whose ports sit on / next to the bounds; "
        "try_deserialize_record::<T> for the 8 types used in the code base on every length 0..SIZE+2, truncations of a valid "
        "chunk record, msgpack-looking and random bytes; "
        "cache files: write() of freshly built stores on ONE path -- populated, EMPTY, through the `first` constructor -- in every "
        "order, load after each; "
        "registry files: save -> save -> ... -> load on ONE path over any previous content, serialised sizes growing, equal, "
        "shrinking by one byte and by a lot; "
        "per parser: empty / one-short / exact / one-long / far-too-long decoded lengths around every fixed "
        "offset (8, 20, 32, 48, 80 bytes; 3 header bytes), odd length, upper/mixed case, one non-hex or "
        "non-ASCII character, valid values from the real formatter; ports: every shape of `a`, `a-b` with "
        "0/1/65534/65535/65536 neighbours, signs, blanks, empty pieces, extra pieces, counts around "
        "end-start+1 and its 16-bit wrap; multiaddresses: random protocol sequences (repeats, any order) "
        "and garbage; cache / registry files: valid seeds with boundary counters, structural mutations, "
        "truncations, byte flips, non-UTF-8; a case is distinct/non-trivial by (op, outcome, length class, "
        "generator family)")
ASSUMPTIONS = [
    "the harness binaries install a tracing subscriber at TRACE level that formats every event into a sink, as nodes and "
    "clients always do: log-argument evaluation is part of what the parsers do in production",
    "third-party decoders are total oracles of the model and are only exercised under catch_unwind: blsttc "
    "PublicKey::from_bytes, ring PBKDF2 + ChaCha20-Poly1305 opening, Multiaddr::from_str, PeerId::from_str, "
    "serde_json / rmp-serde decoding of CacheData, NodeRegistry and RecordHeader; the `hex` crate is modelled in full",
    "quick tier: the harness runs the debug profile (overflow checks on). Thorough tier: the arithmetic-sensitive families "
    "(ports, increment_port_option, cache files / failure_rate, amounts, length checks) run a second time through the "
    "harness built in the release profile (overflow-checks = false, debug-assertions = false) and are compared with the "
    "model again; the wrapping instance of the arithmetic primitives (`arith_mode` Release) is what the *_unfixed_refuted "
    "lemmas state and what `C17_UNFIXED=1` compares a tree without the repairs with",
    "ant-cli is a binary crate: wallet/encryption.rs and wallet/error.rs are compiled into the harness from "
    "the repository's files with #[path]",
    "cache-file times are written relative to the harness clock with a 5 s guard band around `now` and the "
    "expiry boundary",
]
UNFIXED = bool(os.environ.get("C17_UNFIXED"))   # validate the *_unfixed model against a tree without the fixes
RELEASE = False      # set while the cases of the release-profile (wrapping arithmetic) harness are judged
RELEASE_OPS = ("amount_roundtrip", "port_parse", "port_validate", "incr_port", "port_avail", "record_payload", "load_cache", "amount_from_str", "header_from_record",
               "reg_from_hex", "scratch_from_hex", "str_to_addr", "datamap_from_hex", "registry_load")


def variant():
    """the transcription the arithmetic-sensitive agree_* terms compare with"""
    if not UNFIXED:
        return "Fixed"
    return "(Unfixed Release)" if RELEASE else "(Unfixed Debug)"

U16 = 65536
U32 = 2 ** 32
B58 = "123456789ABCDEFGHJKLMNPQRSTUVWXYZabcdefghijkmnopqrstuvwxyz"


def b58(b):
    n = int.from_bytes(b, "big")
    s = ""
    while n:
        n, r = divmod(n, 58)
        s = B58[r] + s
    return "1" * (len(b) - len(b.lstrip(b"\0"))) + s


def peer_id(rng):
    """(text, multihash bytes) of a PeerId: identity multihash of an ed25519 protobuf key, or sha2-256"""
    if rng.random() < 0.7:
        mh = bytes([0x00, 0x24, 0x08, 0x01, 0x12, 0x20]) + bytes(rng.getrandbits(8) for _ in range(32))
    else:
        mh = bytes([0x12, 0x20]) + bytes(rng.getrandbits(8) for _ in range(32))
    return b58(mh), mh


def S(s):
    return {"bytes": list(s.encode("utf-8"))}


# ---------------------------------------------------------------------------------------- generators
def hex_inputs(rng, lens, valid=()):
    out = ["", "0", "00", "0g", "g0", "zz", " 00", "00 ", "0x00", "é", "00é", "éé"]
    for n in lens:
        b = bytes(rng.getrandbits(8) for _ in range(n))
        h = b.hex()
        out += [h, h.upper(), h + "0", h[:-1] if h else "0", h + "zz"]
        if h:
            i = rng.randrange(len(h))
            out.append(h[:i] + rng.choice("gGxZ -_é") + h[i + 1:])
            out.append("".join(c.upper() if rng.random() < 0.5 else c for c in h))
    out += list(valid)
    for v in valid:
        out += [v.upper(), v[:-2], v + "00", v[:-1], "0" + v, v[2:]]
        i = rng.randrange(len(v))
        out.append(v[:i] + ("0" if v[i] != "0" else "1") + v[i + 1:])
    return out


MULTIBYTE = ["\u00e9", "\u20ac", "\U0001f600"]      # 2-, 3- and 4-byte UTF-8 characters


def utf8_probes(special, filler="0", deltas=(-2, 0, 2), offsets=(0, 1, 2, 3, 4)):
    """texts whose BYTE length is exactly L (for L around every length a parser may treat specially) with one
    multi-byte character starting at every small byte offset, and one ending right at the end: what `&s[a..b]`
    on a str needs to hit a non-boundary"""
    out = []
    for L in sorted({sp + d for sp in special for d in deltas if sp + d > 0}):
        for ch in MULTIBYTE:
            w = len(ch.encode("utf-8"))
            for k in offsets:
                if k + w <= L:
                    out.append(filler * k + ch + filler * (L - k - w))
            if L - w > 4:
                out.append(filler * (L - w) + ch)                     # straddles the end
                out.append(filler * (L - w - 1) + ch + filler)
    return out


def tolerance_probes(values):
    """well-meant tolerance paths: radix prefixes and surrounding blanks around otherwise valid texts"""
    out = []
    for v in values:
        out += ["0x" + v, "0X" + v, "0x" + v[2:], "0X" + v[2:], " " + v, v + " ", " " + v + " ", "\t" + v, v + "\n", v + "\r\n",
                "\u00a0" + v, v + "\u3000", "+" + v, "#" + v, '"' + v + '"']
    return out


def port_strings(rng, n):
    edge = [0, 1, 2, 9, 10, 80, 1024, 12000, 32767, 32768, 65534, 65535, 65536, 65537, 99999, 4294967296]
    out = ["", "-", "--", "+", "+-", "-+", "1-", "-1", "1--2", "1-2-3", "1-2-", "-1-2", " 1", "1 ", "1 -2", "1- 2",
           "0x10", "1e3", "١", "１", "+1", "+1-+2", "++1", "+1-2", "1-+2", "1-++2", "-0", "+0", "0-0", "0-1",
           "00001", "000000000000000000000080", "0000000000000000000000001-0000000000000000000000002",
           "65535-65535", "65535-65534", "65534-65535", "0-65535", "1-65535", "0-65534", "0-65536", "65536-1",
           "99999999999999999999999999", "1-99999999999999999999999999", "a", "a-b", "1-b", "a-2", "1−2",
           "1\t-2", "1\n", "é", "12000-12005", "12005-12000", "5-5"]
    for a in edge:
        out.append(str(a))
        for b in edge:
            if rng.random() < 0.35:
                out.append("%d-%d" % (a, b))
    while len(out) < n:
        a, b = rng.randrange(0, 70000), rng.randrange(0, 70000)
        s = rng.choice(["%d-%d" % (a, b), "%d" % a, "%d-%d" % (min(a, b) % U16, max(a, b) % U16)])
        if rng.random() < 0.25:
            i = rng.randrange(len(s) + 1)
            s = s[:i] + rng.choice(["-", "+", " ", "x", "0", "_", ".", "é"]) + s[i:]
        out.append(s)
    return out


def amount_strings(rng, n):
    out = ["", ".", "0", "0.", ".0", "1", "1.0", "0x10", "0b1", "1_0", "_", "+1", "-1", " 1", "1 ", "1.0x1", "1..1",
           "1.1.1", "0.000000000000000001", "0.0000000000000000001", "1e3", "١", "00", "007.5",
           "115792089237316195423570985008687907853269984665640564039457.584007913129639935",
           "115792089237316195423570985008687907853269984665640564039457.584007913129639936",
           "115792089237316195423570985008687907853269984665640564039457.6",
           "115792089237316195423570985008687907853269984665640564039458",
           "0." + "9" * 80, "9" * 80 + ".1", "é", "1.é"]
    while len(out) < n:
        w = str(rng.getrandbits(rng.choice([8, 64, 196, 198, 200])))
        f = "".join(rng.choice("0123456789") for _ in range(rng.choice([0, 1, 9, 17, 18, 19, 25])))
        s = w + ("." + f if rng.random() < 0.8 else "")
        if rng.random() < 0.3:
            i = rng.randrange(len(s) + 1)
            s = s[:i] + rng.choice(["_", "x", ".", " ", "+", "-", "e", "a"]) + s[i:]
        out.append(s)
    return out


def rand_component(rng, pid=None):
    """(text, proto as the harness reports it)"""
    k = rng.choice(["ip4", "ip4", "udp", "udp", "tcp", "tcp", "quic-v1", "ws", "p2p", "p2p", "ip6", "dns", "quic",
                    "p2p-circuit", "wss", "xws"])
    if k == "ip4":
        a = [rng.randrange(256) for _ in range(4)]
        return "/ip4/%d.%d.%d.%d" % tuple(a), ["ip4", (a[0] << 24) | (a[1] << 16) | (a[2] << 8) | a[3]]
    if k in ("udp", "tcp"):
        p = rng.choice([0, 1, 80, 65535, rng.randrange(U16)])
        return "/%s/%d" % (k, p), [k, p]
    if k == "quic-v1":
        return "/quic-v1", ["quic-v1"]
    if k == "ws":
        return "/ws", ["ws", [47]]
    if k == "xws":
        return "/x-parity-ws/%2Fa%2Fb", ["ws", list(b"/a/b")]
    if k == "p2p":
        t, mh = pid if pid and rng.random() < 0.7 else peer_id(rng)
        return "/p2p/" + t, ["p2p", mh.hex()]
    if k == "ip6":
        return "/ip6/::1", ["other", list(b"/ip6/::1")]
    if k == "dns":
        return "/dns/foo.example", ["other", list(b"/dns/foo.example")]
    if k == "quic":
        return "/quic", ["other", list(b"/quic")]
    if k == "wss":
        return "/wss", ["other", list(b"/wss")]
    return "/p2p-circuit", ["other", list(b"/p2p-circuit")]


def multiaddr_strings(rng, n):
    pid = peer_id(rng)
    out = ["", "/", "//", "ip4/1.2.3.4", "/ip4", "/ip4/999.1.1.1", "/ip4/1.2.3.4/udp", "/ip4/1.2.3.4/udp/70000",
           "/ip4/1.2.3.4/udp/-1", "/p2p/xyz", "/p2p/", "/ip4/1.2.3.4/tcp/80/p2p/" + pid[0][:-3], "garbage", "é",
           "/ip4/1.2.3.4/udp/1/quic-v1/p2p/" + pid[0], "/ip4/1.2.3.4/tcp/1/ws/p2p/" + pid[0],
           "/ip4/1.2.3.4/tcp/1/p2p/" + pid[0], "/ip4/1.2.3.4/udp/1/p2p/" + pid[0], "/ip4/1.2.3.4/udp/1/quic-v1",
           "/ip4/1.2.3.4/p2p/" + pid[0], "/udp/1/quic-v1/p2p/" + pid[0],
           "/p2p/" + pid[0] + "/quic-v1/udp/7/tcp/8/ws/ip4/9.9.9.9/ip4/1.1.1.1/udp/9",
           "/ip4/1.2.3.4/tcp/1/ws/udp/5/p2p/" + pid[0] + "/p2p/" + peer_id(rng)[0],
           "/ip4/1.2.3.4/udp/1/quic-v1/p2p/" + pid[0] + "/p2p-circuit/p2p/" + peer_id(rng)[0],
           "/unix/tmp/x", "/memory/5", "/ip4/1.2.3.4/tcp/1/x-parity-ws/%2Fp/p2p/" + pid[0]]
    while len(out) < n:
        k = rng.choice([1, 2, 3, 4, 4, 5, 6, 8])
        s = "".join(rand_component(rng, pid)[0] for _ in range(k))
        if rng.random() < 0.15:
            i = rng.randrange(len(s) + 1)
            s = s[:i] + rng.choice(["/", "x", "//", " ", "%", "é"]) + s[i:]
        out.append(s)
    return out


def good_addr(rng, pid):
    ip = [rng.randrange(256) for _ in range(4)]
    ipn = (ip[0] << 24) | (ip[1] << 16) | (ip[2] << 8) | ip[3]
    port = rng.randrange(1, U16)
    shape = rng.randrange(4)
    base = "/ip4/%d.%d.%d.%d" % tuple(ip)
    if shape == 0:
        return base + "/udp/%d/quic-v1/p2p/%s" % (port, pid[0]), [["ip4", ipn], ["udp", port], ["quic-v1"], ["p2p", pid[1].hex()]]
    if shape == 1:
        return base + "/udp/%d/p2p/%s" % (port, pid[0]), [["ip4", ipn], ["udp", port], ["p2p", pid[1].hex()]]
    if shape == 2:
        return base + "/tcp/%d/ws/p2p/%s" % (port, pid[0]), [["ip4", ipn], ["tcp", port], ["ws", [47]], ["p2p", pid[1].hex()]]
    return base + "/tcp/%d/p2p/%s" % (port, pid[0]), [["ip4", ipn], ["tcp", port], ["p2p", pid[1].hex()]]


def cache_case(rng, deep=False, f22=False, extreme=False):
    """a structured cache file: JSON text with @S<offset>@ time placeholders + the data the text denotes"""
    expiry = rng.choice([60, 3600, 86400, 86400, 10 ** 9])
    max_peers = rng.choice([0, 1, 2, 3, 5, 1500])
    max_addrs = rng.choice([0, 1, 2, 3, 6, 6])
    npeers = rng.choice([0, 1, 2, 3, 4, 6, 9] if not deep else [8, 20, 60])
    counters = [0, 0, 1, 1, 2, 3, 5, 2 ** 31 - 1, 2 ** 31, U32 - 2, U32 - 1] if f22 or rng.random() < 0.25 else [0, 1, 1, 2, 3, 5, 100]

    def offset():
        # the harness samples now_secs just before the call, so the call's clock is in [now_secs, now_secs + 1s + run time):
        # -1 and -(expiry+1) are decided whatever the delay; +3 and -(expiry-3) leave 2 s of slack
        r = rng.random()
        if r < 0.12:
            return rng.choice([3, 5, 6, 3600, 10 ** 6])                    # in the future
        if r < 0.35:
            return -(expiry + rng.choice([1, 2, 5, 6, 60, 10 ** 5]))         # expired
        lo = min(expiry - 3, 10 ** 6)
        return -rng.choice([1, 2, 5, 6, 7, max(1, lo), max(1, lo - 1), max(1, rng.randrange(1, max(2, lo + 1)))])
    I64 = 2 ** 63 - 1
    absolute = [0, 1, 2 ** 31, 2 ** 32, 2 ** 62] + [I64 - k for k in (0, 1, 59, 60, 61, 3599, 3600, 86399, 86400, 86401, 10 ** 9)]
    peers, data = {}, []
    seen_pool = [offset() for _ in range(3)]
    for _ in range(npeers):
        pid = peer_id(rng)
        n = rng.choice([0, 1, 1, 2, 3, 7, 8] if not f22 else [7, 8, 9])
        lst, dl = [], []
        for _ in range(n):
            if rng.random() < 0.85:
                t, pr = good_addr(rng, pid)
            else:
                comps = [rand_component(rng, pid) for _ in range(rng.choice([1, 2, 3]))]
                t, pr = "".join(c[0] for c in comps), [c[1] for c in comps]
            if lst and rng.random() < 0.1:
                t, pr = lst[0]["addr"], dl[0]["protos"]                     # duplicate address
            s, f = rng.choice(counters), rng.choice(counters)
            if rng.random() < 0.6 and f > s:
                s, f = f, s
            off = rng.choice(seen_pool) if rng.random() < 0.3 else offset()  # ties between peers
            nanos = rng.choice([0, 0, 1000000, 999000000, 1000000 * rng.randrange(1000)])   # distinct times differ by >= 1 ms
            if extreme and rng.random() < 0.4:
                # absolute times at the ends of what SystemTime / serde can hold (far from now and from the expiry boundary)
                a = rng.choice(absolute)
                nanos = rng.choice([0, 999000000, 999999999])
                lst.append({"addr": t, "success_count": s, "failure_count": f,
                            "last_seen": {"secs_since_epoch": a, "nanos_since_epoch": nanos}})
                dl.append({"protos": pr, "s": s, "f": f, "abs": a, "nanos": nanos})
                continue
            lst.append({"addr": t, "success_count": s, "failure_count": f,
                        "last_seen": {"secs_since_epoch": "@S%d@" % off, "nanos_since_epoch": nanos}})
            dl.append({"protos": pr, "s": s, "f": f, "off": off, "nanos": nanos})
        peers[pid[0]] = lst
        data.append({"peer": pid[0], "addrs": dl})
    text = json.dumps({"peers": peers, "last_updated": {"secs_since_epoch": "@S-1@", "nanos_since_epoch": 0},
                       "network_version": "1_0.1"})
    text = re.sub(r'"(@S-?\d+@)"', r"\1", text)
    return {"op": "load_cache", "text": text, "data": data, "max_peers": max_peers, "max_addrs": max_addrs,
            "expiry_secs": expiry, "fam": "structured"}


def extreme_time_case(rng):
    """a well-formed cache file whose last_seen fields hold values at and beyond what serde / SystemTime accept, or
    within a second of `now` / the expiry boundary (result depends on the clock: judged by the oracle only)"""
    c = cache_case(rng)
    exp = c["expiry_secs"]
    secs = ["@S0@", "@S1@", "@S2@", "@S-%d@" % exp, "@S-%d@" % (exp - 1), "@S-%d@" % (exp - 2), "0", "1", str(2 ** 31), str(2 ** 32),
            str(2 ** 62), str(2 ** 63 - 1), str(2 ** 63 - 1 - exp), str(2 ** 63 - exp), str(2 ** 63), str(2 ** 64 - 1), str(2 ** 64),
            "-1", "1e18", "9223372036854775807.0"]
    nanos = ["0", "999999999", "1000000000", "4294967295", "4294967296", "-1", "1999999999"]
    text = re.sub(r'"secs_since_epoch": (@S-?\d+@|\d+), "nanos_since_epoch": \d+',
                  lambda m: '"secs_since_epoch": %s, "nanos_since_epoch": %s' % (
                      (rng.choice(secs), rng.choice(nanos)) if rng.random() < 0.5 else (m.group(1), "0")), c["text"])
    c.pop("data")
    c["text"], c["fam"] = text, "extreme"
    return c


def mutate_text(rng, text):
    r = rng.random()
    if r < 0.25:
        return text[:rng.randrange(len(text) + 1)]
    if r < 0.45:
        i = rng.randrange(len(text))
        return text[:i] + rng.choice(['"', "{", "}", "[", "]", ",", ":", "0", "x", "\\", "é", "-", "null", "1e999"]) + text[i + 1:]
    if r < 0.75:
        nums = list(re.finditer(r"\d+", text))
        if nums:
            m = rng.choice(nums)
            v = rng.choice(["-1", "4294967295", "4294967296", "18446744073709551615", "18446744073709551616",
                            "1e30", "0.5", "999999999999999999999999999999", "1000000000", "null", '"7"'])
            return text[:m.start()] + v + text[m.end():]
    if r < 0.9:
        strs = list(re.finditer(r'"[^"]*"', text))
        if strs:
            m = rng.choice(strs)
            v = rng.choice(['""', '"/"', '"/ip4/1.2.3.4"', '"xx"', "null", "5", '"\\u0000"', '"12D3KooW"', "[]", "{}"])
            return text[:m.start()] + v + text[m.end():]
    return rng.choice(["", "null", "[]", "{}", "0", '"', "{\"peers\":null}", "{\"peers\":{}}", " ", "﻿{}"])


REGISTRY_SEEDS = [
    '{"auditor":null,"daemon":null,"environment_variables":null,"faucet":null,"nat_status":null,"nodes":[],"save_path":"/x/reg.json"}',
    '{"auditor":null,"daemon":null,"environment_variables":[["A","b"]],"faucet":null,"nat_status":"Public","nodes":[{'
    '"antnode_path":"/bin/antnode","auto_restart":true,"connected_peers":["12D3KooWRBhwfeP2Y4TCx1SM6s9rUoHhR5STiGwxBhgFRcw3UERE"],'
    '"data_dir_path":"/d","evm_network":"ArbitrumOne","home_network":false,'
    '"listen_addr":["/ip4/127.0.0.1/udp/12000/quic-v1"],"log_dir_path":"/l","log_format":null,'
    '"max_archived_log_files":3,"max_log_files":4,"metrics_port":13000,"owner":"me","network_id":1,'
    '"node_ip":"127.0.0.1","node_port":12000,"number":1,'
    '"peer_id":"12D3KooWRBhwfeP2Y4TCx1SM6s9rUoHhR5STiGwxBhgFRcw3UERE",'
    '"peers_args":{"first":false,"addrs":[],"network_contacts_url":[],"local":false,"disable_mainnet_contacts":false,'
    '"ignore_cache":false,"bootstrap_cache_dir":null},"pid":1000,'
    '"rewards_address":"0x03B770D9cD32077cC0bF330c13C114a87643B124","reward_balance":"1000000000000000000",'
    '"rpc_socket_addr":"127.0.0.1:8081","service_name":"antnode1","status":"Running","upnp":false,"user":"ant",'
    '"user_mode":false,"version":"0.1.0"}],"save_path":"/x/reg.json"}',
]


PAYLOAD_TYPES = ["chunk", "scratchpad", "transactions", "register", "paid_chunk", "paid_scratchpad", "paid_transaction",
                 "paid_register"]


def domain_amounts(rng, per_bit):
    """boundary values across the WHOLE U256 domain: every bit length 1..256 (2^k-1, 2^k, 2^k+1 and random values of that
    length), whole-token multiples 2^k * 10^18 and their neighbours, powers of ten, MAX"""
    M = 2 ** 256
    xs = {0, 1, M - 1, M - 2, M - 10 ** 18, (M // 10 ** 18) * 10 ** 18, (M // 10 ** 18) * 10 ** 18 - 1}
    for k in range(0, 257):
        xs |= {2 ** k - 1, 2 ** k, 2 ** k + 1}
        for _ in range(per_bit):
            if k:
                xs.add((1 << (k - 1)) | rng.getrandbits(k - 1) if k > 1 else 1)
        t = 2 ** k * 10 ** 18
        xs |= {t - 1, t, t + 1, t + 10 ** 17, t + 999999999999999999}
    for k in range(0, 78):
        xs |= {10 ** k - 1, 10 ** k, 10 ** k + 1}
    return sorted(x for x in xs if 0 <= x < M)


def port_avail_cases(rng, n):
    """every consumer of a PortRange: check_port_availability / get_start_port_if_applicable with boundary ranges
    (start 0, end 65535, start = end, end < start, neighbours) against a few recorded service ports"""
    node_json = json.dumps(json.loads(REGISTRY_SEEDS[1])["nodes"][0])
    edge = [0, 1, 2, 1023, 8081, 12000, 12005, 13000, 32767, 32768, 65533, 65534, 65535]
    out = []

    def nodes_for(a, b):
        r = rng.random()
        cand = [a, b, (a + b) // 2, max(a - 1, 0), min(b + 1, 65535), 0, 65535, 65534, rng.randrange(U16)]
        if r < 0.2:
            return []
        lst = []
        for _ in range(rng.choice([1, 2, 3])):
            lst.append([rng.choice([None, rng.choice(cand)]), rng.choice([None, rng.choice(cand)]), rng.choice(cand + [8081])])
        return lst
    for a in edge:
        for b in edge:
            if rng.random() < (0.5 if (b == 65535 or a == 0 or a == b) else 0.12):
                out.append({"op": "port_avail", "range": [a, b], "nodes": nodes_for(min(a, b), max(a, b)), "node_json": node_json})
    for p in [0, 1, 8081, 65534, 65535]:
        out.append({"op": "port_avail", "single": p, "nodes": nodes_for(p, p), "node_json": node_json})
    for t in ["0-65535", "65530-65535", "65534-65535", "1-65535", "0-1", "12000-12005", "+0-+65535", "65535"]:
        out.append(dict(S(t), op="port_avail", nodes=nodes_for(65531, 65535), node_json=node_json))
        out.append(dict(S(t), op="port_avail", nodes=[[None, None, 65535]], node_json=node_json))
        out.append(dict(S(t), op="port_avail", nodes=[], node_json=node_json))
    while len(out) < n:
        a, b = rng.randrange(U16), rng.randrange(U16)
        if rng.random() < 0.8 and a > b:
            a, b = b, a
        out.append({"op": "port_avail", "range": [a, b], "nodes": nodes_for(min(a, b), max(a, b)), "node_json": node_json})
    return out


def payload_cases(rng, n):
    """try_deserialize_record::<T> for every T of the code base: every length 0..SIZE+2, truncations of a valid chunk
    record at every length, msgpack-looking and random bytes"""
    out = []
    short = [[], [0x91], [0x91, 1], [0x91, 1, 0xc0], [0x91, 1, 0x92, 0xc4], [0, 0], [0xff], [0x91, 1, 0x90], [0x91, 2, 0x90],
             [0x91, 1, 0xc4, 0], [0x91, 1, 0x92, 0x90, 0x90]]
    for t in PAYLOAD_TYPES:
        for b in short:
            out.append({"op": "record_payload", "t": t, "bytes": b})
        for cut in [0, 1, 2, 3, 4, 5, 10, 40, None]:
            out.append({"op": "record_payload", "t": t, "valid_chunk": [rng.getrandbits(8) for _ in range(rng.choice([0, 1, 50]))], "cut": cut})
    while len(out) < n:
        out.append({"op": "record_payload", "t": rng.choice(PAYLOAD_TYPES),
                    "bytes": [rng.getrandbits(8) for _ in range(rng.choice([0, 1, 2, 3, 4, 8, 64]))]})
    return out


def cache_save_sequences(rng, n):
    """write() of freshly built stores (populated, EMPTY, the `first` constructor) over one path, load after each"""
    def adds(k):
        out = []
        for _ in range(k):
            p = peer_id(rng)
            out.append(good_addr(rng, p)[0])
        return out
    shapes = [[3, 0], [1, 0, 2], [0], [0, 0], [5, "first"], ["first"], [2, "first", 1], [4, 0, "first", 0], [30, 1], [1, 30, 0], [2, 2]]
    out = []
    while len(out) < n:
        sh = shapes[len(out)] if len(out) < len(shapes) else [rng.choice([0, 0, 1, 3, 12, "first"]) for _ in range(rng.choice([2, 3, 4]))]
        out.append({"op": "cache_save_seq", "shape": [str(x) for x in sh],
                    "steps": [({"first": True} if x == "first" else {"adds": adds(x)}) for x in sh]})
    return out


def registry_variants(rng):
    """registry JSON texts (formatter inputs) of many different serialised lengths, incl. neighbours differing by 1 byte"""
    base0, base1 = json.loads(REGISTRY_SEEDS[0]), json.loads(REGISTRY_SEEDS[1])
    node = base1["nodes"][0]

    def reg(nodes=0, env=None, nat=None, version="0.1.0"):
        r = dict(base0)
        r["environment_variables"] = env
        r["nat_status"] = nat
        r["nodes"] = [dict(node, number=i + 1, service_name="antnode%d" % (i + 1), version=version) for i in range(nodes)]
        return json.dumps(r, separators=(",", ":"))
    vs = {"empty": reg(), "env1": reg(env=[["A", "b"]]), "env2": reg(env=[["A", "bb"]]), "env1c": reg(env=[["A", "c"]]),
          "envbig": reg(env=[["ANT_LOG", "all"], ["RUST_BACKTRACE", "full"], ["X", "y" * 300]]),
          "nat": reg(nat="Private"), "n1": reg(nodes=1), "n1v": reg(nodes=1, version="0.1.01"), "n2": reg(nodes=2),
          "n3env": reg(nodes=3, env=[["A", "b"]], nat="Public"), "n6": reg(nodes=6)}
    return vs


def registry_sequences(rng, n):
    vs = registry_variants(rng)
    fixed = [["env2", "env1"], ["env1", "env2"], ["env1", "env1c"], ["envbig", "empty"], ["empty", "envbig"], ["nat", "empty"],
             ["n2", "n1", "empty"], ["empty", "n3env"], ["n1v", "n1"], ["n1", "n1v"], ["n6", "n1", "n6", "empty"], ["n1", "n1"],
             ["n3env", "n2", "n1", "empty", "n1"], ["empty"], ["n1", "empty", "empty"]]
    out = []
    for names in fixed:
        out.append({"op": "registry_seq", "pre": None, "names": names, "steps": [list(vs[x].encode()) for x in names]})
    keys = sorted(vs)
    pres = [None, list(b"x" * 6000), list(b"{}"), list(b"\xff\xfe garbage " * 200), list(vs["n6"].encode()), []]
    while len(out) < n:
        names = [rng.choice(keys) for _ in range(rng.choice([2, 2, 3, 5]))]
        out.append({"op": "registry_seq", "pre": rng.choice(pres), "names": names, "steps": [list(vs[x].encode()) for x in names]})
    return out


def gen(ctx, valid_pks):
    rng = ctx.rng
    quick = ctx.tier == "quick"
    k = 1 if quick else 8
    cases = []
    # ---- hex addresses
    reg_valid = [bytes(rng.getrandbits(8) for _ in range(32)).hex() + pk for pk in valid_pks[:4]]
    x32 = bytes(rng.getrandbits(8) for _ in range(32)).hex()
    for s in hex_inputs(rng, [0, 1, 8, 31, 32, 33, 47, 48, 49, 79, 80, 80, 81, 96, 160, 1000], reg_valid) + \
            utf8_probes([64, 66, 96, 160, 162]) + tolerance_probes(reg_valid[:1]):
        cases.append(dict(S(s), op="reg_from_hex"))
    for s in hex_inputs(rng, [0, 1, 47, 48, 48, 49, 80, 96], valid_pks[:4]) + \
            utf8_probes([64, 96, 98, 160]) + tolerance_probes(valid_pks[:1]):
        cases.append(dict(S(s), op="scratch_from_hex"))
    for s in hex_inputs(rng, [0, 1, 31, 32, 32, 33, 48, 64], []) + \
            utf8_probes([4, 64, 66, 96, 160]) + tolerance_probes([x32]):
        cases.append(dict(S(s), op="str_to_addr"))
    for s in hex_inputs(rng, [0, 1, 2, 3, 32, 100, 5000], []) + utf8_probes([4, 64, 66]) + tolerance_probes([x32, "00"]):
        cases.append(dict(S(s), op="datamap_from_hex"))
    for i in range(12 * k):
        cases.append({"op": "reg_roundtrip", "seed": rng.getrandbits(40),
                      "meta": bytes(rng.choice([0, 255, rng.getrandbits(8)]) for _ in range(32)).hex()})
        cases.append({"op": "scratch_roundtrip", "seed": rng.getrandbits(40)})
        cases.append({"op": "addr_roundtrip", "x": bytes(rng.choice([0, 255, rng.getrandbits(8)]) for _ in range(32)).hex()})
        cases.append({"op": "datamap_roundtrip",
                      "data": [rng.getrandbits(8) for _ in range(rng.choice([0, 1, 2, 33, 500]))]})
    # ---- encrypted keys: cheap (rejected before the KDF) and expensive (PBKDF2 runs) cases
    pw = list(b"password123")
    for s in hex_inputs(rng, [0, 1, 7, 8, 9, 11, 12, 19], []):
        b = s.encode()
        if len(b) % 2 == 0 and len(b) >= 40 and re.fullmatch(rb"[0-9a-fA-F]*", b):
            continue
        cases.append(dict(S(s), op="decrypt", pw=pw, fam="cheap"))
    for s in utf8_probes([16, 24, 40, 42, 72]) + tolerance_probes(["00" * 19, "00" * 36]):     # none of these is valid hex: no KDF
        cases.append(dict(S(s), op="decrypt", pw=pw, fam="cheap"))
    for n in [20, 20, 21, 35, 36, 37, 100][: (4 if quick else 7)]:
        cases.append(dict(S(bytes(rng.getrandbits(8) for _ in range(n)).hex()), op="decrypt", pw=pw, fam="garbage"))
    pts = [b"", b"a", bytes.fromhex("ac0974bec39a17e36ba4a6b4d238ff944bacb478cbed5efcae784d7bf4f2ff80").hex().encode(),
           "clé \U0001f511".encode(), b"\xff", b"\xc3", b"\xc0\x80", b"\xed\xa0\x80", b"\xf4\x90\x80\x80", b"ok\xfe",
           b"\xe2\x82", b"\xf0\x9f\x92\x96", b"a\x00b"]
    for pt in pts[: (8 if quick else len(pts))] + ([] if quick else [bytes(rng.getrandbits(8) for _ in range(rng.randrange(1, 8))) for _ in range(40)]):
        cases.append({"op": "decrypt_sealed", "pt": list(pt), "pw": rng.choice([pw, [], list("päss".encode())]),
                      "salt": [rng.getrandbits(8) for _ in range(8)], "nonce": [rng.getrandbits(8) for _ in range(12)]})
    for key in ["", "0xabc", "kéy"][: (2 if quick else 3)]:
        cases.append({"op": "encrypt_roundtrip", "key": list(key.encode()), "pw": pw})
    # ---- ports
    for s in port_strings(rng, 220 * k) + utf8_probes([3, 5, 8, 11], filler="1", deltas=(0,)) + \
            utf8_probes([5, 11], filler="-", deltas=(0,), offsets=(0, 1, 2)) + tolerance_probes(["80", "12000-12005", "0-65535"]):
        cases.append(dict(S(s), op="port_parse"))
        m = re.fullmatch(r"\+?(\d+)-\+?(\d+)", s)
        cnts = {0, 1, 2, 65535}
        if m:
            d = int(m.group(2)) - int(m.group(1)) + 1
            cnts |= {d % U16, (d - 1) % U16, (d + 1) % U16, abs(d) % U16}
        for c in sorted(cnts)[: (8 if len(s) < 14 else 2)]:
            cases.append(dict(S(s), op="port_validate", count=c))
    for _ in range(40 * k):
        a = rng.choice([0, 1, 9, 10, 99, 100, 65534, rng.randrange(U16)])
        b = rng.choice([a + 1, 65535, rng.randrange(a + 1, U16 + 1)]) if a < 65535 else 65535
        if a < b <= 65535:
            cases.append(dict(S("%d-%d" % (a, b)), op="port_parse", canon=[1, a, b]))
        cases.append(dict(S("%d" % a), op="port_parse", canon=[0, a, a]))
    for kk in range(0, 17):           # canonical texts across the whole u16 domain
        for p in {max(2 ** kk - 1, 0), min(2 ** kk, 65535), min(2 ** kk + 1, 65535)}:
            cases.append(dict(S("%d" % p), op="port_parse", canon=[0, p, p]))
            if p < 65535:
                cases.append(dict(S("%d-65535" % p), op="port_parse", canon=[1, p, 65535]))
            if p > 0:
                cases.append(dict(S("0-%d" % p), op="port_parse", canon=[1, 0, p]))
    for p in [None, 0, 1, 2, 1023, 32767, 32768, 65533, 65534, 65535] + [rng.randrange(U16) for _ in range(10 * k)]:
        cases.append({"op": "incr_port", "p": p})
    cases += port_avail_cases(rng, 160 * k)
    cases += payload_cases(rng, 220 * k)
    # ---- amounts
    for s in amount_strings(rng, 80 * k) + utf8_probes([3, 6, 20, 40, 78], filler="1", deltas=(0,)) + \
            utf8_probes([6, 22], filler=".", deltas=(0,), offsets=(0, 1, 2)) + tolerance_probes(["1.5", "16", "0.000000000000000001"]):
        cases.append(dict(S(s), op="amount_from_str"))
    for a in domain_amounts(rng, 0 if quick else 3):
        cases.append({"op": "amount_roundtrip", "a": str(a)})
    # ---- multiaddresses
    pidx = peer_id(rng)[0]
    for s in multiaddr_strings(rng, 200 * k) + utf8_probes([5, 12, 30], filler="/", deltas=(0,)) + \
            utf8_probes([16, 64], filler="a", deltas=(0,)) + \
            tolerance_probes(["/ip4/1.2.3.4/udp/5/quic-v1/p2p/" + pidx, "/ip4/1.2.3.4/tcp/80"]):
        cases.append(dict(S(s), op="craft_from_str", ignore=rng.random() < 0.3))
    # ---- cache files
    for i in range(60 * k):
        cases.append(cache_case(rng, deep=(i % 10 == 9), f22=(i % 5 == 0), extreme=(i % 3 == 1)))
    for i in range(40 * k):
        cases.append(extreme_time_case(rng))
    seeds = [cache_case(rng) for _ in range(8)]
    for i in range(70 * k):
        c = dict(rng.choice(seeds))
        c["text"] = mutate_text(rng, c["text"])
        c.pop("data")
        c["fam"] = "mutated"
        cases.append(c)
    from props import C18 as _C18
    offs = list(range(1, 301)) + [o + d for o in (1024, 4096) for d in (-2, -1, 0, 1, 2)]
    if quick:
        offs = [o for o in offs if o <= 80 or o % 4 == 0 or o > 1000]
    for i, b in enumerate(_C18.straddle_texts(offs)):
        if quick and i % 3 != (i // 3) % 3:
            continue            # quick: one character width per offset, rotating
        cases.append({"op": "load_cache", "content": list(b), "fam": "raw-utf8"})
    cases.append({"op": "load_cache", "content": None, "fam": "absent"})
    for b in [[], [0], [255, 254], [123, 125], list(b'{"peers":{}}'), [0xef, 0xbb, 0xbf, 123, 125]]:
        cases.append({"op": "load_cache", "content": b, "fam": "raw"})
    # ---- registry files
    cases.append({"op": "registry_load", "content": None, "fam": "absent"})
    for b in [b"", b" ", b"\xff", b"{}", b"null", b"[]"] + [s.encode() for s in REGISTRY_SEEDS]:
        cases.append({"op": "registry_load", "content": list(b), "fam": "seed"})
    for _ in range(80 * k):
        t = mutate_text(rng, rng.choice(REGISTRY_SEEDS))
        b = t.encode("utf-8")
        if rng.random() < 0.1 and b:
            i = rng.randrange(len(b))
            b = b[:i] + bytes([rng.choice([0xff, 0xc0, 0x80])]) + b[i + 1:]
        cases.append({"op": "registry_load", "content": list(b), "fam": "mutated"})
    # ---- cache files written repeatedly over one path (populated, then EMPTY / `first`), loaded after each write
    cases += cache_save_sequences(rng, 24 * k)
    # ---- registry files saved repeatedly over one path (growing, equal, shrinking by one byte / by a lot), then loaded
    cases += registry_sequences(rng, 40 * k)
    # ---- record bytes: all lengths 0..4 around the 3 header bytes, every first byte class of msgpack
    heads = [[], [0x91], [0x91, 1], [0x91, 1, 0], [0x91, 0xcc, 7], [0x91, 0xcc, 8], [0x91, 7, 0xc0], [0x91, 8, 0],
             [0x81, 0xa4, 0x6b], [0x90, 0, 0], [0x92, 1, 1], [0xc0, 0, 0], [0x91, 0xcd, 0], [0x91, 0xce, 0], [0x91, 0xd0, 1],
             [0x91, 0xd0, 0xff], [0x91, 0xff, 0], [0x91, 0xca, 0], [0xdc, 0, 1], [0xdd, 0, 0], [0x91, 0xc4, 0]]
    for h in heads:
        cases.append({"op": "header_from_record", "bytes": h})
        cases.append({"op": "header_from_record", "bytes": h + [rng.getrandbits(8) for _ in range(rng.choice([1, 5, 40]))]})
    for _ in range(100 * k):
        cases.append({"op": "header_from_record", "bytes": [rng.getrandbits(8) for _ in range(rng.choice([0, 1, 2, 3, 3, 4, 10]))]})
    return cases


# ---------------------------------------------------------------------------------------- oracle
def text_of(c):
    return bytes(c["bytes"]).decode("utf-8") if "bytes" in c else c.get("s", "")


def strict_unhex(s):
    b = s.encode("utf-8")
    if len(b) % 2 or not re.fullmatch(rb"[0-9a-fA-F]*", b):
        return None
    return bytes.fromhex(b.decode("ascii"))


def ref_u16(s):
    m = re.fullmatch(r"\+?([0-9]+)", s, re.A)
    if not m or int(m.group(1)) >= U16:
        return None
    return int(m.group(1))


def ref_port(s):
    p = ref_u16(s)
    if p is not None:
        return ("single", p, p)
    parts = s.split("-")
    if len(parts) != 2:
        return None
    a, b = ref_u16(parts[0]), ref_u16(parts[1])
    if a is None or b is None or a >= b:
        return None
    return ("range", a, b)


def ref_craft(protos, ignore):
    def first(k):
        return next((p for p in protos if p[0] == k), None)
    ip, udp, tcp, peer = first("ip4"), first("udp"), first("tcp"), first("p2p")
    if ip is None:
        return None
    out = [ip]
    if udp is not None:
        out.append(udp)
        if first("quic-v1") is not None:
            out.append(first("quic-v1"))
    elif tcp is not None:
        out.append(tcp)
        if first("ws") is not None:
            out.append(first("ws"))
    else:
        return None
    if peer is not None:
        out.append(peer)
    elif not ignore:
        return None
    return out


GRAMMAR = re.compile(r"([0-9]+)(?:\.([0-9]*))?", re.A)      # used with fullmatch ($ would accept a trailing newline)


def oracle(c, o):
    op = c["op"]
    if "panic" in o:
        return [("panic-" + op, "%s panicked on %s: %s" % (op, json.dumps({k: v for k, v in c.items() if k != "data"})[:300], o["panic"]))]
    v = []

    def bad(cls, msg):
        v.append((cls, "%s: %s (input %s)" % (op, msg, json.dumps({k: w for k, w in c.items() if k != "data"})[:240])))
    if op in ("reg_from_hex", "scratch_from_hex"):
        d = strict_unhex(text_of(c))
        want_len = 80 if op == "reg_from_hex" else 48
        want_ok = d is not None and len(d) == want_len and bool(o.get("pk_ok"))
        if (o["r"] == "ok") != want_ok:
            bad("hex-accepts", "result %s but the input %s a %d-byte hex string with a valid key" % (o["r"], "is" if want_ok else "is not", want_len))
        if o["r"] == "ok" and o["hex"] != d.hex():
            bad("hex-value", "parsed value prints as %s" % o["hex"])
    elif op == "str_to_addr":
        d = strict_unhex(text_of(c))
        want = "ok" if d is not None and len(d) == 32 else "err"
        if o["r"] != want or (want == "ok" and o["hex"] != d.hex()) or \
                (o["r"] == "err" and o["code"] != (1 if d is None else 2)):
            bad("hex-accepts", "result %s" % json.dumps(o))
    elif op == "datamap_from_hex":
        d = strict_unhex(text_of(c))
        if (o["r"] == "ok") != (d is not None) or (d is not None and o["hex"] != d.hex()):
            bad("hex-accepts", "result %s" % json.dumps(o)[:200])
    elif op in ("reg_roundtrip", "scratch_roundtrip", "addr_roundtrip", "datamap_roundtrip"):
        if not o["back"]:
            bad("roundtrip", "parsing the formatter's output %s did not return the original value" % o["hex"][:200])
        if op == "reg_roundtrip" and (o["hex"] != c["meta"] + o["pk"] or o["display"] != o["hex"]):
            bad("format", "to_hex/Display is not hex(meta ++ owner)")
        if op == "addr_roundtrip" and o["hex"] != c["x"]:
            bad("format", "addr_to_str is not the hex of the name")
        if op == "datamap_roundtrip" and o["hex"] != bytes(c["data"]).hex():
            bad("format", "to_hex is not the hex of the content")
    elif op in ("decrypt", "decrypt_sealed", "encrypt_roundtrip"):
        if o["r"] == "encrypt-err":
            bad("encrypt", o["msg"])
            return v
        opened = o.get("opened")
        pt = bytes(opened["pt"]) if isinstance(opened, dict) else None
        utf8 = None
        if pt is not None:
            try:
                pt.decode("utf-8")
                utf8 = True
            except UnicodeDecodeError:
                utf8 = False
        if (o["r"] == "ok") != bool(utf8):
            bad("decrypt-accepts", "result %s although the sealed plaintext %s" % (
                o["r"], "is valid UTF-8" if utf8 else "does not exist or is not UTF-8"))
        if o["r"] == "ok" and bytes(o["out"]) != pt:
            bad("decrypt-value", "returned text differs from the sealed plaintext")
        if op == "decrypt_sealed" and pt != bytes(c["pt"]):
            bad("aead-oracle", "the AEAD oracle did not open the blob the harness sealed")
        if op == "encrypt_roundtrip" and (o["r"] != "ok" or bytes(o["out"]) != bytes(c["key"])):
            bad("roundtrip", "decrypt(encrypt(key)) != key")
    elif op in ("port_parse", "port_validate"):
        ref = ref_port(text_of(c))
        got = None if o["r"] == "err" else (o["r"], o["a"], o["b"])
        if ref != got:
            bad("port-parse", "parsed as %s, the documented syntax gives %s" % (got, ref))
        if "canon" in c and got != (("single", "range")[c["canon"][0]], c["canon"][1], c["canon"][2]):
            bad("roundtrip", "canonical text of %s parsed as %s" % (c["canon"], got))
        if op == "port_validate" and got is not None:
            n = 1 if got[0] == "single" else got[2] - got[1] + 1
            if o["v"] != (c["count"] == n):
                wrapped = o["v"] and c["count"] == n % U16
                bad("wrapped-count" if wrapped else "port-validate",
                    "validate(%d) = %s for %d ports%s" % (c["count"], o["v"], n, " (the 16-bit wrap of the count was accepted)" if wrapped else ""))
    elif op == "port_avail":
        if o.get("r") in ("parse-err", "seed-rejected"):
            return v
        a, b = o["a"], o["b"]
        used = [p for t in c["nodes"] for p in (t[0], t[1], t[2]) if p is not None]
        in_use = any(a <= p <= b for p in used)
        if o["avail"] != (not in_use):
            bad("port-availability", "check_port_availability(%s-%s) = %s although the recorded ports %s %s the request%s" % (
                a, b, "Ok" if o["avail"] else "Err", used, "overlap" if in_use else "do not overlap",
                " (a wrapped empty range hides the conflict)" if in_use and b == 65535 else ""))
        if o["start"] != a:
            bad("port-start", "get_start_port_if_applicable = %s for %s-%s" % (o["start"], a, b))
    elif op == "record_payload":
        n = len(o["value"])
        want = "ok" if (n > 2 and o["oracle"]) else "err"
        if o["r"] != want:
            bad("payload", "try_deserialize_record::<%s> on %d bytes = %s, but %s" % (
                c["t"], n, o["r"], "there is nothing after the 2-byte header" if n <= 2 else "rmp-serde %s the bytes after the header" % ("accepts" if o["oracle"] else "rejects")))
    elif op == "incr_port":
        p = c["p"]
        want = None if p is None or p + 1 >= U16 else p + 1
        if o["r"] != want:
            bad("incr-wrap" if p == 65535 else "incr-value", "increment_port_option(%s) = %s%s" % (
                p, o["r"], " (wrapped to port 0 instead of reporting that there is no next port)" if o["r"] == 0 else ""))
    elif op == "amount_roundtrip":
        a = int(c["a"])
        m = re.fullmatch(r"([0-9]+)\.([0-9]+)", o["s"], re.A)
        if not m or len(m.group(2)) != 18 or int(m.group(1)) * 10 ** 18 + int(m.group(2)) != a:
            bad("amount-display", "display(%d) = %r does not denote the amount (whole tokens '.' 18 fractional digits)" % (a, o["s"]))
        if o["code"] != 0 or int(o["v"]) != a:
            bad("roundtrip", "from_str(display(%d)) = %s via %r, not the amount" % (a, (o["code"], o["v"]), o["s"]))
    elif op == "amount_from_str":
        s = text_of(c)
        m = GRAMMAR.fullmatch(s)
        want = None
        if m:
            f = (m.group(2) or "").rstrip("0")
            if len(f) <= 18:
                val = int(m.group(1)) * 10 ** 18 + (int(f) * 10 ** (18 - len(f)) if f else 0)
                if val < 2 ** 256:
                    want = val
        got = int(o["v"]) if o["code"] == 0 else None
        if want != got:
            bad("amount-parse", "from_str = %s, decimal reading %s" % ((o["code"], o["v"]), want))
    elif op == "craft_from_str":
        want = None if o["parsed"] is None else ref_craft(o["parsed"], c.get("ignore", False))
        if want != o["out"]:
            bad("craft", "crafted %s from %s, expected %s" % (o["out"], o["parsed"], want))
    elif op == "load_cache":
        if o["r"] == "ok":
            if len(o["peers"]) > c.get("max_peers", 1500):
                bad("cache-bound", "%d peers loaded with max_peers %d" % (len(o["peers"]), c.get("max_peers", 1500)))
            for p in o["peers"]:
                # (a peer left with no address is only possible with max_addrs_per_peer = 0: empty peers are
                # dropped before the truncation -- recorded as an observation, not a violation)
                if (not p["addrs"] and c.get("max_addrs", 6) > 0) or len(p["addrs"]) > c.get("max_addrs", 6):
                    bad("cache-bound", "peer with %d addresses (max %d)" % (len(p["addrs"]), c.get("max_addrs", 6)))
                for a in p["addrs"]:
                    if a["f"] > a["s"] or a["ls_off"] > 3 or a["ls_off"] < -c.get("expiry_secs", 86400) - 3:
                        bad("cache-cleanup", "loaded address s=%d f=%d seen %+ds is unreliable, expired or in the future" % (a["s"], a["f"], a["ls_off"]))
            if (c.get("fam") in ("absent", "raw") and c.get("content") in (None, [], [0], [255, 254])) or c.get("fam") == "raw-utf8":
                bad("cache-accepts", "a missing / non-cache file loaded")
        elif c.get("fam") == "structured":
            bad("cache-rejects", "a well-formed cache file was rejected: " + o.get("msg", ""))
    elif op == "registry_load":
        content = c["content"]
        if content is None or content == []:
            if o["r"] != "ok" or o["nodes"] != 0 or not o["save_path_kept"]:
                bad("registry-default", "missing/empty file did not give the empty registry")
        elif (o["r"] == "ok") != bool(o["parse_ok"]):
            bad("registry-accepts", "load %s but serde_json %s the text" % (o["r"], "accepts" if o["parse_ok"] else "rejects"))
    elif op == "cache_save_seq":
        for i, (st, r) in enumerate(zip(c["steps"], o["steps"])):
            want = sorted(st.get("adds", []))
            if not r["wrote"]:
                bad("cache-save", "write #%d (%s) returned an error" % (i, c["shape"][i]))
            elif not r["load_ok"] or r["addrs"] != want:
                bad("cache-save-load", "after write #%d of the sequence %s on one path load_cache_data %s; the store written held %d address(es)%s" % (
                    i, c["shape"], ("returns %d address(es)" % len(r["addrs"])) if r["load_ok"] else "fails", len(want),
                    " (the previous content survived the write of an empty cache)" if not want and r["addrs"] else ""))
    elif op == "registry_seq":
        for i, st in enumerate(o["steps"]):
            if not st.get("parsed"):
                continue            # the seed no longer matches the registry schema: nothing to say about save/load
            if not st["saved"]:
                bad("registry-save", "save #%d (%s) returned an error" % (i, c["names"][i]))
            elif st["file"] != st["fmt"] or not st["load_ok"] or not st["load_eq"]:
                bad("registry-save-load", "after save #%d of the sequence %s on one path the file holds %d bytes, the serialised registry "
                    "has %d; load: %s" % (i, c["names"], len(st["file"]), len(st["fmt"]),
                                          "returns a different registry" if st["load_ok"] else "fails: %s" % st.get("load_err")))
    elif op == "header_from_record":
        b = c["bytes"]
        want = o["oracle"] if len(b) >= 3 and isinstance(o["oracle"], int) else None
        got = o["kind"] if o["r"] == "ok" else None
        if want != got:
            bad("header", "from_record = %s, decoder on the first 3 bytes = %s" % (got, o["oracle"]))
    return v


# ---------------------------------------------------------------------------------------- model terms
def kind(o):
    return 2 if "panic" in o else (0 if o.get("r") in ("ok", "single", "range") else 1)


def cproto(p):
    k = p[0]
    if k == "ip4":
        return "Ip4 %s" % cN(p[1])
    if k == "udp":
        return "Udp %s" % cN(p[1])
    if k == "tcp":
        return "Tcp %s" % cN(p[1])
    if k == "quic-v1":
        return "QuicV1"
    if k == "ws":
        return "Ws %s" % cstr(bytes(p[1]))
    if k == "p2p":
        return "P2p %s" % cstr(p[1])
    return "Other %s" % cstr(bytes(p[1]))


def caddr(protos):
    return clist([cproto(p) for p in protos])


DECRYPT_CODES = [("Encrypted data is invalid", 1), ("Could not find salt", 2), ("Could not find nonce", 3),
                 ("Could not open encrypted key", 4), ("not valid UTF-8", 5), ("too short", 6)]


def ccache(peers, now_secs, key_off, key_nanos):
    out = []
    for p in peers:
        recs = ["{| a_addr := %s; a_s := %s; a_f := %s; a_seen := %s |}" % (
            caddr(a["protos"]), cN(a["s"]), cN(a["f"]),
            cN((a["abs"] if "abs" in a else now_secs + a[key_off]) * 10 ** 9 + a[key_nanos]))
            for a in p["addrs"]]
        out.append("(%s, %s)" % (cstr(p["peer"]), clist(recs)))
    return clist(out)


def model_term(c, o):
    op = c["op"]
    uf = cbool(UNFIXED)
    k = kind(o)
    if op == "reg_from_hex":
        return "agree_reg %s %s %s %s %s" % (uf, cbool(bool(o.get("pk_ok"))), cstr(text_of(c)), cN(k), cstr(o.get("hex", "")))
    if op == "scratch_from_hex":
        return "agree_scratch %s %s %s %s" % (cbool(bool(o.get("pk_ok"))), cstr(text_of(c)), cN(k), cstr(o.get("hex", "")))
    if op == "str_to_addr":
        return "agree_str_to_addr %s %s %s %s" % (cstr(text_of(c)), cN(k), cN(o.get("code", 0)), cstr(o.get("hex", "")))
    if op == "datamap_from_hex":
        return "agree_datamap %s %s %s" % (cstr(text_of(c)), cN(k), cstr(o.get("hex", "")))
    if "panic" in o and op.endswith("roundtrip"):
        return "false"
    if op == "reg_roundtrip":
        return "agree_reg_roundtrip %s %s %s" % (cbytes(c["meta"]), cbytes(o["pk"]), cstr(o["hex"]))
    if op == "scratch_roundtrip":
        return "agree_hex_roundtrip %s %s && agree_scratch true %s 0 %s" % (cbytes(o["pk"]), cstr(o["hex"]), cstr(o["hex"]), cstr(o["hex"]))
    if op == "addr_roundtrip":
        return "agree_hex_roundtrip %s %s && agree_str_to_addr %s 0 0 %s" % (cbytes(c["x"]), cstr(o["hex"]), cstr(o["hex"]), cstr(o["hex"]))
    if op == "datamap_roundtrip":
        return "agree_hex_roundtrip %s %s && agree_datamap %s 0 %s" % (cbytes(bytes(c["data"])), cstr(o["hex"]), cstr(o["hex"]), cstr(o["hex"]))
    if op in ("decrypt", "decrypt_sealed", "encrypt_roundtrip"):
        if o.get("r") == "encrypt-err":
            return "false"
        data = o.get("data") if op != "decrypt" else text_of(c)
        if data is None:        # panicked before the report could be assembled: rebuild what the model needs
            if op == "encrypt_roundtrip":
                return "false"
            return None if not UNFIXED else "is_panic (decrypt_unfixed (fun _ _ _ => Some %s) (tohex (%s ++ %s ++ [0])))" % (
                cbytes(bytes(c["pt"])), cbytes(bytes(c["salt"])), cbytes(bytes(c["nonce"])))
        opened = o.get("opened")
        code = next((n for m, n in DECRYPT_CODES if m in o.get("msg", "")), 0)
        if "panic" in o and op == "decrypt":
            # the oracle fields are missing after a panic; short inputs never reach the AEAD
            return "agree_decrypt %s None %s 2 0 []" % (uf, cstr(data))
        return "agree_decrypt %s %s %s %s %s %s" % (
            uf, copt(bytes(opened["pt"]) if isinstance(opened, dict) else None, cbytes), cstr(data), cN(k), cN(code),
            cbytes(bytes(o.get("out", []))))
    if op == "port_parse":
        shape = {"single": 0, "range": 1}.get(o.get("r"), 2)
        t = "agree_port_parse %s %s %s %s" % (cstr(text_of(c)), cN(shape), cN(o.get("a", 0)), cN(o.get("b", 0)))
        if "canon" in c:
            r = "Single %s" % cN(c["canon"][1]) if c["canon"][0] == 0 else "Range %s %s" % (cN(c["canon"][1]), cN(c["canon"][2]))
            t += " && String.eqb (port_format (%s)) %s" % (r, cstr(text_of(c)))
        return t
    if op == "port_validate":
        if "panic" in o:
            return "agree_port_validate %s %s %s 2" % (variant(), cstr(text_of(c)), cN(c["count"]))
        if o["r"] == "err":
            return "agree_port_parse %s 2 0 0" % cstr(text_of(c))
        return "agree_port_validate %s %s %s %s" % (variant(), cstr(text_of(c)), cN(c["count"]), cN(0 if o["v"] else 1))
    if op == "port_avail":
        if "panic" in o:
            # the range is known from the case unless it came as text; a panic never agrees with the model
            return "false"
        if o.get("r") in ("parse-err", "seed-rejected"):
            return None
        r = "Single %s" % cN(o["a"]) if o["r"] == "single" else "Range %s %s" % (cN(o["a"]), cN(o["b"]))
        nodes = clist(["(%s, %s, %s)" % (copt(t[0], cN), copt(t[1], cN), cN(t[2])) for t in c["nodes"]])
        return "agree_port_avail (%s) %s %s %s" % (r, nodes, cN(0 if o["avail"] else 1), copt(o["start"], cN))
    if op == "record_payload":
        if "panic" in o:
            return "false"
        return "agree_payload %s %s %s" % (cbytes(bytes(o["value"])), copt(o["oracle"], cbool), cN(k))
    if op == "incr_port":
        return "agree_incr %s %s %s %s" % (variant(), copt(c["p"], cN), cN(k if "panic" in o else 0), copt(o.get("r"), cN))
    if op == "amount_roundtrip":
        if "panic" in o:
            return "false"
        return "agree_display %s %s && agree_amount %s %s %s" % (
            cN(int(c["a"])), cstr(o["s"]), cstr(o["s"]), cN(o["code"]), cN(int(o["v"])))
    if op == "amount_from_str":
        if "panic" in o:
            return "false"
        return "agree_amount %s %s %s" % (cstr(text_of(c)), cN(o["code"]), cN(int(o["v"])))
    if op == "craft_from_str":
        if "panic" in o:
            return "false"
        return "agree_craft %s %s %s" % (copt(o["parsed"], caddr), cbool(c.get("ignore", False)), copt(o["out"], caddr))
    if op == "load_cache":
        cfg = "{| max_peers := %s; max_addrs := %s; expiry := %s |}" % (
            cN(c.get("max_peers", 1500)), cN(c.get("max_addrs", 6)), cN(c.get("expiry_secs", 86400) * 10 ** 9))
        if c.get("fam") == "structured":
            if "panic" in o:
                # now_secs is unknown after a panic; any clock inside the guard band gives the same answer
                now_secs = 2 * 10 ** 9
                return "agree_load %s %s %s true (Some %s) 2 []" % (
                    variant(), cfg, cN(now_secs * 10 ** 9 + 10 ** 9), ccache(c["data"], now_secs, "off", "nanos"))
            now_secs = o["now_secs"]
            impl = ccache(o.get("peers", []), now_secs, "ls_off", "ls_nanos")
            return "agree_load %s %s %s true (Some %s) %s %s" % (
                variant(), cfg, cN(now_secs * 10 ** 9 + 10 ** 9), ccache(c["data"], now_secs, "off", "nanos"), cN(k), impl)
        if c.get("fam") == "absent":
            return "agree_load Fixed %s 0 false None %s []" % (cfg, cN(k))
        if c.get("fam") == "raw-utf8":          # valid UTF-8 that serde_json rejects: the decode oracle says None
            return "agree_load Fixed %s 0 true None %s []" % (cfg, cN(k))
        return None     # malformed stream: whether serde accepts it is the oracle's business
    if op == "registry_load":
        if "panic" in o:
            return "false"
        content = c["content"]
        fk, text = 0, ""
        if content is not None:
            try:
                text = bytes(content).decode("utf-8")
                fk = 2
            except UnicodeDecodeError:
                fk = 1
        res = 2 if o["r"] == "err" else (1 if o["nodes"] > 0 or (fk == 2 and text != "" and o["parse_ok"]) else 0)
        return "agree_registry %s %s %s %s" % (cN(fk), cstr(text) if len(text) < 3000 else cstr(text[:3000]), cbool(bool(o["parse_ok"])), cN(res))
    if op == "cache_save_seq":
        if "panic" in o:
            return "false"
        steps = ["(%s, %s)" % (clist([cstr(a) for a in sorted(st.get("adds", []))]), clist([cstr(a) for a in r["addrs"]]))
                 for st, r in zip(c["steps"], o["steps"])]
        return "agree_cache_saves None %s" % clist(steps)
    if op == "registry_seq":
        if "panic" in o:
            return "false"
        pre = c.get("pre")
        cur = "Absent" if pre is None else "(Text %s)" % cstr(bytes(pre))
        steps = ["(%s, %s)" % (cstr(bytes(st["fmt"])), cstr(bytes(st["file"]))) for st in o["steps"] if st.get("parsed")]
        return "agree_saves %s %s" % (cur, clist(steps))
    if op == "header_from_record":
        orc = o.get("oracle")
        return "agree_header %s %s %s %s" % (cbytes(bytes(c["bytes"])), copt(orc if isinstance(orc, int) else None, cN),
                                             cN(k), cN(o.get("kind", 0)))
    return None


def show(c, o):
    op = c["op"]
    if op == "reg_from_hex":
        return "reg_from_hex (fun _ => %s) %s" % (cbool(bool(o.get("pk_ok"))), cstr(text_of(c)))
    if op in ("port_parse", "port_validate"):
        return "(port_parse %s, bind (port_parse %s) (fun r => port_validate r %s))" % (
            cstr(text_of(c)), cstr(text_of(c)), cN(c.get("count", 1)))
    if op == "incr_port":
        return "increment_port %s" % copt(c["p"], cN)
    if op == "str_to_addr":
        return "str_to_addr %s" % cstr(text_of(c))
    if op == "craft_from_str" and "parsed" in o:
        return "craft_from_str (fun _ => %s) EmptyString %s" % (copt(o["parsed"], caddr), cbool(c.get("ignore", False)))
    if op == "header_from_record":
        return "header_from_record (fun _ => None) %s" % cbytes(bytes(c["bytes"]))
    return "tt"


def nontrivial(c, o):
    if c["op"] == "cache_save_seq":
        return ("cache_save_seq", tuple(c["shape"]), "panic" in o)
    if c["op"] == "registry_seq":
        lens = [len(st.get("fmt", [])) for st in o.get("steps", [])]
        shape = tuple("g" if b > a else ("s1" if a - b == 1 else ("s" if b < a else "e")) for a, b in zip(lens, lens[1:]))
        return ("registry_seq", c["pre"] is None, shape, "panic" in o)
    n = len(c.get("bytes", c.get("content") or c.get("text") or []))
    lc = n if n < 8 else (8 + n // 16 if n < 200 else 30)
    return (c["op"], c.get("profile", ""), "panic" if "panic" in o else str(o.get("r", o.get("code", o.get("back")))), lc, c.get("fam", ""),
            str(o.get("code", "")), str(o.get("v", "")))


def run(ctx):
    ctx.regen_consts()
    ctx.prove("props/C17.v", THEOREMS, extra_trusted=[
        "models coq/model/Parsers.v, coq/model/BootCache.v (clean-up part), coq/model/Amount.v (hand-written) tied to the "
        "anchored files by this run's correspondence",
        "translator tools/extract_consts.py: SALT_LENGTH, NONCE_LENGTH, RecordHeader::SIZE re-read from the source "
        "(the no_panic theorems are parametric in them)",
        "third-party oracles (not proved, answers taken from the real crates per case): blsttc key decoding, ring "
        "PBKDF2/ChaCha20-Poly1305, Multiaddr/PeerId::from_str, serde_json, rmp-serde",
        "harness/crates/c17 (Rust driver; includes ant-cli's wallet/encryption.rs by #[path]), tools/props/C17.py"])
    refresh_lock()
    binary = ctx.cargo_build("c17")
    valid_pks = []
    if binary and not ctx.replay:
        outs = ctx.run_harness(binary, [{"op": "scratch_roundtrip", "seed": i} for i in range(6)]) or []
        valid_pks = [o["pk"] for o in outs if o and "pk" in o]
    cases = ctx.corpus() + ([] if ctx.replay else gen(ctx, valid_pks))
    hist = [c for c in cases if c["op"] == "history"]
    cases = [c for c in cases if c["op"] != "history"]
    dbg = [c for c in cases if c.get("profile") != "release"]
    rel = [c for c in cases if c.get("profile") == "release"]
    if ctx.tier == "thorough" and not ctx.replay:
        # the overflow-sensitive families once more, for the harness built with the arithmetic of a shipped build
        rel += [dict(c, profile="release", kind="release/" + c["op"]) for c in dbg if c["op"] in RELEASE_OPS]
    pipeline_retry(ctx, "props/C17.v", dbg, binary, oracle, model_term, IMPORTS, nontrivial=nontrivial, show=show, shard_size=120,
                   relation="each repository parser == its transcription in model/Parsers.v / BootCache.v (outcome Ok/Err/Panic, value, error kind)")
    # the merge path of the cache FILE (sync_and_flush_to_disk re-reads the file and merges entries of the same address):
    # C18's store-history harness, generator, oracle and lock-step model terms, run here for the cache-file clause of C17
    if not ctx.replay:
        hist += [_C18gen_merge(ctx) for _ in range(40 if ctx.tier == "quick" else 400)]
    hist_rel = [c for c in hist if c.get("profile") == "release"]
    hist = [c for c in hist if c.get("profile") != "release"]
    if ctx.tier == "thorough" and not ctx.replay:
        hist_rel += [dict(c, profile="release") for c in hist]
    if hist or hist_rel:
        from props import C18 as _C18
        b18 = ctx.cargo_build("c18")
        _C18.resolve_addrs(ctx, b18, hist + hist_rel)
        if hist:
            pipeline_retry(ctx, "props/C17.v", hist, b18, _C18.oracle, _C18.model_term, IMPORTS, nontrivial=_C18.nontrivial,
                           show=_C18.show, shard_size=12,
                           relation="cache-file merge path: every step of write file / add / status / flush / load on the real store == "
                                    "model/BootCache.v (sstep_ok; arec_sync with the saturating sums)")
        if hist_rel:
            r18 = cargo_build_release(ctx, "c18")
            pipeline_retry(ctx, "props/C17.v", hist_rel, r18,
                           lambda c, o: [(cls, "[release profile, overflow checks off] " + d) for cls, d in _C18.oracle(c, o)],
                           _C18.model_term, IMPORTS, nontrivial=lambda c, o: ("release",) + tuple(_C18.nontrivial(c, o)),
                           show=_C18.show, shard_size=12,
                           relation="release profile: cache-file merge path == model/BootCache.v (saturating sums; a wrapped counter is a disagreement)")
    if rel:
        global RELEASE
        rbin = cargo_build_release(ctx, "c17")
        RELEASE = True
        try:
            pipeline_retry(ctx, "props/C17.v", rel, rbin, oracle_release, model_term, IMPORTS, nontrivial=nontrivial, show=show,
                           shard_size=120,
                           relation="release profile (overflow checks off): each arithmetic-sensitive parser == the model "
                                    "(the repaired code has no overflowing operation, so the same transcription; with C17_UNFIXED "
                                    "the wrapping instance `Unfixed Release`)")
        finally:
            RELEASE = False


def _C18gen_merge(ctx):
    from props import C18 as _C18
    return _C18.gen_merge_history(ctx.rng)


def oracle_release(c, o):
    """the same statement of the property; in a build without overflow checks the typical failure is not a panic but a
    silently wrapped value accepted where the property demands an error (classes wrapped-count, incr-wrap)"""
    return [(cls, "[release profile, overflow checks off] " + d) for cls, d in oracle(c, o)]


def cargo_build_release(ctx, crate, timeout=3000):
    """harness crate in the release profile of harness/Cargo.toml (overflow-checks = false, debug-assertions = false),
    same target dir, same lock and environment as Ctx.cargo_build"""
    from vpc import core
    env = dict(os.environ)
    env["CARGO_NET_OFFLINE"] = "true"
    env["CARGO_TARGET_DIR"] = core.TARGET
    env["RUSTFLAGS"] = "--cfg %s -Awarnings" % core.GUARD
    env.setdefault("CARGO_INCREMENTAL", "0")
    with core.Lock("cargo"):
        rc, out = core.sh("timeout %d cargo build --offline --release -p %s 2>&1" % (timeout, crate),
                          cwd=core.HARNESS, env=env, timeout=timeout + 30)
    if rc != 0:
        ctx.tie_break("harness-build", crate + " (release)",
                      "the harness no longer builds in the release profile:\n" + out[-4000:])
        return None
    return os.path.join(core.TARGET, "release", crate)


def pipeline_retry(ctx, target, *args, **kw):
    """ctx.pipeline, repeated (at most twice) when the model evaluation was hit by another check regenerating
    gen/Consts.v in between ("inconsistent assumptions over library V.gen.Consts": an artefact of checks of other
    properties running at the same time, not a property of this one)"""
    import copy
    for attempt in range(3):
        n_tb = len(ctx.tie_breaks)
        snap = (copy.deepcopy(ctx.cov), list(ctx.impl_viol), set(ctx._nontrivial))
        ctx.regen_consts()
        ctx.coq_make([target])
        ctx.pipeline(*args, **kw)
        hit = any(k == "model-eval" and "inconsistent assumptions" in str(d) for k, _, d in ctx.tie_breaks[n_tb:])
        if not hit or attempt == 2:
            return
        del ctx.tie_breaks[n_tb:]
        ctx.cov, ctx.impl_viol, ctx._nontrivial = snap[0], snap[1], snap[2]
        ctx.log("model evaluation raced with a regeneration of gen/Consts.v by another check; repeating")


def refresh_lock():
    """cargo prunes harness/Cargo.lock to the crates built last; a crate with more dependencies then needs the
    full lock file from /repo again, which the driver re-copies when its stamp is missing"""
    from vpc import core
    try:
        txt = open(os.path.join(core.HARNESS, "Cargo.lock")).read()
        if 'name = "service-manager"' in txt and 'name = "ring"' in txt and 'name = "autonomi"' in txt:
            return
        os.remove(os.path.join(core.CACHE, "repo_lock.sha"))
    except OSError:
        pass
