"""C10 -- store capacity, distance-based eviction and quoting metrics are exact
(ant-networking/src/record_store.rs: prune_records_if_needed, calculate_farthest, mark_as_stored,
cleanup_irrelevant_records, quoting_metrics, payment_received; cmd.rs PutLocalRecord MaxRecords arm).
Shares model, harness and history rendering with C01 (tools/props/C01.py)."""
import os
from props import C01 as base
from props.C01 import NF, Trace, dedupe, model_term, show, IMPORTS, nontrivial, mk_case, gen_keys, py_distance

THEOREMS = ["views_agree", "accept_at_capacity_iff", "refused_not_served", "reachable_views", "cleanup_only_out_of_range",
            "cleanup_only_when_large", "cleanup_threshold_is_global_tenth", "quote_figures_exact",
            "payments_exact", "capacity_bound", "capacity_bound_refuted"]
RULE = ("histories over 3-12 keys with capacities 1-8 (and the default): fills to capacity followed by "
        "newcomers closer / farther than the farthest held record, overwrites of held keys, bursts of 1-6 "
        "unacknowledged puts, notification deliveries in arbitrary order, responsible-range settings at the "
        "exact distance of a key and +-1, clean-ups, payments, quotes, clean restarts; plus stores of "
        "1600-1800 tiny records on both sides of the clean-up threshold (1638).  Distinct/non-trivial as C01 "
        "plus (refusal seen, eviction seen, burst depth class, clean-up applied or not)")
ASSUMPTIONS = base.ASSUMPTIONS + [
    "metrics flush tasks on the one historic_quoting_metrics file complete in spawn order (per-file FIFO)",
    "restarts in this property are clean (every pending task has run); crashes are C02's subject",
]


def oracle(c, o):
    """C10 stated on what the real store did."""
    if o is None:
        return []
    if "panic" in o:
        return [("panic", "the store panicked: %s" % o["panic"])]
    if c.get("kind") == "header":
        return []
    v = []
    t = Trace(c, o)
    cap = c["cfg"]["max_records"]
    dist = t.dists
    threshold = o["consts"]["max_records_count"] // 10
    # the responsible range the HISTORY last set, per step (never read back from the store; a restarted
    # store has none until it is set again)
    range_after, cur = [], None
    for op_, st_ in zip(c["ops"], o["steps"]):
        if op_["op"] in ("set_range", "set_range_at"):
            cur = int(st_["extra"])
        elif op_["op"] == "crash":
            cur = None
        range_after.append(cur)
    for i, op, out, pre, post in t.steps():
        name = op["op"]
        set_range = range_after[i]
        range_before = range_after[i - 1] if i > 0 else None
        if name in ("set_range", "set_range_at"):
            if post["range"] is None or int(post["range"]) != set_range or post["range2"] != post["range"]:
                v.append(("range-setting-not-applied", "step %d: the responsible range was set to %d but the store reports %s"
                          % (i, set_range, post["range"])))
        pre_idx = [a for a, _ in pre["idx"]]
        post_idx = [a for a, _ in post["idx"]]
        # 1. the three views of the held set agree
        want_bd = sorted(post_idx, key=lambda k: dist[k])
        if post["bydist"] != [[k, k] for k in want_bd]:
            v.append(("views-disagree", "step %d (%s): records_by_distance %s is not the distance image of records %s"
                      % (i, name, post["bydist"], post_idx)))
        want_far = None if not post_idx else max(post_idx, key=lambda k: dist[k])
        got_far = None if post["far"] is None else post["far"][0]
        if got_far != want_far or (post["far"] is not None and post["far"][1] != post["far"][0]) or post["far_key"] != got_far:
            v.append(("views-disagree", "step %d (%s): farthest_record is %s, the farthest held key is %s"
                      % (i, name, post["far"], want_far)))
        # 1b. once settled no record file is left without an index entry (every removal deletes its file)
        if post["ntasks"] == 0 and not post["chan"]:
            held = set(post_idx)
            orphans = [f[0] for f in post["files"] if f[0] not in held]
            if orphans:
                v.append(("file-without-index-entry-when-settled", "step %d (%s): settled, but the files of keys %s are still on "
                          "disk although the keys are not in the index (they would be served again after a restart)"
                          % (i, name, orphans[:5])))
        # 2. accept / refuse decision
        if name in ("put", "put_local") and not (name == "put_local" and out["put_local"] == 2) and not t.partial:
            k, val = op["k"], op["v"]
            ok = out["put"] if name == "put" else out["put_local"] == 0
            early = [k, val] in pre["cache"]
            spawned = post["ntasks"] > pre["ntasks"]
            if len(pre_idx) >= cap and k not in pre_idx and cap >= 1:
                far = max(pre_idx, key=lambda x: dist[x])
                if ok and early and not spawned:
                    if t.unacked_before.get(k, 0) == 0:
                        v.append(("reput-of-refused-record-returns-ok",
                                  "step %d: store full, key %d not held and not in flight, identical record still in the "
                                  "read cache from a refused put: put_verified returns Ok but stores nothing" % (i, k)))
                elif ok:
                    if not dist[k] < dist[far]:
                        v.append(("accepted-farther-record", "step %d: full store accepted key %d which is farther than the farthest held key %d" % (i, k, far)))
                    if sorted(post_idx) != sorted(x for x in pre_idx if x != far):
                        v.append(("evicted-wrong-record", "step %d: accepting key %d changed the held set from %s to %s, expected exactly key %d to leave"
                                  % (i, k, pre_idx, post_idx, far)))
                else:
                    if not dist[k] > dist[far]:
                        v.append(("refused-closer-record", "step %d: full store refused key %d which is closer than the farthest held key %d" % (i, k, far)))
                    if post_idx != pre_idx or post["bydist"] != pre["bydist"] or post["far"] != pre["far"]:
                        v.append(("refusal-changed-held-set", "step %d: refused put changed the held set" % i))
                    if t.unacked_before.get(k, 0) == 0 and post["gets"][k] != NF:
                        v.append(("refused-record-served", "step %d: key %d was refused at capacity (not held, not in flight) "
                                  "but get serves value %s from the read cache" % (i, k, post["gets"][k])))
                    if name == "put_local" and out["far"] != far:
                        v.append(("max-records-reports-wrong-farthest", "step %d: MaxRecords arm reports farthest %s, true farthest %d" % (i, out["far"], far)))
            elif len(pre_idx) >= cap and k in pre_idx and cap >= 1 and not ok:
                # the refusal test is STRICT (refused iff strictly farther than the farthest held record): a held key
                # -- the farthest one included -- is never farther than the farthest, so its overwrite is never refused
                far = max(pre_idx, key=lambda x: dist[x])
                v.append(("held-key-overwrite-refused-at-capacity", "step %d: full store (%d of %d) refused the overwrite of HELD key %d "
                          "(farthest held key: %d) with MaxRecords" % (i, len(pre_idx), cap, k, far)))
            elif len(pre_idx) < cap and not ok:
                v.append(("refused-below-capacity", "step %d: put of key %d refused with %d of %d records held" % (i, k, len(pre_idx), cap)))
        # 3. capacity bound: records held <= capacity + writes still in flight
        if cap >= 1 and not t.partial and "crash" not in t.flags:
            inflight = sum(t.unacked.values())
            if len(post_idx) > cap + inflight:
                cls = "capacity-exceeded-after-burst" if t.burst else "capacity-exceeded"
                v.append((cls, "step %d (%s): %d records held, capacity %d, %d writes in flight (a burst of unacknowledged "
                          "puts occurred earlier: %s)" % (i, name, len(post_idx), cap, inflight, t.burst)))
        # 4. clean-up
        if name == "cleanup":
            applies = len(pre_idx) >= threshold and range_before is not None
            removed = set(pre_idx) - set(post_idx)
            if not applies and removed:
                v.append(("cleanup-when-not-applicable", "step %d: clean-up removed %d records from a store of %d (threshold %d, range %s)"
                          % (i, len(removed), len(pre_idx), threshold, range_before)))
            if applies:
                r = range_before
                want = {k for k in pre_idx if dist[k] >= r}
                if removed - want:
                    v.append(("cleanup-removed-in-range-record", "step %d: clean-up removed keys %s that are inside the responsible range" % (i, sorted(removed - want)[:5])))
                if want - removed:
                    v.append(("cleanup-kept-out-of-range-record", "step %d: clean-up kept keys %s that are outside the responsible range" % (i, sorted(want - removed)[:5])))
        # 5. quoted figures
        if name == "quote":
            # a quote does not change the store: judge it on the state exposed right after it
            if set_range is None:
                close = len(post_idx)
            else:
                close = sum(1 for k in post_idx if dist[k] < set_range)
            dens = None if out.get("density") is None else int(out["density"])
            if dens != set_range:
                v.append(("quote-figures-wrong", "step %d: the quote signs network density %s, the responsible range last set is %s"
                          % (i, dens, set_range)))
            want = (close, cap, t.pays if not t.partial else post["pay"], op["k"] in post_idx)
            got = (out["close"], out["maxr"], out["pay"], out["stored"])
            if want != got:
                v.append(("quote-figures-wrong", "step %d: quoted (close_records_stored, max_records, received_payment_count, "
                          "already stored) = %s, true values %s" % (i, got, want)))
        if name == "crash" and post["pay"] != t.pays:
            v.append(("payments-lost-across-restart", "step %d: %d payments had been received (%s) but the restarted store "
                      "reports %d" % (i, t.pays, "clean restart: every background task had run" if pre["ntasks"] == 0
                                      else "as flushed to the metrics file at the crash", post["pay"])))
        if name == "crash" and post["started"] != 0:
            v.append(("start-timestamp-not-kept", "step %d: after a clean restart the store's start time stamp is that of start %d" % (i, post["started"])))
    return dedupe(v)


# Trace keeps the unacked count *before* the current op for the early-return classification
_orig_account = Trace.account


def _account(self, op, out, pre, post):
    self.unacked_before = dict(self.unacked)
    _orig_account(self, op, out, pre, post)


Trace.account = _account
Trace.unacked_before = {}


def tiny(i):
    return bytes([0x91, 1, i % 251])


def fill_case(rng, cap, nk, extra_ops, cache=25, tag="fill"):
    keys = gen_keys(rng, nk, False)
    vals = [tiny(i) for i in range(4)] + [bytes([0x91, 5, 9, 9])]
    ops = []
    order = list(range(nk))
    rng.shuffle(order)
    for k in order[:cap]:
        ops += [{"op": "put", "k": k, "v": rng.randrange(4), "t": 0}, {"op": "settle"}]
    ops += extra_ops(order)
    cc = mk_case(rng, keys, vals, ops, cap, cache, tag)
    # re-put the farthest of the initially held keys with new bytes (validated put and PutLocalRecord arm): at capacity
    # this is the boundary case of the admission test (distance equal to the farthest distance)
    peer = bytes.fromhex(cc["cfg"]["peer"])
    held = order[:cap]
    far = max(held, key=lambda k: py_distance(peer, keys[k]))
    pre = []
    for k in held:
        pre += [{"op": "put", "k": k, "v": rng.randrange(4), "t": 0}, {"op": "settle"}]
    cc["ops"] = pre + [{"op": "put", "k": far, "v": 1 + rng.randrange(3), "t": 0}, {"op": "settle"},
                       {"op": "put_local", "k": far, "v": rng.randrange(4)}, {"op": "settle"}] + cc["ops"][len(pre):] + [
                       {"op": "put", "k": far, "v": rng.randrange(4), "t": 0}, {"op": "settle"}]
    return cc


def gen(ctx):
    rng = ctx.rng
    quick = ctx.tier == "quick"
    cases = []
    # mixed histories with the C10 operations switched on
    for i in range(150 if quick else 3000):
        cases.append(base.gen_history(rng, rng.choice([10, 25, 40, 60]), adversarial=False,
                                      caps=(1, 2, 2, 3, 3, 4, 5, 8),
                                      weights=dict(put=34, put_local=10, remove=5, pay=5, quote=7, cleanup=2,
                                                   set_range=5, deliver=22, step=30, settle=6), tag="capacity-mix"))
    # full store, then newcomers and overwrites, one at a time (acknowledged) and in bursts
    for i in range(60 if quick else 1500):
        cap = rng.choice([1, 2, 3, 4, 6, 8])
        nk = cap + rng.randrange(2, 6)

        def extra(order, cap=cap, nk=nk):
            ops = []
            for _ in range(rng.randrange(2, 9)):
                k = rng.choice(order)
                burst = rng.choice([1, 1, 1, 2, 3, 6])
                for b in range(burst):
                    kk = k if b == 0 else rng.choice(order)
                    ops.append(rng.choice([{"op": "put", "k": kk, "v": rng.randrange(4), "t": 0},
                                           {"op": "put_local", "k": kk, "v": rng.randrange(5)}]))
                ops.append(rng.choice([{"op": "settle"}, {"op": "step"}, {"op": "quote", "k": k}]))
                if rng.random() < 0.3:
                    ops.append({"op": "set_range_at", "k": rng.choice(order), "delta": rng.choice([-1, 0, 1])})
                if rng.random() < 0.35:
                    # two or three settings in a row (shrink-then-widen and widen-then-shrink both occur), then a quote
                    for kk in rng.sample(order, min(len(order), rng.choice([2, 3]))):
                        ops.append({"op": "set_range_at", "k": kk, "delta": rng.choice([-1, 0, 1])})
                    ops.append({"op": "quote", "k": rng.choice(order)})
                if rng.random() < 0.3:
                    ops.append({"op": "quote", "k": rng.choice(order)})
                if rng.random() < 0.3:
                    # a burst of payments with no pause, then a clean restart: every one of them must survive
                    ops += [{"op": "pay"}] * rng.choice([1, 2, 3, 7]) + [{"op": "settle"}, {"op": "crash", "tears": []}, {"op": "quote", "k": k}]
                    ops += [{"op": "pay"}] * rng.choice([0, 2]) + [{"op": "quote", "k": k}]
            ops.append({"op": "settle"})
            return ops
        cases.append(fill_case(rng, cap, nk, extra, cache=rng.choice([1, 2, 25]), tag="fill-then-newcomers"))
    # F14 shape: capacity c, c-1 held, burst of n unacknowledged puts, then all acknowledgements
    for i in range(12 if quick else 200):
        cap = rng.choice([2, 2, 3, 4])
        n = rng.choice([2, 3, 4, 6])
        nk = cap - 1 + n + 1

        def extra(order, cap=cap, n=n):
            ops = [{"op": "remove", "k": order[cap - 1]}, {"op": "settle"}]
            ops += [{"op": "put", "k": k, "v": 0, "t": 0} for k in order[cap - 1: cap - 1 + n]]
            ops += [{"op": "settle"}, {"op": "quote", "k": order[0]}, {"op": "put", "k": order[-1], "v": 1, "t": 0}, {"op": "settle"}]
            return ops
        cases.append(fill_case(rng, cap, nk, extra, tag="burst"))
    # clean-up on both sides of the threshold (global constant / 10), ranges at exact key distances:
    # one store filled to threshold-1 (clean-up must not apply), then one more record (it must)
    for n in ([1638] if quick else [1600, 1638, 1639, 1700, 1800]):
        if os.environ.get("VERIF_SKIP_BIG"):
            continue
        keys = gen_keys(rng, n, False)
        vals = [tiny(0), tiny(1)]
        ops = [{"op": "put", "k": k, "v": 0, "t": 0, "nodump": True} for k in range(n - 1)]
        ops.append({"op": "settle", "nodump": True})
        # narrow first, then wide (the quote and the clean-up must use the wide one), by the generator's own distances
        case_peer = bytes(rng.getrandbits(8) for _ in range(32))
        byd = sorted(range(n), key=lambda k: py_distance(case_peer, keys[k]))
        narrow, wide = byd[n // 4], byd[(3 * n) // 4]
        ops.append({"op": "set_range_at", "k": narrow, "delta": rng.choice([-1, 0, 1]), "nodump": True})
        ops.append({"op": "set_range_at", "k": wide, "delta": rng.choice([-1, 0, 1])})
        ops += [{"op": "quote", "k": 0}, {"op": "cleanup"}, {"op": "quote", "k": 1}]
        ops += [{"op": "put", "k": n - 1, "v": 0, "t": 0, "nodump": True}, {"op": "settle", "nodump": True}]
        ops += [{"op": "quote", "k": 0}, {"op": "cleanup"}, {"op": "quote", "k": 1}, {"op": "settle", "nodump": True}, {"op": "quote", "k": 2}]
        cc = mk_case(rng, keys, vals, ops, 16384, 25, "cleanup-threshold-%d" % n)
        cc["cfg"]["peer"] = case_peer.hex()
        cases.append(cc)
    return cases


def run(ctx):
    ctx.regen_consts()
    ctx.prove("props/C10.v", THEOREMS, extra_trusted=[
        "model coq/model/RecordStore.v (hand-written) tied to record_store.rs / record_store_api.rs / cmd.rs by "
        "this run's lock-step correspondence (records, records_by_distance, farthest_record, quoting figures)",
        "translator tools/consts.d/store.py: MAX_RECORDS_COUNT and the clean-up divisor",
        "harness/crates/c01 (Rust driver; hook module record_store::verif), tools/props/C10.py + C01.py"])
    binary = ctx.cargo_build("c01")
    cases = ctx.corpus() + ([] if ctx.replay else gen(ctx))
    ctx.pipeline(cases, binary, oracle, model_term, IMPORTS, nontrivial=nontrivial, show=show,
                 relation=base.RELATION, shard_size=16)
