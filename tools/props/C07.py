"""C07 -- mutable records never regress and hold only owner-signed content
(ant-node/src/put_validation.rs: scratchpad / transaction / register validators; scratchpad.rs, transaction.rs)."""
import copy
import itertools
from props import putval as pv

IMPORTS = pv.IMPORTS
THEOREMS = ["scratchpad_step", "scratchpad_strict", "scratchpad_monotone", "scratchpad_always_valid",
            "tx_step_union", "tx_is_union", "tx_order_independent", "txs_always_valid",
            "register_step_union", "register_is_union",
            "concurrent_lost_update_refuted", "concurrent_lost_transaction_refuted",
            "register_overwritten_before_ack_refuted", "tx_signed_bytes_injective", "tampered_tx_invalid"]
RULE = ("serial histories of 1-12 deliveries per key over 2 owners: scratchpads with counters lower / equal / higher "
        "than the stored one, signed by the owner / by another key / junk / none / a signature made for another "
        "counter, through paid uploads (payment passing or failing), unpaid updates (key held or not) and replicated "
        "copies, under the derived key or a foreign one; transactions (valid, junk, foreign owner, duplicates, lists "
        "mixing owners); registers (permitted / unauthorised writers, forged op signatures, ops addressed to another "
        "register, different base permissions, duplicates). Overlapping deliveries to one key: every interleaving of "
        "the store-query / write steps of 2 deliveries (exhaustive), sampled for 3. Serial back-to-back deliveries inside "
        "the store's put->ack window (the next delivery starts after the previous one has fully returned, before or after "
        "its disk-write acknowledgement is relayed) for transactions, registers and scratchpads on all three entry points, "
        "and the cross-kind key coincidences. A case is non-trivial/distinct by "
        "(schedule shape, per delivery: entry point, record kind, validity class, counter relation, outcome).")
ASSUMPTIONS = [
    "BLS signatures are symbolic (who signed, over which counter/content); the harness signs with real keys and "
    "maps stored bytes back to the delivered objects by byte equality",
    "a delivered register is one unit: SignedRegister::verify rejects the whole register when one operation is "
    "invalid, so 'operations delivered' means the operations of registers that verify",
    "schedules: the harness polls one delivery at a time and relays its store queries / writes in the chosen order "
    "(per-sender FIFO as on the real command channel); disk-write acknowledgements are delivered at 'ack' tokens",
    "registers stay below MAX_REG_NUM_ENTRIES (cf. C06 / F7)",
]


# ------------------------------------------------------------------------------------------- offers (independent of Coq)

def eligible(case, d, r, k, plain_tags, paid_tag, failed_payment_updates):
    held = k in pv.listed_names(r.get("store_at_start") or [])
    if not pv.header_parses(d):
        return False
    if d["path"] == "repl":
        return d["hdr"] in plain_tags and not d.get("proof")
    if not d.get("proof"):
        return d["hdr"] in plain_tags and held and plain_tags != (2,)
    if d["hdr"] != paid_tag:
        return False
    conds = pv.payment_conditions(case, d, k)
    return all(conds.values()) or (failed_payment_updates and held)


def pad_offer(case, d, r, k):
    b = d["body"]
    if b["t"] != "pad" or pv.name_of(d["key"]) != k or ("H", "owner", b["owner"]) != k or not pv.pad_valid(b):
        return None
    return b if eligible(case, d, r, k, (5,), 6, False) else None


def tx_offer(case, d, r, k):
    b = d["body"]
    if pv.name_of(d["key"]) != k:
        return []
    if d["path"] == "repl" and b["t"] == "txs":
        lst = b["list"]
    elif d["path"] == "client" and b["t"] == "tx":
        lst = [b]
    else:
        return []
    if not eligible(case, d, r, k, (2,), 7, True):
        return []
    return [t for t in lst if ("H", "owner", t["owner"]) == k and pv.tx_valid(t)]


perm_set, op_ok, reg_verifies = pv.perm_set, pv.op_ok, pv.reg_verifies


def reg_offer(case, d, r, k, stored):
    b = d["body"]
    if b["t"] != "reg" or pv.name_of(d["key"]) != k or ("H", "reg", b["owner"], b["meta"]) != k:
        return []
    if not eligible(case, d, r, k, (3,), 4, True) or not reg_verifies(b):
        return []
    if stored is not None:
        sb = stored["base"]
        if (sb["owner"], sb["meta"], perm_set(sb)) != (b["owner"], b["meta"], perm_set(b)):
            return []
    return b.get("ops", [])


def canon(x):
    return pv.dumps(x)


def slot_kind(s):
    return None if s is None else s["val"].get("t")


# ------------------------------------------------------------------------------------------- oracle

def check_valid_content(dump, where, v):
    for s in dump:
        k, val = pv.name_of(s["key"]), s["val"]
        t = val.get("t")
        if t == "pad":
            p = val.get("pad", {})
            if "owner" not in p or not pv.pad_valid(p) or ("H", "owner", p["owner"]) != k:
                v.append(("invalid-pad-stored", "%s: scratchpad %s stored under %s is not validly signed by that owner" % (where, pv.dumps(p), k)))
        elif t == "txs":
            for x in val["list"]:
                if "owner" not in x or not pv.tx_valid(x) or ("H", "owner", x["owner"]) != k:
                    v.append(("invalid-tx-stored", "%s: transaction %s stored under %s is invalid or belongs to another owner" % (where, pv.dumps(x), k)))
        elif t == "reg":
            b = val.get("base", {})
            for o in val.get("ops", []):
                if "owner" not in b or "writer" not in o or not op_ok(b, o):
                    v.append(("invalid-op-stored", "%s: register operation %s stored in %s is not permitted / not signed / for another register" % (where, pv.dumps(o), k)))


def oracle(case, out):
    if isinstance(out, dict) and "panic" in out:
        return [("panic", "the implementation panicked on this case: %s" % str(out["panic"])[:300])]
    if not isinstance(out, dict) or "results" not in out:
        return [("harness", "no result: %r" % (out,))]
    v = []
    ds, rs = case["deliveries"], out["results"]
    check_valid_content(out["store"], "final store", v)
    keys = {pv.name_of(s["key"]) for s in out["store_before"]} | {pv.name_of(s["key"]) for s in out["store"]} | \
           {pv.name_of(d["key"]) for d in ds}
    if pv.is_serial(case):
        for i, (d, r) in enumerate(zip(ds, rs)):
            if r.get("store_at_start") is None or r.get("store_after") is None:
                continue
            before, after = pv.dump_map(r["store_at_start"]), pv.dump_map(r["store_after"])
            check_valid_content(r["store_after"], "after delivery %d" % i, v)
            for k in keys:
                sb, sa = before.get(k), after.get(k)
                kb, ka = slot_kind(sb), slot_kind(sa)
                if kb in (None, "pad"):
                    old = sb["val"]["pad"] if kb == "pad" else None
                    new = pad_offer(case, d, r, k)
                    want = old
                    if new is not None and (old is None or old["ctr"] < new["ctr"]):
                        want = new
                    got = sa["val"]["pad"] if ka == "pad" else None
                    if kb == "pad" and ka == "pad" and got["ctr"] < old["ctr"]:
                        v.append(("counter-regressed", "delivery %d: counter at %s went from %d to %d" % (i, k, old["ctr"], got["ctr"])))
                    elif kb == "pad" and ka != "pad":
                        v.append(("pad-replaced", "delivery %d replaced the scratchpad at %s by %s" % (i, k, ka)))
                    elif (ka == "pad" or new is not None) and canon(got) != canon(want):
                        v.append(("pad-not-highest-valid", "delivery %d: scratchpad at %s is %s, but the highest validly signed "
                                  "eligible version delivered so far is %s" % (i, k, pv.dumps(got), pv.dumps(want))))
                if kb in (None, "txs"):
                    old = sb["val"]["list"] if kb == "txs" else []
                    off = tx_offer(case, d, r, k)
                    want = {canon(x) for x in old} | {canon(x) for x in off}
                    got = {canon(x) for x in sa["val"]["list"]} if ka == "txs" else set()
                    if kb == "txs" and ka != "txs":
                        v.append(("txs-replaced", "delivery %d replaced the transaction set at %s by %s" % (i, k, ka)))
                    elif (ka == "txs" or off) and got != want:
                        v.append(("txs-not-union", "delivery %d: transaction set at %s is %s, expected the union %s"
                                  % (i, k, sorted(got), sorted(want))))
                if kb in (None, "reg"):
                    old = sb["val"] if kb == "reg" else None
                    off = reg_offer(case, d, r, k, old)
                    want = {canon(x) for x in (old["ops"] if old else [])} | {canon(x) for x in off}
                    got = {canon(x) for x in sa["val"]["ops"]} if ka == "reg" else set()
                    if kb == "reg" and ka != "reg":
                        v.append(("reg-replaced", "delivery %d replaced the register at %s by %s" % (i, k, ka)))
                    elif kb == "reg" and not sb["listed"] and ka == "reg" and d["body"]["t"] == "reg" and \
                            canon(sa["val"]) != canon(sb["val"]) and \
                            got == {canon(x) for x in d["body"].get("ops", [])} and got != want:
                        # the earlier register is readable (write cache) but its disk write has not been
                        # acknowledged, so the key is not indexed yet: the node takes the delivery for a first
                        # store and writes the incoming register as it is
                        v.append(("register-overwritten-before-ack", "delivery %d: register at %s was written but not yet acknowledged; "
                                  "the delivered register replaced it (ops now %s, union would be %s)" % (i, k, sorted(got), sorted(want))))
                    elif kb == "reg" and canon(sa["val"]["base"]) != canon(old["base"]):
                        v.append(("reg-base-changed", "delivery %d changed the base register at %s" % (i, k)))
                    elif (ka == "reg" and kb == "reg" or off) and got != want:
                        v.append(("reg-not-union", "delivery %d: register ops at %s are %s, expected the union %s"
                                  % (i, k, sorted(got), sorted(want))))
        return v + pv.kind_change_violations(case, out) + pv.rejection_violations(case, out)
    # overlapping deliveries: whatever the interleaving, nothing validly delivered may be lost
    before, after = pv.dump_map(out["store_before"]), pv.dump_map(out["store"])
    for k in keys:
        sb, sa = before.get(k), after.get(k)
        kb, ka = slot_kind(sb), slot_kind(sa)
        fake = [{"store_at_start": out["store_before"]}] * len(ds)
        if kb == "pad":
            offers = [pad_offer(case, d, r, k) for d, r in zip(ds, fake)]
            best = max([sb["val"]["pad"]["ctr"]] + [o["ctr"] for o in offers if o])
            got = sa["val"]["pad"]["ctr"] if ka == "pad" else -1
            if got < best:
                v.append(("concurrent-lost-update", "overlapping deliveries to %s (schedule %s): stored counter ends at %d although a "
                          "validly signed version with counter %d was delivered (stored before: %d)"
                          % (k, case["schedule"], got, best, sb["val"]["pad"]["ctr"])))
        if kb == "txs":
            want = {canon(x) for x in sb["val"]["list"]}
            for d, r in zip(ds, fake):
                want |= {canon(x) for x in tx_offer(case, d, r, k)}
            got = {canon(x) for x in sa["val"]["list"]} if ka == "txs" else set()
            if not want <= got:
                v.append(("concurrent-lost-update", "overlapping deliveries to %s (schedule %s): transaction(s) %s validly delivered but not stored"
                          % (k, case["schedule"], sorted(want - got))))
        if kb == "reg":
            want = {canon(x) for x in sb["val"]["ops"]}
            for d, r in zip(ds, fake):
                want |= {canon(x) for x in reg_offer(case, d, r, k, sb["val"])}
            got = {canon(x) for x in sa["val"]["ops"]} if ka == "reg" else set()
            if not want <= got:
                v.append(("concurrent-lost-update", "overlapping deliveries to %s (schedule %s): register operation(s) %s validly delivered but not stored"
                          % (k, case["schedule"], sorted(want - got))))
    return v + pv.kind_change_violations(case, out) + pv.rejection_violations(case, out)


# ------------------------------------------------------------------------------------------- generator

def rand_pad_delivery(rng, owner, cur):
    ctr = max(0, cur + rng.choice([-2, -1, 0, 0, 1, 1, 2, 5]))
    sig = rng.choice(["ok"] * 6 + ["junk", "none", "stale"])
    signer = None if rng.random() < 0.85 else rng.choice([1, 2, 3])
    body = pv.pad(owner, ctr, data=rng.randrange(0, 50), signer=signer, sig=sig, enc=rng.choice([0, 0, 7]))
    return body


def rand_delivery(rng, body, closest):
    entry = rng.choice(["paid", "paid", "unpaid", "unpaid", "repl", "repl"])
    if body["t"] == "txs":
        entry = "repl"
    if body["t"] == "tx" and entry == "unpaid":
        entry = rng.choice(["paid", "repl"])
    if body["t"] == "tx" and entry == "repl":
        body = {"t": "txs", "list": [body]}
    key = None
    if rng.random() < 0.07:
        key = rng.choice([{"owner": 1}, {"owner": 2}, {"reg": [1, 1]}, {"raw": 3}])
    d = pv.delivery("repl" if entry == "repl" else "client", body, paid=(entry == "paid"), key=key)
    if entry == "paid":
        addr = pv.key_of_body(body)
        d["proof"] = pv.good_proof(addr)
        r = rng.random()
        if r < 0.1:
            d["proof"]["quotes"][1]["sig"] = "junk"
        elif r < 0.18:
            d["proof"]["quotes"][0]["content"] = {"chunk": {"d": 99}}
        elif r < 0.25:
            d["chain"] = {"mode": "ok", "valid": [True, False, True]}
        elif r < 0.3:
            d["proof"]["quotes"][2]["age"] = 3_700_000
    return d


def rand_history(rng):
    ds = []
    store = []
    cur = {1: 0, 2: 0}
    flavour = rng.choice(["pad", "pad", "tx", "reg", "mixed"])
    if rng.random() < 0.6:
        if flavour in ("pad", "mixed"):
            c = rng.randrange(0, 8)
            cur[1] = c
            store.append(pv.held(pv.pad(1, c)))
        if flavour == "tx":
            store.append(pv.held({"t": "txs", "list": [pv.tx(1, 1)]}))
        if flavour in ("reg", "mixed"):
            store.append(pv.held(pv.reg(1, 1, ops=[pv.op(1, 1)], perm=[2])))
    for _ in range(rng.randrange(1, 13)):
        f = flavour if flavour != "mixed" else rng.choice(["pad", "tx", "reg"])
        if f == "pad":
            o = rng.choice([1, 1, 1, 2])
            body = rand_pad_delivery(rng, o, cur[o])
            if pv.pad_valid(body):
                cur[o] = max(cur[o], body["ctr"])
        elif f == "tx":
            o = rng.choice([1, 1, 2])
            body = pv.tx(o, rng.randrange(1, 6), sig=rng.choice(["ok", "ok", "ok", "junk", "stale"]),
                         signer=None if rng.random() < 0.85 else 2)
            if rng.random() < 0.4:
                body = {"t": "txs", "list": [body] + [pv.tx(rng.choice([1, 2]), rng.randrange(1, 6), sig=rng.choice(["ok", "ok", "junk"]))
                                                     for _ in range(rng.randrange(0, 3))]}
        else:
            ops = []
            for _ in range(rng.randrange(0, 4)):
                ops.append(pv.op(rng.randrange(1, 8), rng.choice([1, 1, 2, 2, 3]), rng.choice(["ok", "ok", "ok", "junk"]),
                                 addr=None if rng.random() < 0.9 else rng.choice([[1, 2], [2, 1], [1, 1]]),
                                 size=None if rng.random() < 0.95 else rng.choice([1024, 1025])))
            body = pv.reg(1, 1, ops=ops, perm=rng.choice([[2], [2], [2], "owner", "anyone", [2, 3]]),
                          osig=None if rng.random() < 0.9 else rng.choice(["junk", {"by": 2}]))
        ds.append(rand_delivery(rng, body, [0, 1, 2, 3]))
    return pv.case("history", ds, store=store)


def interleavings(a, b):
    """all merges of a copies of 0 and b copies of 1"""
    for pos in itertools.combinations(range(a + b), a):
        s = [1] * (a + b)
        for p in pos:
            s[p] = 0
        yield s


def concurrent_cases(rng, thorough):
    cs = []
    base = 5
    # scratchpads: every pair of counters around the stored one, every interleaving of 3 steps each
    pairs = [(7, 6), (6, 7), (6, 6), (4, 7), (5, 9), (8, 8)]
    for a, b in pairs:
        for path in ("repl", "client"):
            for sched in interleavings(3, 3):
                d0 = pv.delivery(path, pv.pad(1, a, data=a * 10))
                d1 = pv.delivery(path, pv.pad(1, b, data=b * 10 + 1))
                cs.append(pv.case("overlap-pad", [d0, d1], store=[pv.held(pv.pad(1, base))], schedule=sched))
            if not thorough:
                break
    # transactions and registers: replicated copies, 4 steps each
    tx_scheds = list(interleavings(4, 4))
    for sched in (tx_scheds if thorough else tx_scheds[::3]):
        d0 = pv.delivery("repl", {"t": "txs", "list": [pv.tx(1, 2)]})
        d1 = pv.delivery("repl", {"t": "txs", "list": [pv.tx(1, 3)]})
        cs.append(pv.case("overlap-tx", [d0, d1], store=[pv.held({"t": "txs", "list": [pv.tx(1, 1)]})], schedule=sched))
        r0 = pv.delivery("repl", pv.reg(1, 1, ops=[pv.op(2, 1)]))
        r1 = pv.delivery("repl", pv.reg(1, 1, ops=[pv.op(3, 1)]))
        cs.append(pv.case("overlap-reg", [r0, r1], store=[pv.held(pv.reg(1, 1, ops=[pv.op(1, 1)]))], schedule=sched))
    # three overlapping scratchpad updates, sampled schedules with acks
    for _ in range(40 if not thorough else 600):
        ctrs = [rng.randrange(3, 10) for _ in range(3)]
        sched = [0, 0, 0, 1, 1, 1, 2, 2, 2]
        rng.shuffle(sched)
        if rng.random() < 0.3:
            sched.insert(rng.randrange(len(sched)), "ack")
        ds = [pv.delivery(rng.choice(["repl", "client"]), pv.pad(1, c, data=c * 10 + i)) for i, c in enumerate(ctrs)]
        cs.append(pv.case("overlap-pad3", ds, store=[pv.held(pv.pad(1, base))], schedule=sched))
    return cs


def gen(ctx):
    thorough = ctx.tier != "quick"
    cs = concurrent_cases(ctx.rng, thorough) + pv.cross_kind_cases() + pv.back_to_back_cases() + pv.raw_chunk_cases() + pv.pad_boundary_cases() + pv.tx_tamper_cases() + pv.long_history_cases() + pv.reg_branch_cases() + pv.forged_update_cases()
    n = 350 if not thorough else 6000
    cs += [rand_history(ctx.rng) for _ in range(n)]
    return cs


def model_term(case, out):
    t = pv.model_term(case, out)
    if t != "false" and case.get("schedule") is None:
        # serial histories: the serial semantics the theorems are about must coincide as well
        t += " && agree_serial %s %s %s %s" % (pv.r_env(case), pv.r_store(out["store_before"]),
                                              pv.clist([pv.r_delivery(d) for d in case["deliveries"]]), pv.r_store(out["store"]))
    return t


def nontrivial(case, out):
    if not isinstance(out, dict) or "results" not in out:
        return None
    ks = [tuple(case.get("schedule") or ())[:9]]
    for d, r in zip(case["deliveries"], out["results"]):
        b = d["body"]
        cls = b["t"]
        if b["t"] == "pad":
            cls = ("pad", pv.pad_valid(b), min(b["ctr"], 12))
        ks.append((d["path"], d["hdr"], cls, bool(d.get("proof")), r["res"], len(r["puts"])))
    return tuple(ks)


def show(case, out):
    return pv.show_term(case, out)


def run(ctx):
    ctx.regen_consts()
    extra = [
        "model coq/model/PutValidation.v (hand-written transcription of put_validation.rs; interaction trees give both "
        "the serial semantics and every interleaving) tied to the source by this run's correspondence (token engine and "
        "serial semantics both compared with the implementation) and by the regenerated constants",
        "harness/crates/c03 (real Node around a harness-driven Network; the harness relays store queries and writes in "
        "the chosen order), tools/props/putval.py and C07.py (generator, oracle, canonicaliser)"]
    ctx.prove("props/C07.v", THEOREMS, extra_trusted=extra)
    binary = ctx.cargo_build("c03")
    cases = ctx.corpus() + ([] if ctx.replay else gen(ctx))
    pv.pipeline(ctx, "props/C07.v", THEOREMS, extra, cases, binary, oracle, model_term, IMPORTS, nontrivial=nontrivial, show=show, shard_size=60,
                 relation="Node::validate_and_store_record / store_replicated_in_record under the harness-chosen "
                          "schedule == PutValidation.sched_run (and == serial_run for serial histories)")
