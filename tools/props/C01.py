"""C01 -- validated records read back byte-exact from a node's store
(ant-networking/src/record_store.rs, record_store_api.rs, the store arms of cmd.rs).

This module also carries what C10 and C02 share with C01: the rendering of a recorded history as a
Gallina term for the model in coq/model/RecordStore.v, the history generator toolbox and the
book-keeping the three implementation-side oracles have in common."""
import hashlib
from vpc.core import cN, cstr, cbytes, clist, copt, cbool

NF = 999999
IMPORTS = "Require Import V.model.RecordStore."
THEOREMS = ["get_only_put_values", "settled_reads_latest", "late_notification_relists_refuted",
            "served_is_held_or_in_flight", "put_verified_has_no_size_gate", "disk_read_has_no_size_gate",
            "cleanup_removes_from_all_views",
            "names_injective", "names_roundtrip", "store_constants"]
RULE = ("a case is a whole history over 2-12 keys (32-byte random keys; adversarial: keys sharing their "
        "first 8 bytes (= same nonce), sharing long prefixes/suffixes, 1-byte keys, 128-byte keys whose file "
        "name exceeds NAME_MAX) and 3-10 values (all record kinds, bad headers, 3 B - 64 KiB): validated puts "
        "(explicit type and via the PutLocalRecord arm), overwrites, same-value puts, removes, gets, single "
        "background-task steps, notification deliveries in arbitrary order, settle; capacities 1-8 and "
        "default, cache sizes 1-25.  After every operation the full hook-exposed state and get() of every "
        "key are recorded.  Distinct/non-trivial = (set of op kinds, capacity class, whether an eviction, a "
        "refusal, a failed write, a late notification and a cache eviction occurred, history length class)")
ASSUMPTIONS = [
    "AES-256-GCM-SIV (aes-gcm-siv crate) is idealised: dec(enc v) = Some v and every strict prefix of a "
    "ciphertext is rejected; the theorems take these two laws as premises, the correspondence run only "
    "observes plaintexts through the real cipher",
    "tokio's scheduler is replaced by a current-thread runtime that runs one spawned task per step in "
    "spawn order; the model's scheduler is more general (any order that is first-in first-out per file) and "
    "the theorems quantify over it; tasks on ONE file are assumed to complete in spawn order (DESIGN O1)",
    "SystemTime::now() is strictly increasing between two cache insertions (cache kept oldest-first)",
    "distances (sha256/xor) and content hashes (sha3) are supplied by the harness as data; theorems that need "
    "distinct keys to have distinct distances say so as a premise",
    "the PutLocalRecord arm of cmd.rs is replicated line by line in the harness (the SwarmDriver is not built)",
]


# ------------------------------------------------------------------------------------------------
# rendering a recorded history for the model
# ------------------------------------------------------------------------------------------------
def lp(l):
    return clist("(%d,%d)" % (a, b) for a, b in l)


def dump_term(d):
    far = "None" if d["far"] is None else "(Some (%d,%d))" % tuple(d["far"])
    met = "None" if d["metrics"] is None else "(Some (%d,%d))" % tuple(d["metrics"])
    rng = "None" if d["range"] is None else "(Some %s)" % d["range"]
    return "(mkDump %s %s %s %s %s %s %d %s %d %d %s %s)" % (
        lp(d["idx"]), lp(d["bydist"]), far, lp(d["cache"]), lp([(f[0], f[1]) for f in d["files"]]),
        lp(d["chan"]), d["ntasks"], rng, d["pay"], d["started"], met, clist(str(g) for g in d["gets"]))


def step_terms(o, st):
    """-> list of (iop, iout, dump-or-None) Gallina triples for one harness op"""
    name, out = o["op"], st["out"]
    d = "None" if st["dump"] is None else "(Some %s)" % dump_term(st["dump"])
    one = lambda a, b: ["(%s, %s, %s)" % (a, b, d)]
    if name == "put":
        return one("IPut %d %d %d" % (o["k"], o["v"], o["t"]), "JPut %s" % cbool(out["put"]))
    if name == "put_local":
        return one("IPutLocal %d %d" % (o["k"], o["v"]),
                   "JPutLocal %d %s" % (out["put_local"], copt(out["far"], str)))
    if name == "remove":
        return one("IRemove %d" % o["k"], "JNone")
    if name == "get":
        return one("IGet %d" % o["k"], "JGet %d" % out["get"])
    if name == "step":
        return one("IRun", "JNone")
    if name == "deliver":
        return one("IDeliver %d" % o["j"], "JNone")
    if name in ("set_range", "set_range_at"):
        return one("ISetRange %s" % st["extra"], "JNone")
    if name == "cleanup":
        return one("ICleanup", "JNone")
    if name == "pay":
        return one("IPay", "JNone")
    if name == "quote":
        return one("IQuote %d" % o["k"], "JQuote %d %d %d %s" % (out["close"], out["maxr"], out["pay"], cbool(out["stored"])))
    if name == "crash":
        return one("ICrash %s" % lp(o.get("tears", [])), "JNone")
    if name == "settle":
        ts, log, i = [], st["extra"], 0
        while i < len(log):                      # run-length encoded
            j = i
            while j < len(log) and log[j] == log[i]:
                j += 1
            ts.append("(%s %d, JNone, None)" % ("IRuns" if log[i] == 1 else "IDelivers0", j - i))
            i = j
        return ts + one("IDeliver %d" % NF, "JNone")
    raise ValueError(name)


def pat(a, n):
    return bytes((a + 7 * i) % 256 for i in range(n))


def val_term(hexv):
    """large values are generated as header ++ pattern and written as such (Coq string literals of
    hundreds of kilobytes overflow coqc's stack)"""
    b = bytes.fromhex(hexv)
    if len(b) > 600:
        for h in (2, 3, 4, 0, 1):
            if len(b) > h and b[h:] == pat(b[h], len(b) - h):
                return "(%s ++ patv %d %d)" % (cbytes(b[:h]), b[h], len(b) - h)
    return cbytes(b)


def nx(dec):
    """a 256-bit number as hex text (string literals are much cheaper for coqc than long numerals)"""
    return '(nx "%064x")' % int(dec)


def tables_term(c, o):
    keys = clist('(kx "%s")' % k for k in c["keys"])
    vals = clist(val_term(v) for v in c["vals"])
    return "(mkTables %s %s %s %s)" % (keys, clist(nx(d) for d in o["dists"]), vals, clist(nx(h) for h in o["hashes"]))


def starter_of(c):
    peer = bytes.fromhex(c["cfg"]["peer"])
    return bytes([0x12, 0x20]) + peer[:2]


def case_args(c, o):
    steps = []
    ops, sts, i = c["ops"], o["steps"], 0
    while i < len(ops):
        op, st = ops[i], sts[i]
        # a stretch of undumped accepted puts of consecutive keys with one value: one IPuts
        if op["op"] == "put" and st["dump"] is None and st["out"].get("put") is True:
            j = i
            while (j < len(ops) and ops[j]["op"] == "put" and sts[j]["dump"] is None and sts[j]["out"].get("put") is True
                   and ops[j]["k"] == op["k"] + (j - i) and ops[j]["v"] == op["v"] and ops[j]["t"] == op["t"]):
                j += 1
            if j - i >= 3:
                steps.append("(IPuts %d %d %d %d, JNone, None)" % (op["k"], j - i, op["v"], op["t"]))
                i = j
                continue
        steps += step_terms(op, st)
        i += 1
    return steps


def model_term(c, o):
    if o is None or "panic" in o or "error" in o:
        return "false"
    if c.get("cfg", {}).get("chan_cap"):
        # small, lazily drained command channel: senders wait for capacity, so the real interleaving is a
        # schedule the harness cannot name task by task; these histories are judged by the oracle alone
        # (the model's channel is unbounded and never drops: its theorems cover every such schedule)
        return None
    if c.get("tag") == "large-torn":
        return None      # records of 300 KiB - 1 MiB: oracle only (lists of a million bytes are too slow inside coqc)
    if c.get("kind") == "node" or c.get("tag") == "unverified-mix":
        return None      # oracle-only (real SwarmDriver / unverified inbound puts: outside the lock-step model)
    if c.get("kind") == "stress":
        return None      # oracle-only: real parallelism has no schedule the model could be run on
    if c.get("kind") == "header":
        return "agree_header %s %s" % (clist(str(b) for b in c["bytes"]), copt(o["kind"], str))
    return "agree_case %s %s %d %d %s %s %s %s %s" % (
        tables_term(c, o), cbytes(starter_of(c)), c["cfg"]["max_records"], c["cfg"]["cache_size"],
        cbool(o["encrypt"]), clist(cstr(n) for n in o["names"]), clist(cbytes(n) for n in o["nonces"]),
        dump_term(o["d0"]), clist(case_args(c, o)))


def show(c, o):
    if c.get("kind") in ("stress", "node") or c.get("tag") == "unverified-mix":
        return "true"
    if c.get("kind") == "header":
        return "header_kind %s" % clist(str(b) for b in c["bytes"])
    return "show_case %s %s %d %d %s %s" % (
        tables_term(c, o), cbytes(starter_of(c)), c["cfg"]["max_records"], c["cfg"]["cache_size"],
        cbool(o["encrypt"]), clist(case_args(c, o)))


# ------------------------------------------------------------------------------------------------
# generator toolbox
# ------------------------------------------------------------------------------------------------
KINDS_STORED = [1, 5, 2, 3]           # Chunk, Scratchpad, Transaction, Register
KINDS_PAY = [0, 4, 6, 7]


def py_distance(peer32, key):
    """generator bias only: xor of the sha256 of the peer id bytes and of the key bytes"""
    a = hashlib.sha256(bytes([0x12, 0x20]) + peer32).digest()
    b = hashlib.sha256(key).digest()
    return int.from_bytes(a, "big") ^ int.from_bytes(b, "big")


def gen_keys(rng, n, adversarial):
    keys = []
    style = rng.choice(["nonce", "prefix", "suffix", "short", "mixed"]) if adversarial else "random"
    base = bytes(rng.getrandbits(8) for _ in range(32))
    while len(keys) < n:
        if style == "random":
            k = bytes(rng.getrandbits(8) for _ in range(32))
        elif style == "nonce":          # same first 8 bytes => same AES nonce
            k = base[:8] + bytes(rng.getrandbits(8) for _ in range(24))
        elif style == "prefix":         # differ only in the last byte(s)
            k = base[:31 - rng.randrange(0, 2)] + bytes(rng.getrandbits(8) for _ in range(2))
        elif style == "suffix":         # differ only in the first byte(s)
            k = bytes(rng.getrandbits(8) for _ in range(2)) + base[2:]
        elif style == "short":
            k = bytes(rng.getrandbits(8) for _ in range(rng.choice([1, 1, 2, 7, 8, 9])))
        else:
            k = rng.choice([bytes(rng.getrandbits(8) for _ in range(32)),
                            bytes([rng.getrandbits(8)]) * 128,          # file name longer than NAME_MAX
                            base[:16] + bytes(rng.getrandbits(8) for _ in range(16)),
                            base[:8], base[:8] + b"\x00", bytes(rng.getrandbits(8) for _ in range(127)),
                            bytes(rng.randrange(32, 127) for _ in range(12))])
        if k and k not in keys:
            keys.append(k)
    return keys


def gen_val(rng, adversarial, big=False):
    if adversarial and rng.random() < 0.25:
        hdr = rng.choice([bytes([0x91, rng.choice(KINDS_PAY)]), bytes([0x91, 8]), bytes([0x91, 0xcc, 1]),
                          bytes([0x91, 0xd0, 5]), bytes([0x92, 1]), bytes([0x81, 0, 1]), b"", bytes([0x91]),
                          bytes([0x91, 0xcd, 0, 1]), bytes([0x90, 1]), bytes([0xc0, 1])])
    else:
        hdr = bytes([0x91, rng.choice(KINDS_STORED)])
    if big:
        return hdr + pat(rng.getrandbits(8), rng.choice([1500, 4096]))
    n = rng.choice([0, 1, 1, 2, 5, 13, 32, 100, 500])
    return hdr + bytes(rng.getrandbits(8) for _ in range(n))


def type_for(rng, val, adversarial):
    """record type code handed to put_verified: what cmd.rs would derive, or (adversarial) any"""
    if adversarial and rng.random() < 0.3:
        return rng.choice([0, 1, 2])
    if len(val) >= 3 and val[0] == 0x91:
        return {1: 0, 5: 1}.get(val[1], 2)
    return 2


def mk_case(rng, keys, vals, ops, max_records, cache_size, tag):
    peer = bytes(rng.getrandbits(8) for _ in range(32))
    return {"kind": "hist", "tag": tag,
            "cfg": {"max_records": max_records, "cache_size": cache_size, "peer": peer.hex()},
            "keys": [k.hex() for k in keys], "vals": [v.hex() for v in vals], "ops": ops}


def gen_history(rng, n_ops, adversarial=False, caps=(1, 2, 2, 3, 3, 4, 5, 8, 16384), weights=None, tag="hist"):
    nk = rng.randrange(2, 13)
    keys = gen_keys(rng, nk, adversarial)
    vals = []
    while len(vals) < rng.randrange(3, 11):
        v = gen_val(rng, adversarial, big=(rng.random() < 0.02))
        if v not in vals:
            vals.append(v)
    w = dict(put=30, put_local=8, reput=6, remove=10, get=5, step=30, deliver=18, settle=4)
    if weights:
        w.update(weights)
    names, ws = list(w.keys()), list(w.values())
    ops, lastput = [], {}
    for _ in range(n_ops):
        name = rng.choices(names, ws)[0]
        k = rng.randrange(nk) if rng.random() < 0.8 else rng.randrange(min(nk, 3))
        if name == "put":
            v = rng.randrange(len(vals))
            ops.append({"op": "put", "k": k, "v": v, "t": type_for(rng, vals[v], adversarial)})
            lastput[k] = ops[-1]
        elif name == "put_local":
            v = rng.randrange(len(vals))
            ops.append({"op": "put_local", "k": k, "v": v})
        elif name == "reput":
            if lastput:
                ops.append(dict(rng.choice(list(lastput.values()))))
        elif name == "remove":
            ops.append({"op": "remove", "k": k})
        elif name == "get":
            ops.append({"op": "get", "k": k})
        elif name == "step":
            for _ in range(rng.choice([1, 1, 1, 2, 3])):
                ops.append({"op": "step"})
        elif name == "deliver":
            ops.append({"op": "deliver", "j": rng.choice([0, 0, 0, 0, 1, 1, 2, 3, 5])})
        elif name == "settle":
            ops.append({"op": "settle"})
        elif name == "pay":
            ops.append({"op": "pay"})
        elif name == "quote":
            ops.append({"op": "quote", "k": k})
        elif name == "cleanup":
            ops.append({"op": "cleanup"})
        elif name == "set_range":
            ops.append({"op": "set_range_at", "k": k, "delta": rng.choice([-1, 0, 0, 1])})
        elif name == "crash":
            tears = []
            if rng.random() < 0.7:
                for kk in rng.sample(range(nk), rng.randrange(1, min(nk, 3) + 1)):
                    tears.append([kk, rng.choice([0, 1, 2, 3, 4, 15, 16, 17, 18, 19, 20, 24, 40, 10 ** 6])])
            ops.append({"op": "crash", "tears": tears})
    if rng.random() < 0.8:
        ops.append({"op": "settle"})
    return mk_case(rng, keys, vals, ops, rng.choice(caps), rng.choice([1, 1, 2, 2, 3, 5, 25]), tag)


# ------------------------------------------------------------------------------------------------
# book-keeping shared by the implementation-side oracles: everything is derived from what the
# implementation returned and what the hooks exposed, never from the Coq model
# ------------------------------------------------------------------------------------------------
class Trace:
    """Walks a recorded history; exposes per step: pre, post dumps, and the derived facts
    hist (values handed in per key), last decision per key, unacknowledged writes per key."""

    def __init__(self, c, o):
        self.c, self.o = c, o
        self.nk = len(c["keys"])
        self.dists = [int(x) for x in o["dists"]]
        self.hist = {k: set() for k in range(self.nk)}
        self.last = {k: None for k in range(self.nk)}      # ("put", v) | "refused" | "removed" | None
        self.unacked = {k: 0 for k in range(self.nk)}
        self.relist_risk = {k: False for k in range(self.nk)}
        self.burst = False
        self.pays = 0
        self.partial = False
        self.range_set = None      # responsible range the history last set (not persisted across a restart)
        self.threshold = o.get("consts", {}).get("max_records_count", 16384) // 10
        self.no_eviction = c["cfg"]["max_records"] > len(c["keys"])
        self.removed_now = set()
        self.flags = set()

    def steps(self):
        pre = self.o["d0"]
        for i, (op, st) in enumerate(zip(self.c["ops"], self.o["steps"])):
            post = st["dump"]
            if op["op"] in ("set_range", "set_range_at"):
                self.range_set = int(st["extra"])
            if post is None:
                # bulk step without a dump.  When the capacity exceeds the key universe nothing can be evicted
                # or refused, so the op-level facts suffice; otherwise state-based judgements are suspended
                name = op["op"]
                if name == "put" and self.no_eviction and st["out"].get("put") is True:
                    k = op["k"]
                    if self.last[k] == ("put", op["v"]) and self.unacked[k] > 0:
                        self.partial = True          # could have been the same-value shortcut
                    self.hist[k].add(op["v"])
                    self.last[k] = ("put", op["v"])
                    self.unacked[k] += 1
                elif name in ("put", "put_local"):
                    self.hist[op["k"]].add(op["v"])
                    self.partial = True
                elif name == "settle":
                    for k in range(self.nk):
                        self.unacked[k] = 0
                elif name == "pay":
                    self.pays += 1
                elif name not in ("step", "get", "quote", "set_range", "set_range_at"):
                    self.partial = True
                continue
            self.account(op, st["out"], pre, post)
            yield i, op, st["out"], pre, post
            pre = post

    def removed(self, k, pre):
        self.removed_now.add(k)
        if self.unacked[k] > 0:
            self.relist_risk[k] = True
            self.flags.add("remove-while-unacked")
        self.last[k] = "removed"

    def account(self, op, out, pre, post):
        name = op["op"]
        self.removed_now = set()
        pre_idx = {a for a, _ in pre["idx"]}
        post_idx = {a for a, _ in post["idx"]}
        if name in ("put", "put_local"):
            k, v = op["k"], op["v"]
            if name == "put_local" and out["put_local"] == 2:
                return
            self.hist[k].add(v)
            ok = out["put"] if name == "put" else out["put_local"] == 0
            early = [k, v] in pre["cache"]
            if early and ok:
                self.flags.add("early-return")
                return
            if sum(self.unacked.values()) > 0:
                self.burst = True
            if ok:
                for e in pre_idx - post_idx:
                    self.flags.add("eviction")
                    self.removed(e, pre)
                self.last[k] = ("put", v)
                self.unacked[k] += 1
            else:
                self.flags.add("refusal")
                self.last[k] = "refused"
        elif name == "remove":
            self.removed(op["k"], pre)
        elif name == "deliver":
            j = op["j"]
            if isinstance(out, dict) and "delivered" in out:
                if out["delivered"] is not None:
                    self.deliver_one(out["delivered"], pre)
            elif j < len(pre["chan"]):
                self.deliver_one(pre["chan"][j], pre)
        elif name == "cleanup":
            # what clean-up removes is judged from the property, not from what left the index: every held
            # record at or beyond the responsible range, once the store holds MAX_RECORDS_COUNT/10 records
            gone = set(pre_idx - post_idx)
            if len(pre_idx) >= self.threshold and self.range_set is not None:
                gone |= {k for k in pre_idx if k < self.nk and self.dists[k] >= self.range_set}
            for e in gone:
                self.flags.add("cleanup-removal")
                self.removed(e, pre)
        elif name == "pay":
            self.pays += 1
        elif name == "settle":
            # the harness delivered every notification in arrival order, running tasks in between; the
            # notifications are not individually recorded, but a settle acknowledges every write and a
            # failed write removes its key
            for k in range(self.nk):
                self.unacked[k] = 0
            self.flags.add("settle")
            self.resync_after_settle(pre, post)
        elif name == "crash":
            self.flags.add("crash")
            for k in range(self.nk):
                self.unacked[k] = 0
                self.last[k] = None
                self.relist_risk[k] = False
            # a clean restart (no background task left, so every metrics flush has run) keeps every payment;
            # a crash keeps what the metrics file held
            if pre["ntasks"] != 0:
                self.pays = pre["metrics"][0] if pre["metrics"] is not None else 0
            self.burst = False
            self.range_set = None

    def deliver_one(self, n, pre):
        code, k = n
        if k >= self.nk:
            return
        if code == NF:
            self.flags.add("failed-write")
            self.removed(k, pre)
            self.unacked[k] = max(0, self.unacked[k] - 1)
        else:
            self.unacked[k] = max(0, self.unacked[k] - 1)

    def resync_after_settle(self, pre, post):
        # keys whose writes cannot succeed (file name too long / empty) are removed by the failed-write
        # notification during a settle: recognised by the impl never having produced a file for them
        names = self.o["names"]
        for k in range(self.nk):
            if isinstance(self.last[k], tuple) and (len(names[k]) > 255 or len(names[k]) == 0):
                self.last[k] = "removed"


def settled(d):
    return d["ntasks"] == 0 and not d["chan"] and d.get("chan_count", 0) == 0


def node_oracle(c, o, want_restart=True):
    """NODE mode (real SwarmDriver built by build_node, real handle_local_cmd arms): every value read was put for
    that key; once settled every accepted write is listed and readable (the most recent one per key); after a
    restart with the same identity and root directory following a settle, the same holds again."""
    v = []
    nk = len(c["keys"])
    hist = {k: set() for k in range(nk)}
    last = {k: None for k in range(nk)}
    settled_ok = False
    for i, (op, st) in enumerate(zip(c["ops"], o["steps"])):
        name, out, obs = op["op"], st["out"], st["obs"]
        if name == "put_local":
            hist[op["k"]].add(op["v"])
            if out["ok"]:
                last[op["k"]] = op["v"]
            settled_ok = False
        for k, g in enumerate(obs["gets"]):
            if g != NF and g not in hist[k]:
                v.append(("get-foreign-value", "node step %d (%s): get(key %d) returned %s, never put for that key"
                          % (i, name, k, "value %d" % g if g < NF else "bytes of no known value")))
        if name == "settle":
            settled_ok = True
        judge = (name == "settle") or (name == "restart" and settled_ok and want_restart) or (name == "get" and settled_ok)
        if judge:
            listed = set(obs["listed"])
            for k in range(nk):
                if last[k] is None:
                    continue
                cls_r, cls_l = (("restart-lost-completed-write",) * 2 if name == "restart"
                                else ("settled-put-unreadable", "settled-put-unlisted"))
                if obs["gets"][k] != last[k]:
                    v.append((cls_r, "node step %d (%s): the last accepted write of key %d was value %d, get returns %s (listed: %s)"
                              % (i, name, k, last[k], obs["gets"][k], k in listed)))
                if k not in listed:
                    v.append((cls_l, "node step %d (%s): key %d was written (value %d) but is not listed" % (i, name, k, last[k])))
    return dedupe(v)


def gen_node_cases(rng, n, restarts):
    """histories for the NODE mode: bursts of 26-40 first-time puts handled before any completion notification,
    notifications delivered in arbitrary order, overwrites of keys of every kind after they left the 25-entry cache"""
    cases = []
    for _ in range(n):
        nk = rng.randrange(30, 46)
        keys = gen_keys(rng, nk, False)
        kinds = [1, 5, 2, 3]
        vals = []
        while len(vals) < 12:          # distinct values (the harness names a value by its first match)
            x = bytes([0x91, rng.choice(kinds)]) + bytes(rng.getrandbits(8) for _ in range(rng.choice([2, 6, 40])))
            if x not in vals:
                vals.append(x)
        kind_of = {k: rng.choice(kinds) for k in range(nk)}
        by_kind = {kd: [i for i, x in enumerate(vals) if x[1] == kd] for kd in kinds}
        for kd in kinds:
            while len(by_kind[kd]) < 2:
                x = bytes([0x91, kd]) + bytes(rng.getrandbits(8) for _ in range(5))
                if x not in vals:
                    vals.append(x)
                    by_kind[kd].append(len(vals) - 1)
        ops = []
        burst = rng.sample(range(nk), rng.randrange(26, min(nk, 40) + 1))
        for k in burst:
            ops.append({"op": "put_local", "k": k, "v": rng.choice(by_kind[kind_of[k]])})
            if rng.random() < 0.15:
                ops.append({"op": "step", "n": rng.randrange(1, 4)})
        ops.append({"op": "step", "n": rng.choice([0, 30, 200])})
        ops += [{"op": "deliver", "j": rng.randrange(0, 50)} for _ in range(rng.randrange(0, 12))]
        ops.append({"op": "settle"})
        # overwrites (same kind, different bytes) of keys that left the read cache long ago
        for k in rng.sample(burst[:max(1, len(burst) - 26)] or burst[:1], min(4, max(1, len(burst) - 26))):
            other = [x for x in by_kind[kind_of[k]]]
            ops.append({"op": "put_local", "k": k, "v": rng.choice(other)})
            ops.append({"op": "put_local", "k": k, "v": rng.choice(other)})
        ops += [{"op": "step", "n": 20}, {"op": "settle"}, {"op": "get", "k": burst[0]}]
        for _ in range(restarts):
            ops += [{"op": "restart"}, {"op": "get", "k": burst[0]}]
            if rng.random() < 0.5:
                k = rng.choice(burst)
                ops += [{"op": "put_local", "k": k, "v": rng.choice(by_kind[kind_of[k]])}, {"op": "settle"}]
        peer = bytes(rng.getrandbits(8) for _ in range(32))
        cases.append({"kind": "node", "tag": "node", "cfg": {"peer": peer.hex()}, "keys": [k.hex() for k in keys],
                      "vals": [x.hex() for x in vals], "ops": ops})
    return cases


def oracle(c, o):
    """C01 stated on what the real store did: (1) get only ever returns a value that was handed in for
    that key; (2) in a settled state the last accepted write of a key is readable and listed, a removed
    key is neither; (3) the listing views agree with each other."""
    if o is None:
        return []
    if "panic" in o:
        return [("panic", "the store panicked: %s" % o["panic"])]
    if c.get("kind") == "header":
        return []
    if c.get("kind") == "node":
        return node_oracle(c, o, want_restart=False)
    if c.get("kind") == "stress":
        v = []
        if o["refused"] or o["accepted"] != c["n"]:
            v.append(("stress-put-refused", "parallel stress: %d of %d validated puts accepted below capacity" % (o["accepted"], c["n"])))
        if o["failed"]:
            v.append(("stress-write-reported-failed", "parallel stress (%d overlapping writes of %d-%d bytes to distinct keys): the writes of "
                      "keys %s were reported failed (RemoveFailedLocalRecord) although nothing was wrong with them"
                      % (c["n"], c["size_min"], c["size_max"], o["failed"][:8])))
        wrong = [b for b in o["bad"] if b["got"] == "other"]
        gone = [b for b in o["bad"] if b["got"] == "nothing"]
        if wrong:
            v.append(("get-foreign-value", "parallel stress: get(key %d) returned %s" % (
                wrong[0]["k"], "the record of key %s" % wrong[0]["value_of_key"] if wrong[0]["value_of_key"] is not None
                else "%d bytes that are no record handed in" % wrong[0]["len"])))
        if gone:
            v.append(("settled-put-unreadable", "parallel stress: settled, %d accepted writes unreadable (first: key %d, listed: %s)"
                      % (len(gone), gone[0]["k"], gone[0].get("listed"))))
        if o["listed"] != o["accepted"] - len(o["failed"]):
            v.append(("settled-put-unlisted", "parallel stress: %d keys listed, %d writes accepted" % (o["listed"], o["accepted"])))
        if o["leftover_files"]:
            v.append(("stray-file-in-storage-dir", "parallel stress: files %s are left in the storage dir" % o["leftover_files"][:3]))
        return v
    v = []
    t = Trace(c, o)
    crashed = False
    for i, op, out, pre, post in t.steps():
        crashed = crashed or op["op"] == "crash"
        for k, g in enumerate(post["gets"]):
            if g != NF and g not in t.hist[k]:
                v.append(("get-foreign-value", "step %d (%s): get(key %d) returned %s, never handed in for that key"
                          % (i, op["op"], k, "value %d" % g if g < NF else "bytes of no known value / a wrong key")))
        if op["op"] == "get" and out["get"] != NF and out["get"] not in t.hist[op["k"]]:
            v.append(("get-foreign-value", "step %d: get(key %d) returned a value never handed in for it" % (i, op["k"])))
        # an UNVERIFIED inbound put never changes what the store holds, lists or serves (it only forwards the record
        # for validation): its bytes are not "handed to it as a validated record"
        if op["op"] == "put_unverified":
            for fld in ("idx", "cache", "files", "gets", "bydist"):
                if pre[fld] != post[fld]:
                    v.append(("unverified-put-changed-the-store", "step %d: the unverified put of value %d for key %d changed %s "
                              "from %s to %s" % (i, op["v"], op["k"], fld, str(pre[fld])[:80], str(post[fld])[:80])))
                    break
        # a key taken out by this very step (explicit remove, eviction, clean-up, failed write) is not served any more,
        # settled or not: the removal clears the index entry and the read-cache entry at once
        for k in t.removed_now:
            if k < t.nk and post["gets"][k] != NF and not (op["op"] in ("put", "put_local") and op["k"] == k):
                v.append(("removed-still-readable", "step %d (%s): key %d was just removed but get still returns value %s "
                          "(left in the read cache?)" % (i, op["op"], k, post["gets"][k])))
        # a served record is held or a write of it is still unacknowledged (holds since the repair of put_verified)
        if not t.partial:
            held_now = {a for a, _ in post["idx"]}
            for k, g in enumerate(post["gets"]):
                if g != NF and k not in held_now and t.unacked[k] == 0:
                    v.append(("serves-record-neither-held-nor-in-flight",
                              "step %d (%s): get(key %d) returns value %s although the key is not listed and no write of it "
                              "is in flight (a record refused at capacity left in the read cache?)" % (i, op["op"], k, g)))
        if sorted(b[1] for b in post["bydist"]) != [a for a, _ in post["idx"]]:
            v.append(("listing-views-differ", "step %d (%s): the distance index holds keys %s..., the record index %s..."
                      % (i, op["op"], sorted(b[1] for b in post["bydist"])[:6], [a for a, _ in post["idx"]][:6])))
        if post["idx"] != post["idx2"] or [a for a, _ in post["idx"]] != [k for k, b in enumerate(post["contains"]) if b]:
            v.append(("listing-views-differ", "step %d: record_addresses / record_addresses_ref / contains disagree" % i))
        if settled(post) and not crashed and not t.partial:
            listed = {a for a, _ in post["idx"]}
            for k in range(t.nk):
                l = t.last[k]
                if isinstance(l, tuple):
                    if post["gets"][k] != l[1]:
                        v.append(("settled-put-unreadable", "step %d: settled, last accepted write of key %d was value %d "
                                  "but get returns %s" % (i, k, l[1], post["gets"][k])))
                    if k not in listed:
                        v.append(("settled-put-unlisted", "step %d: settled, key %d written but not listed" % (i, k)))
                elif l == "removed":
                    if post["gets"][k] != NF:
                        v.append(("removed-still-readable", "step %d: settled, key %d was removed but get returns value %s"
                                  % (i, k, post["gets"][k])))
                    if k in listed:
                        cls = "late-notification-relists-removed-key" if t.relist_risk[k] else "removed-still-listed"
                        v.append((cls, "step %d: settled, key %d was removed (while a write of it was still "
                                  "unacknowledged: %s) but is listed; get returns %s"
                                  % (i, k, t.relist_risk[k], "nothing" if post["gets"][k] == NF else post["gets"][k])))
    return dedupe(v)


def dedupe(v):
    seen, out = set(), []
    for cls, d in v:
        if cls not in seen:
            seen.add(cls)
            out.append((cls, d))
    return out


def nontrivial(c, o):
    if c.get("kind") == "node" and o is not None:
        return ("node", len(c["keys"]), len(c["ops"]) // 10, sum(1 for op in c["ops"] if op["op"] == "restart"))
    if c.get("kind") == "stress" and o is not None:
        return ("stress", c["n"], c["workers"], c["size_max"])
    if o is None or "steps" not in o:
        return None
    kinds = frozenset(op["op"] for op in c["ops"])
    ev = set()
    for op, st in zip(c["ops"], o["steps"]):
        out = st["out"]
        if isinstance(out, dict) and out.get("put") is False or isinstance(out, dict) and out.get("put_local") == 1:
            ev.add("refused")
        if st["dump"] and any(n[0] == NF for n in st["dump"]["chan"]):
            ev.add("failed-write")
    cap = c["cfg"]["max_records"]
    return (kinds, "default" if cap > 100 else cap, frozenset(ev), min(len(c["ops"]) // 10, 6), c["cfg"]["cache_size"])


def header_cases(rng, n):
    cs = []
    for a in [0x91, 0x81, 0x92, 0x90, 0xdc]:
        for b in list(range(0, 10)) + [0x7f, 0x80, 0xcc, 0xcd, 0xce, 0xcf, 0xd0, 0xd1, 0xd2, 0xd3, 0xe0, 0xff, 0xa0, 0xc0, 0xc2, 0xca]:
            for cc in [0, 1, 5, 7, 8, 0x7f, 0x80, 0xff]:
                cs.append({"kind": "header", "bytes": [a, b, cc]})
    cs += [{"kind": "header", "bytes": bs} for bs in ([], [0x91], [0x91, 1], [0x91, 1, 0, 0], [0x91, 0xcd, 0, 1], [0x91, 0xcc, 1])]
    while len(cs) < n:
        cs.append({"kind": "header", "bytes": [rng.getrandbits(8) for _ in range(rng.choice([2, 3, 3, 4]))]})
    return cs


def gen(ctx):
    rng = ctx.rng
    quick = ctx.tier == "quick"
    n = 260 if quick else 5000
    cases = []
    for i in range(n):
        adv = i % 4 == 3
        cases.append(gen_history(rng, rng.choice([4, 8, 15, 25, 40, 60]), adversarial=adv,
                                 tag="adversarial" if adv else "structured"))
    # the late-notification shape (F13) reached through eviction while a key is being overwritten
    for i in range(20 if quick else 300):
        cases.append(gen_history(rng, rng.choice([10, 20, 30]), caps=(1, 2, 2, 3),
                                 weights=dict(put=40, remove=20, step=25, deliver=8, settle=2), tag="relist-directed"))
    # keys LONGER than 32 bytes that share exactly their first 32 bytes (34, 38, 100, 127 and 128 bytes) and differ
    # after: both written, the 1-3 entry cache churned, both read, one removed, the other read again
    for i in range(30 if quick else 400):
        base32 = bytes(rng.getrandbits(8) for _ in range(32))
        lens = rng.sample([34, 34, 38, 38, 100, 127, 128, 33], 3)
        keys = []
        for ln in lens:
            k = base32 + bytes(rng.getrandbits(8) for _ in range(ln - 32))
            if k not in keys:
                keys.append(k)
        keys += [base32] + gen_keys(rng, 2, False)
        nk = len(keys)
        vals = []
        while len(vals) < 5:
            x = bytes([0x91, rng.choice(KINDS_STORED)]) + bytes(rng.getrandbits(8) for _ in range(rng.choice([3, 9, 30])))
            if x not in vals:
                vals.append(x)
        ops = []
        for k in rng.sample(range(nk), nk):
            v = rng.randrange(5)
            ops.append({"op": "put", "k": k, "v": v, "t": type_for(rng, vals[v], False)})
            ops += rng.choice([[{"op": "settle"}], [{"op": "step"}] * rng.randrange(0, 4), []])
        ops.append({"op": "settle"})
        ops += [{"op": "get", "k": k} for k in range(nk)]
        gone = rng.randrange(0, min(3, nk))
        ops += [{"op": "remove", "k": gone}, {"op": "settle"}] + [{"op": "get", "k": k} for k in range(nk)]
        ops += [{"op": "put", "k": gone, "v": rng.randrange(5), "t": 2}, {"op": "settle"}]
        cases.append(mk_case(rng, keys, vals, ops, 16384, rng.choice([1, 2, 3]), "shared-32-byte-prefix"))
    # validated puts around and above the size limit of the UNVERIFIED put(): put_verified has no size gate and
    # neither has the disk path of get, so every such record must be readable after it left the 1-2 entry cache
    for i in range(24 if quick else 400):
        mvb = rng.choice([64, 100, 256])
        nk = rng.randrange(3, 7)
        keys = gen_keys(rng, nk, False)
        lens = [mvb - 17, mvb - 16, mvb - 15, mvb - 1, mvb, mvb + 1, 2 * mvb, 5 * mvb + 3, 10]
        rng.shuffle(lens)
        vals = [bytes([0x91, rng.choice(KINDS_STORED)]) + bytes(rng.getrandbits(8) for _ in range(n - 2)) for n in lens[:6]]
        ops = []
        for j in range(rng.randrange(3, 9)):
            v = rng.randrange(len(vals))
            ops.append({"op": "put", "k": rng.randrange(nk), "v": v, "t": type_for(rng, vals[v], False)})
            ops += rng.choice([[{"op": "settle"}], [{"op": "step"}] * rng.randrange(0, 4), []])
        ops.append({"op": "settle"})
        ops += [{"op": "get", "k": k} for k in range(nk)]
        cc = mk_case(rng, keys, vals, ops, 16384, rng.choice([1, 1, 2]), "size-limit")
        cc["cfg"]["max_value_bytes"] = mvb
        cases.append(cc)
    # a SMALL command channel (capacity 1-3) that the driver drains late: more write completions than free
    # slots; nothing may be lost (the senders wait): once settled every accepted write is listed and readable,
    # also after it has left the 1-2 entry read cache
    for i in range(40 if quick else 800):
        nk = rng.randrange(4, 10)
        keys = gen_keys(rng, nk, False)
        vals = [bytes([0x91, rng.choice(KINDS_STORED)]) + bytes(rng.getrandbits(8) for _ in range(rng.choice([1, 5, 30]))) for _ in range(4)]
        ops = []
        for burst in range(rng.randrange(1, 4)):
            ks = rng.sample(range(nk), rng.randrange(2, nk + 1))
            for k in ks:
                v = rng.randrange(4)
                ops.append({"op": "put", "k": k, "v": v, "t": type_for(rng, vals[v], False)})
            ops += [{"op": "step"}] * rng.choice([len(ks), 2 * len(ks), 3 * len(ks) + 2])
            ops += [{"op": "deliver", "j": 0}] * rng.randrange(0, 3)
            ops += [{"op": "step"}] * rng.randrange(0, 4)
            if rng.random() < 0.3:
                ops.append({"op": "remove", "k": rng.choice(ks)})
        ops.append({"op": "settle"})
        ops += [{"op": "get", "k": k} for k in range(nk)]
        cc = mk_case(rng, keys, vals, ops, 16384, rng.choice([1, 2, 2, 25]), "small-channel")
        cc["cfg"]["chan_cap"] = rng.choice([1, 1, 2, 3])
        cases.append(cc)
    # store-initiated removal: a store above the clean-up threshold (MAX_RECORDS_COUNT/10 = 1638 records, a global
    # constant), a responsible range, the real cleanup_irrelevant_records, settle: the keys beyond the range are
    # neither listed nor readable, the others still are
    import os
    for n in ([1640] if quick else [1638, 1640, 1700]):
        if os.environ.get("VERIF_SKIP_BIG"):
            continue
        keys = gen_keys(rng, n, False)
        vals = [bytes([0x91, 1, 7]), bytes([0x91, 1, 8])]
        case_peer = bytes(rng.getrandbits(8) for _ in range(32))
        byd = sorted(range(n), key=lambda k: py_distance(case_peer, keys[k]))
        ops = [{"op": "put", "k": k, "v": 0, "t": 0, "nodump": True} for k in range(n)]
        ops.append({"op": "settle", "nodump": True})
        # the LAST puts before the clean-up include keys beyond the range (they sit in the 25-entry read cache) and
        # keys inside it
        recent = rng.sample(byd[(2 * n) // 3 + 1:], 9) + rng.sample(byd[:(2 * n) // 3], 5)
        rng.shuffle(recent)
        ops += [{"op": "put", "k": k, "v": 1, "t": 0, "nodump": True} for k in recent]
        ops += [{"op": "settle"}, {"op": "set_range_at", "k": byd[(2 * n) // 3], "delta": rng.choice([-1, 0, 1]), "nodump": True},
                {"op": "cleanup"}, {"op": "get", "k": recent[0], "nodump": True}, {"op": "settle"},
                {"op": "put", "k": byd[-2], "v": 1, "t": 0, "nodump": True}, {"op": "settle"}]
        cc = mk_case(rng, keys, vals, ops, 16384, 25, "cleanup-%d" % n)
        cc["cfg"]["peer"] = case_peer.hex()
        cases.append(cc)
    # unverified inbound puts (the kad RecordStore::put) of DIFFERENT bytes for keys whose validated record of every kind
    # is held / cached / in flight, interleaved with validated puts and reads, with 1-25 entry caches (oracle only)
    for i in range(40 if quick else 600):
        cc = gen_history(rng, rng.choice([10, 20, 35]), adversarial=False, caps=(2, 16384, 16384),
                         weights=dict(put=30, put_local=10, remove=4, get=6, step=25, deliver=15, settle=8), tag="unverified-mix")
        nk, nv = len(cc["keys"]), len(cc["vals"])
        ops = []
        for op in cc["ops"]:
            ops.append(op)
            if rng.random() < 0.35:
                k = op.get("k", rng.randrange(nk))
                ops.append({"op": "put_unverified", "k": k, "v": rng.randrange(nv)})
                if rng.random() < 0.5:
                    ops.append({"op": "get", "k": k})
        cc["ops"] = ops + [{"op": "settle"}] + [{"op": "put_unverified", "k": k, "v": rng.randrange(nv)} for k in range(nk)] + [{"op": "settle"}]
        cases.append(cc)
    # NODE mode (oracle only): the real handle_local_cmd arms on a SwarmDriver built by build_node
    cases += gen_node_cases(rng, 25 if quick else 400, restarts=0)
    # PARALLEL STRESS (oracle only): multi-thread runtime, 100+ validated puts of 256-512 KiB to distinct keys back
    # to back so that the write tasks of different keys truly overlap, notifications handled concurrently
    for i in range(3 if quick else 40):
        cases.append({"kind": "stress", "n": rng.choice([100, 120, 160]) if quick else rng.choice([120, 200, 400]),
                      "size_min": 262144, "size_max": 524288, "workers": rng.choice([6, 8]), "seed": rng.getrandbits(48),
                      "chan_cap": rng.choice([10000, 10000, 64])})
    cases += header_cases(rng, 400 if quick else 3000)
    if not quick:
        cases += exhaustive_two_key(ctx)
    return cases


def exhaustive_two_key(ctx):
    """every 2-key history of <= 4 API ops, each followed by every prefix of the first-in first-out
    schedule and every notification order (bounded enumeration used only for the correspondence)"""
    import itertools
    rng = ctx.rng
    keys = gen_keys(rng, 2, False)
    vals = [bytes([0x91, 1]) + b"a", bytes([0x91, 5]) + b"bb"]
    api = [{"op": "put", "k": k, "v": v, "t": 2} for k in (0, 1) for v in (0, 1)] + [{"op": "remove", "k": k} for k in (0, 1)]
    cases = []
    for n in (1, 2, 3):
        for seq in itertools.product(api, repeat=n):
            for steps_between in (0, 1, 2):
                for order in ((0, 0, 0, 0), (1, 0, 0, 0), (2, 1, 0, 0)):
                    ops = []
                    for a in seq:
                        ops.append(dict(a))
                        ops += [{"op": "step"}] * steps_between
                    ops += [{"op": "step"}] * 8
                    ops += [{"op": "deliver", "j": j} for j in order]
                    ops.append({"op": "settle"})
                    cases.append(mk_case(rng, keys, vals, ops, rng.choice([1, 2, 16384]), rng.choice([1, 2, 25]), "exhaustive-2key"))
    return cases


RELATION = ("NodeRecordStore (via UnifiedRecordStore) put_verified/remove/get/mark_as_stored/background tasks "
            "== RecordStore.step, lock-step on outputs and on records / records_by_distance / farthest_record / "
            "cache / files / pending notifications / task count / metrics")


def run(ctx):
    ctx.regen_consts()
    ctx.prove("props/C01.v", THEOREMS, extra_trusted=[
        "model coq/model/RecordStore.v (hand-written) tied to record_store.rs / record_store_api.rs / cmd.rs by "
        "this run's lock-step correspondence",
        "translator tools/consts.d/store.py: MAX_RECORDS_COUNT, cache size, clean-up divisor, record kind tags, "
        "ant-node default features",
        "harness/crates/c01 (Rust driver; hook module record_store::verif), tools/props/C01.py (generator, "
        "oracle, canonicaliser)"])
    binary = ctx.cargo_build("c01")
    cases = ctx.corpus() + ([] if ctx.replay else gen(ctx))
    ctx.pipeline(cases, binary, oracle, model_term, IMPORTS, nontrivial=nontrivial, show=show,
                 relation=RELATION, shard_size=24)
