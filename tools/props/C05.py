"""C05 -- quorum reads return only what enough distinct peers agree on
(ant-networking: event/kad.rs, cmd.rs GetNetworkRecord, driver.rs GetRecordCfg, lib.rs
get_record_from_network / handle_split_record_error)."""
import contextlib
import itertools
import json
import os
import re
import shutil

from vpc import core
from vpc.core import REPO, cN, cbool, clist, copt

IMPORTS = "Require Import V.model.GetRecord."
THEOREMS = [
    "constants_consistent", "one_outcome_per_caller", "terminating_event_ends_wait",
    "dedup_order_irrelevant", "outcomes_independent_of_expected_holders",
    "step_independent_of_expected_holders", "ok_is_a_reply", "ok_needs_quorum", "ok_under_query_cfg",
    "below_quorum", "finished_never_ok_unchecked", "timeout_never_ok",
    "split_returns_all_versions", "split_is_complete", "split_carries_every_version", "merged_is_transaction_union", "merged_covers_all",
    "merge_perm_invariant", "split_tx_is_union", "split_reg_is_union", "split_pad_is_max",
    "api_ok_is_reply_or_merge", "api_ok_from_single_attempt", "api_err_is_an_attempts_error",
    "joined_caller_refuted", "merge_forked_register_refuted", "merge_mixed_kinds_refuted",
    "merge_scratchpad_tie_refuted", "merged_drops_quorum_version_refuted",
]
RULE = ("histories of 2-14 events on a real client-mode SwarmDriver: 1-4 callers (raw oneshot callers and real "
        "get_record_from_network futures, 15 %% of the histories being multi-attempt reads: RetryStrategy::N(2..4), quorum >= 2, the "
        "harness playing the driver in every attempt with the same single holder / fresh peers / one more peer per attempt "
        "answering, on a paused tokio clock so the real back-off sleeps are free; reads by a NODE whose own record store holds the "
        "same / other / no content for the key, every quorum; reads with 5-8 distinct versions in one GET, sampled arrival "
        "orders; duplicated replies followed by a finish below the quorum; every progress event carries the step count libp2p "
        "would report -- reply n has count n, the finish has replies + 1 -- or a smaller / larger one) on 1-2 keys with equal/different quorum (One, Majority, All, N(1..7), "
        "N(huge)) / target / is_register / expected_holders settings (empty, subset / superset of / disjoint from the "
        "responders, the local peer; fewer, as many and more holders than the quorum; holders answering first or last), 0-8 responders incl. the local peer (None and Some(self)), 1-4 "
        "content versions (chunks, transactions, registers, scratchpads, unparsable headers, payment kinds; same "
        "content under different key/publisher), duplicated replies, every terminating event (finished, not found, "
        "quorum failed, timeout), events for completed queries, dropped receivers; thorough: all arrival orders of "
        "small reply multisets x every terminator. split cases: 2-4 versions (same kind / mixed kinds / forked bases / "
        "counter ties / invalid signatures) merged 16-48 times on fresh hash maps. target cases: does_target_match on "
        "all pairs of a small record universe. A case is non-trivial/distinct by (kind, multiset of outcome classes, "
        "number of versions, number of callers, terminator, quorum kinds).")
ASSUMPTIONS = [
    "content hash = content: XorName::from_content is collision free on the contents used (records are abstract "
    "(header kind, typed payload) terms, mapped injectively to real encodings by the harness)",
    "signatures are the booleans returned by the real SignedRegister::verify / Scratchpad::is_valid on records built "
    "with real BLS keys (C06/C07 own what those verifiers accept)",
    "Record::expires is None in every generated record",
    "the never-polled kad behaviour assigns fresh QueryIds (libp2p) and does not act on the queries",
    "the byte order of a transaction merge built from a HashSet (lib.rs) is compared as a set",
]

KINDS = {0: "KChunkPay", 1: "KChunk", 2: "KTx", 3: "KReg", 4: "KRegPay", 5: "KPad", 6: "KPadPay", 7: "KTxPay"}
MAX_REG = 1024


def close_group_size():
    src = open(os.path.join(REPO, "ant-protocol/src/lib.rs")).read()
    m = re.search(r"pub const CLOSE_GROUP_SIZE: usize = (\d+);", src)
    return int(m.group(1)) if m else 5


# ------------------------------------------------------------------------------------------------
# spec constructors (what travels to the harness)

def c_raw(i, hdr=1):
    return {"hdr": hdr, "p": ["raw", i]}


def c_tx(ids, hdr=2):
    return {"hdr": hdr, "p": ["tx", list(ids)]}


def reg_valid(base, ids, salt):
    return salt == 0 and (base % 2 == 0 or all(i < 100 for i in ids)) and len(ids) < MAX_REG


def c_reg(base, ids, salt=0, hdr=3):
    ids = sorted(set(ids))
    return {"hdr": hdr, "p": ["reg", base, reg_valid(base, ids, salt), ids, salt]}


def c_pad(valid, count, data, hdr=5):
    return {"hdr": hdr, "p": ["pad", bool(valid), count, data]}


def rec(key, c, pub=None):
    return {"key": key, "pub": pub, "c": c}


def cfg(q, target=None, isreg=False, retry=0, holders=()):
    return {"q": q, "target": target, "isreg": isreg, "retry": retry, "holders": list(holders)}


# ------------------------------------------------------------------------------------------------
# rendering to Gallina

def g_content(c):
    p = c["p"]
    k = "None" if c["hdr"] is None or c["hdr"] not in KINDS else "(Some %s)" % KINDS[c["hdr"]]
    if p[0] == "tx":
        if any(i < 0 for i in p[1]):
            return None
        pay = "(PTx %s)" % clist([cN(i) for i in p[1]])
    elif p[0] == "reg":
        if p[1] < 0 or any(i < 0 for i in p[3]) or p[4] > 1:
            return None
        pay = "(PReg %s %s %s %s)" % (cN(p[1]), cbool(p[2]), clist([cN(i) for i in p[3]]), cN(p[4]))
    elif p[0] == "pad":
        if p[3] < 0:
            return None
        pay = "(PPad %s %s %s)" % (cbool(p[1]), cN(p[2]), cN(p[3]))
    elif p[0] == "raw":
        pay = "(POpaque %s)" % cN(p[1])
    else:
        return None
    return "(Build_content %s %s)" % (k, pay)


def g_record(r):
    if r is None:
        return None
    c = g_content(r["c"])
    if c is None or r["key"] < 0 or r.get("exp"):
        return None
    if r["pub"] is not None and r["pub"] < 0:
        return None
    return "(Build_record %s %s %s)" % (cN(r["key"]), c, copt(r["pub"], cN))


def g_quorum(q):
    return {"one": "QOne", "maj": "QMajority", "all": "QAll"}.get(q[0]) or "(QN %s)" % cN(q[1])


def g_cfg(c):
    t = "None"
    if c.get("target") is not None:
        r = g_record(c["target"])
        if r is None:
            return None
        t = "(Some %s)" % r
    hs = c.get("holders") or []
    return "(Build_cfg %s %s %s %s)" % (g_quorum(c["q"]), t, cbool(c.get("isreg", False)), clist([cN(h) for h in hs]))


def g_versions(vs):
    out = []
    for v in vs:
        r = g_record(v[0])
        if r is None or any(p < 0 for p in v[1]):
            return None
        out.append("(%s, %s)" % (r, clist([cN(p) for p in v[1]])))
    return clist(out)


def g_outcome(o):
    if "ok" in o:
        r = g_record(o["ok"])
        return None if r is None else "(OOk %s)" % r
    if o.get("closed"):
        return "EClosed"
    e = o.get("err")
    if e == "notfound":
        return "ENotFound"
    if e == "timeout":
        return "ETimeout"
    if e == "mismatch":
        r = g_record(o["rec"])
        return None if r is None else "(EMismatch %s)" % r
    if e == "notenough":
        r = g_record(o["rec"])
        return None if r is None else "(ENotEnough %s %s %s)" % (r, cN(o["expected"]), cN(o["got"]))
    if e == "split":
        if not all(v[2] for v in o["vers"]):
            return None          # a map key that is not the hash of its record
        vs = g_versions(o["vers"])
        return None if vs is None else "(ESplit %s)" % vs
    return None


def g_api(o):
    if "api_ok" in o:
        r = g_record(o["api_ok"])
        return None if r is None else "(AOk %s)" % r
    e = o["api_err"]
    if e.get("err") == "chan":
        return "AChan"
    x = g_outcome(e)
    return None if x is None else "(AErr %s)" % x


def g_event(ev, step):
    k = ev["e"]
    if k in ("cmd", "await_cmd"):
        c = g_cfg(ev["cfg"])
        return None if c is None else "(Cmd %s %s)" % (cN(step["cmd_key"]), c)
    if k == "found":
        r = g_record(ev["rec"])
        return None if r is None else "(Found %s %s %s)" % (cN(ev["q"]), copt(ev["peer"], cN), r)
    if k == "drop":
        return "(Drop %s)" % cN(ev["c"])
    return "(%s %s)" % ({"finished": "Finished", "notfound": "ErrNotFound", "quorumfailed": "ErrQuorumFailed",
                         "timeout": "ErrTimeout"}[k], cN(ev["q"]))


def g_dump(d):
    vs = g_versions(d["vers"])
    if vs is None or d["q"] < 0 or d["key"] < 0:
        return None
    t = "None"
    if d["target"] is not None:
        r = g_record(d["target"])
        if r is None:
            return None
        t = "(Some %s)" % r
    if any(h < 0 for h in d["holders"]):
        return None
    return "(%s, %s, %s, %s, %s, %s, %s, %s)" % (cN(d["q"]), cN(d["key"]), cN(d["senders"]), vs,
                                               g_quorum(d["quorum"]), t, cbool(d["isreg"]),
                                               clist([cN(h) for h in d["holders"]]))


RET = {"ok": "ROk", "dropped": "RDropped", "chan": "RChan"}


# ------------------------------------------------------------------------------------------------
# reading a history the implementation ran

class Hist:
    """Bookkeeping over the *observed* execution (independent of the Coq model)."""

    def __init__(self, case, out):
        self.case, self.out = case, out
        self.executed = []           # (event, step) actually run by the implementation
        self.callers = []            # per cid: dict(key,cfg,q,created,api,task,step)
        self.api_tasks = {}          # first cid -> list of attempt cids
        self.outcomes = {}           # cid -> [(step index, outcome json)]
        self.dropped = set()
        evs, steps = case["events"], out["steps"]
        last_api = None
        for i, (ev, st) in enumerate(zip(evs, steps)):
            if st.get("no_such_query") or st.get("no_cmd"):
                continue
            ev = dict(ev)
            if ev["e"] == "cmd":
                cid = len(self.callers)
                self.callers.append({"key": ev["key"], "cfg": ev["cfg"], "q": st["q"], "created": st.get("created"),
                                     "api": bool(ev.get("api")), "task": cid, "step": i})
                if ev.get("api"):
                    self.api_tasks[cid] = [cid]
                    last_api = cid
            elif ev["e"] == "await_cmd":
                task = ev.get("task", last_api)
                cid = len(self.callers)
                base = self.callers[task]
                ev["cfg"] = base["cfg"]
                self.callers.append({"key": st["cmd_key"], "cfg": base["cfg"], "q": st["q"],
                                     "created": st.get("created"), "api": True, "task": task, "step": i})
                self.api_tasks[task].append(cid)
            elif ev["e"] == "drop":
                if ev["c"] < len(self.callers) and not self.callers[ev["c"]]["api"]:
                    if not self.outcomes.get(ev["c"]):
                        self.dropped.add(ev["c"])
                else:
                    continue
            self.executed.append((ev, st, i))
            for cid, o in st["outs"]:
                self.outcomes.setdefault(cid, []).append((i, o))
        self.final_pending = steps[-1]["pending"] if steps else []

    def replies(self, q, upto):
        """(peer, content-json) of every reply fed to query q up to and including step `upto`,
        starting at the step that created the query."""
        out = []
        for ev, st, i in self.executed:
            if i > upto:
                break
            if ev["e"] == "found" and ev["q"] == q and st.get("ret") != "dropped":
                out.append((0 if ev["peer"] is None else ev["peer"], json.dumps(ev["rec"]["c"], sort_keys=True), ev["rec"]))
        return out


def quorum_value(q, cgs):
    return {"one": 1, "maj": cgs // 2 + 1, "all": cgs}.get(q[0]) or q[1]


def target_ok(c, r):
    t = c.get("target")
    if t is None:
        return True
    if c.get("isreg"):
        a, b = t["c"]["p"], r["c"]["p"]
        return a[0] == "reg" and b[0] == "reg" and a[1] == b[1] and a[3] == b[3]
    return t["key"] == r["key"] and t["pub"] == r["pub"] and t["c"] == r["c"] and not r.get("exp")


def same_cfg(a, b):
    return a["q"] == b["q"] and a.get("target") == b.get("target") and bool(a.get("isreg")) == bool(b.get("isreg"))


def cjson(c):
    return json.dumps(c, sort_keys=True)


def spec_merge(versions, key):
    """Order-independent reading of 'deterministic merge' for split versions (content specs).
    Returns ("class", id) when the versions are in a class where the code's result depends on the
    map order, else ("res", None | content)."""
    distinct = []
    for c in versions:
        if cjson(c) not in [cjson(d) for d in distinct]:
            distinct.append(c)
    if len(distinct) <= 1:
        return ("res", None)
    parsable = [c for c in distinct if c["hdr"] in KINDS]
    kinds = {c["hdr"] for c in parsable}
    if not parsable:
        return ("res", None)
    if len(kinds) > 1:
        return ("class", "F11-mixed-kinds")
    k = kinds.pop()
    if k == 2:
        u = sorted({i for c in parsable if c["p"][0] == "tx" for i in c["p"][1]})
        return ("res", c_tx(u) if len(u) > 1 else None)
    if k == 3:
        regs = [c["p"] for c in parsable if c["p"][0] == "reg" and c["p"][2]]
        if not regs:
            return ("res", None)
        if len({(p[1], p[4]) for p in regs}) > 1:
            return ("class", "F11-forked-register")
        u = sorted({i for p in regs for i in p[3]})
        return ("res", {"hdr": 3, "p": ["reg", regs[0][1], True, u, regs[0][4]]})
    if k == 5:
        pads = [c["p"] for c in parsable if c["p"][0] == "pad" and c["p"][1]]
        if not pads:
            return ("res", None)
        m = max(p[2] for p in pads)
        top = {p[3] for p in pads if p[2] == m}
        if len(top) > 1:
            return ("class", "F11-scratchpad-tie")
        return ("res", c_pad(True, m, top.pop()))
    return ("res", None)


def content_modtx(c):
    """merged transaction sets are compared as sets; a merged register's validity flag is not compared"""
    if c is None:
        return None
    p = list(c["p"])
    if p[0] == "tx":
        p[1] = sorted(set(p[1]))
    return cjson({"hdr": c["hdr"], "p": p})


def canon_results(results):
    """handle_split_record_error collects merged transactions from a HashSet: the encoded order of
    the union differs from run to run; results are compared as sets of transactions"""
    out = []
    for r in results:
        if "some" in r and r["some"]["c"]["p"][0] == "tx":
            r = json.loads(json.dumps(r))
            r["some"]["c"]["p"][1] = sorted(r["some"]["c"]["p"][1])
        if cjson(r) not in [cjson(x) for x in out]:
            out.append(r)
    return out


def check_abs(pairs):
    """the real parsers must read every generated content the way its spec says (ties the abstract
    contents to the real encodings)"""
    v = []
    for spec, got in pairs:
        p = spec["p"]
        hdr = spec["hdr"] if spec["hdr"] in KINDS else None
        want = {"hdr": hdr, "reg": p[2] if p[0] == "reg" else None,
                "pad": [p[1], p[2]] if p[0] == "pad" else None,
                "tx": len(p[1]) if p[0] == "tx" else None,
                "gettx": hdr == 2 and p[0] == "tx"}
        if want != got:
            v.append(("encoding-drift", "content %s is read by the real parsers as %s, the generator expects %s"
                      % (cjson(spec), cjson(got), cjson(want))))
    return v


def oracle_factory(cgs):
    def oracle(case, o):
        """The property stated directly on what the real code did."""
        if o is None:
            return []
        if "panic" in o:
            return [("panic", "%s case panicked: %s" % (case["kind"], o["panic"]))]
        v = []
        if case["kind"] == "quorum":
            want = quorum_value(case["q"], cgs)
            if o["value"] != want:
                v.append(("quorum-value", "get_quorum_value(%s) = %s, expected %s" % (case["q"], o["value"], want)))
            return v
        if case["kind"] == "target":
            v += check_abs(o["abs"])
            want = target_ok(case["cfg"], case["rec"])
            if o["match"] != want:
                v.append(("target-match", "does_target_match(%s, %s) = %s" % (cjson(case["cfg"]), cjson(case["rec"]), o["match"])))
            return v
        if case["kind"] == "split":
            v += check_abs(o["abs"])
            res = canon_results(o["results"])
            kind, val = spec_merge([r["c"] for r in case["vers"]], case["key"])
            if any("error" in r for r in res):
                v.append(("merge-error", "handle_split_record_error failed: %s" % res))
            elif len(res) > 1:
                cls = val if kind == "class" else "merge-order-dependent"
                v.append((cls, "the merge of the same %d versions gave %d different results over fresh hash maps: %s"
                          % (len(case["vers"]), len(res), cjson(res)[:600])))
            elif kind == "res" and res:
                got = res[0].get("some")
                gotc = None if got is None else content_modtx(got["c"])
                if gotc != content_modtx(val) or (got is not None and (got["key"] != case["key"] or got["pub"] is not None)):
                    v.append(("merge-wrong", "merge of %s returned %s, the deterministic merge is %s"
                              % (cjson([r["c"] for r in case["vers"]]), cjson(got), cjson(val))))
            return v
        # ---- histories
        h = Hist(case, o)
        v += check_abs(o["abs"])
        for spec, got in zip(case.get("local") or [], o.get("local") or []):
            held = got.get("held")
            if not got.get("put") or held is None or held["c"] != spec["c"] or held["key"] != spec["key"]:
                v.append(("local-store-setup", "the reader's own store does not hold %s after the put: %s" % (cjson(spec), cjson(got))))
        final_q = {d["q"] for d in h.final_pending}
        for cid, c in enumerate(h.callers):
            outs = h.outcomes.get(cid, [])
            if c["api"] and cid != c["task"]:
                continue                      # attempts of an api caller: judged at the api level
            attempts = h.api_tasks.get(cid, [cid])
            lastq = h.callers[attempts[-1]]["q"]
            if len(outs) > 1:
                v.append(("multiple-outcomes", "caller %d received %d outcomes: %s" % (cid, len(outs), cjson(outs)[:400])))
            if lastq in final_q and outs:
                v.append(("answered-while-pending", "caller %d has an outcome while its query %d is still pending" % (cid, lastq)))
            if lastq not in final_q and not outs and cid not in h.dropped and not c["api"]:
                v.append(("caller-never-answered", "caller %d (key %d): its query %d is gone but it received nothing"
                          % (cid, c["key"], lastq)))
            for step, oc in outs:
                v += judge_outcome(h, cid, c, step, oc)
                if oc.get("closed"):
                    # a sender dropped unsent is explained only by a co-caller of the same query that
                    # gave up before (delivery stops at the first dead receiver: observation O3)
                    mates = [x for x, cc in enumerate(h.callers) if cc["q"] == c["q"] and x != cid]
                    if not any(m in h.dropped for m in mates):
                        v.append(("caller-channel-closed", "caller %d (key %d) found its channel closed without an outcome "
                                  "although no caller of its query had dropped its receiver" % (cid, c["key"])))
        return v

    def judge_outcome(h, cid, c, step, oc):
        v = []
        attempts = h.api_tasks.get(cid, [cid])
        q = h.callers[attempts[-1]]["q"]
        reps = h.replies(q, step)
        by_content = {}
        for p, cj, r in reps:
            by_content.setdefault(cj, set()).add(p)
        creator = next((x for x in h.callers if x["q"] == q and x["created"]), None)
        joined_other = (not h.callers[attempts[-1]]["created"]) and creator is not None \
            and not same_cfg(creator["cfg"], c["cfg"])
        okrec = oc.get("ok") or oc.get("api_ok")
        if okrec is not None:
            cj = cjson(okrec["c"])
            need = quorum_value(c["cfg"]["q"], cgs)
            versions = [json.loads(x) for x in by_content]
            if len(by_content) <= 1:
                # a single version: Ok must be a reply, under the caller's own quorum and target
                exact = [r for p, x, r in reps if x == cj and r["key"] == okrec["key"] and r["pub"] == okrec["pub"]]
                if not exact:
                    v.append(("ok-unexplained-value", "caller %d received Ok(%s) which no peer returned" % (cid, cj[:300])))
                else:
                    bad = []
                    if len(by_content[cj]) < need:
                        bad.append("only %d distinct peer(s) returned this content%s, the caller's quorum is %d"
                                   % (len(by_content[cj]), " within the attempt that produced it (attempt %d of %d made; replies "
                                      "of separate attempts must not be added up)" % (len(attempts), len(attempts))
                                      if len(attempts) > 1 else "", need))
                    if not target_ok(c["cfg"], okrec):
                        bad.append("the record is not the caller's expected record")
                    if bad:
                        cls = "F10-joined-under-first-cfg" if joined_other else "ok-without-quorum-or-target"
                        v.append((cls, "caller %d (quorum %s, target %s) received Ok for key %d: %s%s"
                                  % (cid, c["cfg"]["q"], "given" if c["cfg"].get("target") else "none", c["key"], "; ".join(bad),
                                     " -- it joined the in-flight query of a caller with a different configuration" if joined_other else "")))
            else:
                # differing content: Ok must be the deterministic merge of ALL versions seen.
                # kad.rs (quorum reached on a split) sends the sorted union of the transactions;
                # lib.rs (api callers) merges the versions of a SplitRecord error.
                txv = [cc for cc in versions if cc["hdr"] == 2 and cc["p"][0] == "tx"]
                txs = sorted({i for cc in txv for i in cc["p"][1]})
                kad_union = bool(txs) and cjson(okrec["c"]) == cjson(c_tx(txs)) and okrec["pub"] is None
                kind, val = spec_merge(versions, c["key"])
                lib_merge = "api_ok" in oc and okrec["key"] == c["key"] and okrec["pub"] is None \
                    and (kind == "class" or (val is not None and content_modtx(okrec["c"]) == content_modtx(val)))
                if kad_union and len(txv) == len(versions):
                    pass
                elif lib_merge:
                    pass      # order-dependent classes are demonstrated by the split cases
                elif kad_union:
                    v.append(("quorum-merge-drops-non-transactions",
                              "caller %d received Ok(%s): the quorum was reached while %d versions were present; only the "
                              "%d transaction version(s) were merged, the other version(s) %s were dropped"
                              % (cid, cj[:200], len(versions), len(txv), [cjson(x)[:80] for x in versions if x not in txv])))
                else:
                    v.append(("ok-unexplained-value", "caller %d received Ok(%s) which is not the deterministic merge of the "
                              "%d versions seen (%s)" % (cid, cj[:300], len(versions), cjson(val)[:300])))
        elif oc.get("err") == "split" or (oc.get("api_err") or {}).get("err") == "split":
            e = oc if "err" in oc else oc["api_err"]
            got = {cjson(x[0]["c"]): set(x[1]) for x in e["vers"]}
            if got != by_content or len(got) < 2 or not all(x[2] for x in e["vers"]):
                v.append(("split-incomplete", "caller %d: SplitRecord carries %s, the replies were %s"
                          % (cid, sorted(got), sorted(by_content))))
        elif oc.get("err") == "notenough":
            cj = cjson(oc["rec"]["c"])
            if len(by_content) != 1 or cj not in by_content or oc["got"] != len(by_content[cj]) or oc["got"] >= oc["expected"]:
                v.append(("notenough-wrong", "caller %d: NotEnoughCopies %s but replies were %s" % (cid, cjson(oc)[:300], sorted(by_content))))
        return v

    return oracle


# ------------------------------------------------------------------------------------------------
# model agreement

def model_term(case, o):
    if o is None or "panic" in o:
        return "false"
    k = case["kind"]
    if k == "quorum":
        return "agree_quorum %s %s" % (g_quorum(case["q"]), cN(o["value"]))
    if k == "target":
        c, r = g_cfg(case["cfg"]), g_record(case["rec"])
        return "agree_target %s %s %s" % (c, r, cbool(o["match"]))
    if k == "split":
        vs = [g_record(r) for r in case["vers"]]
        rs = []
        for r in canon_results(o["results"]):
            if "error" in r:
                return "false"
            rs.append("None" if "none" in r else ("(Some %s)" % g_record(r["some"]) if g_record(r["some"]) else None))
        if None in rs or None in vs:
            return "false"
        return "agree_split %s %s %s" % (clist(vs), cN(case["key"]), clist(rs))
    h = Hist(case, o)
    apis = [cid for cid, c in enumerate(h.callers) if c["api"]]
    obs = []
    for ev, st, i in h.executed:
        e = g_event(ev, st)
        outs = []
        for cid, oc in sorted(st["outs"], key=lambda x: x[0]):
            if cid in apis:
                continue
            x = g_outcome(oc)
            if x is None:
                return "false"
            outs.append("(%s, %s)" % (cN(cid), x))
        dumps = [g_dump(d) for d in st["pending"]]
        if e is None or None in dumps:
            return "false"
        rt = RET.get(st.get("ret", "ok"))
        if rt is None:
            return "false"
        obs.append("(%s, %s, %s, %s)" % (e, rt, clist(outs), clist(dumps)))
    terms = ["agree_hist %s %s" % (clist([cN(a) for a in apis]), clist(obs))]
    evs = clist([g_event(ev, st) for ev, st, i in h.executed])
    for task, attempts in h.api_tasks.items():
        res = h.outcomes.get(task, [])
        impl = "None" if not res else "(Some %s)" % g_api(res[0][1])
        if "(Some None)" in impl:
            return "false"
        retry = h.callers[task]["cfg"].get("retry", 0)
        n = 1 if retry <= 1 else retry
        atts = " ++ ".join("outcomes_of %s %s" % (evs, cN(a)) for a in attempts)
        terms.append("agree_api %s %d (%s) %s" % (cN(h.callers[task]["key"]), n, atts, impl))
    return " && ".join("(%s)" % t for t in terms)


def show(case, o):
    if case["kind"] == "split":
        vs = [g_record(r) for r in case["vers"]]
        return "map (fun p => handle_split p %s) (perms %s)" % (cN(case["key"]), clist(vs))
    if case["kind"] == "hist":
        h = Hist(case, o)
        evs = clist([g_event(ev, st) for ev, st, i in h.executed])
        return "(outs %s, pending (final %s))" % (evs, evs)
    if case["kind"] == "target":
        return "does_target_match %s %s" % (g_cfg(case["cfg"]), g_record(case["rec"]))
    return "quorum_value %s" % g_quorum(case["q"])


def nontrivial(case, o):
    if o is None or "panic" in o:
        return None
    k = case["kind"]
    if k == "hist":
        classes = sorted((oc.get("err") or ("ok" if "ok" in oc else None) or ("closed" if oc.get("closed") else None)
                          or ("api_ok" if "api_ok" in oc else "api_err:%s" % (oc.get("api_err") or {}).get("err")))
                         for st in o["steps"] for _, oc in st["outs"])
        nvers = max([len(d["vers"]) for st in o["steps"] for d in st["pending"]] + [0])
        ncall = sum(1 for e in case["events"] if e["e"] == "cmd")
        term = tuple(sorted({e["e"] for e in case["events"] if e["e"] in ("finished", "notfound", "quorumfailed", "timeout", "drop")}))
        qs = tuple(sorted({e["cfg"]["q"][0] for e in case["events"] if e["e"] == "cmd"}))
        return (k, tuple(classes), nvers, ncall, term, qs)
    if k == "split":
        return (k, len(case["vers"]), tuple(sorted(str(r["c"]["hdr"]) + r["c"]["p"][0] for r in case["vers"])), len(o["results"]))
    if k == "target":
        return (k, o["match"], case["cfg"]["isreg"], case["cfg"]["target"] is None, case["rec"]["c"]["p"][0])
    return (k, tuple(case["q"]))


# ------------------------------------------------------------------------------------------------
# generators

def content_pool(rng):
    """a small universe of contents that collide / differ in the ways that matter"""
    kind = rng.choice(["chunk", "chunk", "tx", "tx", "reg", "reg", "pad", "pad", "mixed", "odd"])
    if kind == "chunk":
        return [c_raw(i, hdr=rng.choice([1, 1, 1, 0])) for i in range(1, 5)]
    if kind == "tx":
        pool = [c_tx([1]), c_tx([2]), c_tx([1, 2]), c_tx([2, 1]), c_tx([3, 1]), c_tx([1, 1]), c_tx([]),
                {"hdr": 2, "p": ["raw", 9]}, c_tx([4], hdr=7)]
        rng.shuffle(pool)
        return pool[:4]
    if kind == "reg":
        pool = [c_reg(0, [1]), c_reg(0, [2]), c_reg(0, [1, 2, 3]), c_reg(0, []), c_reg(0, [1], salt=1),
                c_reg(1, [1]), c_reg(1, [2, 100]), c_reg(1, [3]), c_reg(2, [1]), c_reg(0, [100, 101]),
                {"hdr": 3, "p": ["raw", 8]}, c_reg(0, [5], hdr=4)]
        rng.shuffle(pool)
        return pool[:4]
    if kind == "pad":
        pool = [c_pad(True, 1, 1), c_pad(True, 2, 2), c_pad(True, 2, 3), c_pad(False, 9, 4), c_pad(True, 0, 5),
                c_pad(True, 2 ** 64 - 1, 6), c_pad(False, 2, 2), {"hdr": 5, "p": ["raw", 7]}, c_pad(True, 3, 1, hdr=6)]
        rng.shuffle(pool)
        return pool[:4]
    if kind == "mixed":
        pool = [c_tx([1]), c_tx([2]), c_reg(0, [1]), c_reg(1, [2]), c_pad(True, 1, 1), c_pad(True, 5, 2), c_raw(1),
                {"hdr": None, "p": ["raw", 3]}, {"hdr": None, "p": ["tx", [1]]}]
        rng.shuffle(pool)
        return pool[:4]
    return [{"hdr": None, "p": ["raw", 1]}, {"hdr": None, "p": ["raw", 2]}, {"hdr": 1, "p": ["tx", [1, 2]]},
            {"hdr": 2, "p": ["reg", 0, True, [1], 0]}]


def gen_quorum(rng):
    r = rng.random()
    if r < 0.2:
        return ["one"]
    if r < 0.4:
        return ["maj"]
    if r < 0.55:
        return ["all"]
    if r < 0.95:
        return ["n", rng.choice([1, 2, 2, 3, 3, 4, 5, 6, 7])]
    return ["n", rng.choice([2 ** 32, 2 ** 63, 2 ** 64 - 1])]


def gen_holders(rng, q):
    """expected_holders: empty / a subset of the peers that usually reply (1..4) / a superset of all
    repliers / disjoint from them (20..30 never reply) / the local peer; sizes below, at and above the quorum"""
    r = rng.random()
    if r < 0.4:
        return []
    qv = quorum_value(q, 5)
    qv = qv if qv <= 8 else 2
    size = max(1, min(8, rng.choice([1, 1, 2, qv - 1, qv, qv + 1])))
    mode = rng.choice(["subset", "subset", "subset", "disjoint", "superset", "self"])
    if mode == "subset":
        return sorted(rng.sample(range(1, 6), min(size, 5)))
    if mode == "disjoint":
        return sorted(rng.sample(range(20, 31), size))
    if mode == "superset":
        return list(range(1, 9)) + sorted(rng.sample(range(20, 31), rng.choice([0, 2])))
    return [0] + sorted(rng.sample(range(1, 5), min(size - 1, 4)))


def gen_holders_hist(rng):
    """directed: Quorum::N(q), k expected holders (k below / at / above q), identical replies; the holders
    answer first or last; fewer or more replies than the quorum; any terminator.  All expected holders having
    answered must never complete a read below the quorum."""
    q = rng.choice([2, 3, 3, 4, 5])
    quorum = rng.choice([["n", q], ["n", q], ["maj"], ["all"]])
    qv = quorum_value(quorum, 5)
    k = max(1, rng.choice([1, 1, qv - 1, qv, qv + 1]))
    peers = list(range(1, 9))
    rng.shuffle(peers)
    holders = peers[:min(k, 8)]
    others = peers[len(holders):]
    nrep = rng.choice([1, len(holders), max(1, qv - 1), qv, qv + 1])
    first = rng.random() < 0.6
    order = (holders + others) if first else (others + holders)
    if rng.random() < 0.3:
        order = order[:1] + order                      # a duplicated reply
    c = rng.choice([c_raw(1), c_reg(0, [1, 2]), c_tx([1]), c_pad(True, 2, 1)])
    key = rng.randrange(1, 6)
    target = rec(key, c) if rng.random() < 0.3 else None
    evs = [{"e": "cmd", "key": key, "cfg": cfg(quorum, target, holders=sorted(holders)), "api": rng.random() < 0.15}]
    if rng.random() < 0.3:
        evs.append({"e": "cmd", "key": key, "cfg": cfg(quorum, target, holders=sorted(rng.sample(range(1, 9), 2)))})
    for p in order[:nrep]:
        evs.append({"e": "found", "q": 0, "peer": p, "rec": rec(key, c), "step": rng.choice([1, 2, 6])})
    t = rng.choice(["finished", "timeout", "notfound", None, None])
    if t:
        evs.append({"e": t, "q": 0, "key": key})
    return {"kind": "hist", "events": evs}


def gen_retry_hist(rng):
    """the retry loop of get_record_from_network: one api caller with RetryStrategy::N(2..4) and quorum >= 2;
    in every attempt the harness plays the driver: the same single holder answers again / fresh peers answer /
    one more peer per attempt / random; one version or a split; finished, timeout, not found or nothing.
    A peer answering once per attempt must never add up to a quorum; one attempt more than allowed is
    scripted (no command may arrive for it)."""
    n = rng.choice([2, 2, 3, 3, 4])
    quorum = rng.choice([["n", 2], ["n", 2], ["n", 3], ["n", 4], ["maj"], ["all"]])
    qv = quorum_value(quorum, 5)
    key = rng.randrange(1, 6)
    pool = rng.choice([[c_raw(1), c_raw(2)], [c_tx([1]), c_tx([2]), c_tx([1, 2])],
                       [c_reg(0, [1]), c_reg(0, [2]), c_reg(1, [3])],
                       [c_pad(True, 1, 1), c_pad(True, 2, 2), c_pad(True, 2, 3)]])
    target = rec(key, pool[0]) if rng.random() < 0.25 else None
    isreg = target is not None and pool[0]["p"][0] == "reg" and rng.random() < 0.5
    c = cfg(quorum, target, isreg, retry=n, holders=gen_holders(rng, quorum))
    evs = [{"e": "cmd", "key": key, "cfg": c, "api": True}]
    if rng.random() < 0.2:
        evs.append({"e": "cmd", "key": key, "cfg": cfg(quorum, target, isreg) if rng.random() < 0.6 else cfg(["one"])})
    mode = rng.choice(["same", "same", "same", "fresh", "fresh", "growing", "random"])
    k = rng.randrange(1, qv) if qv > 1 else 1           # fewer holders than the quorum
    same = rng.sample(range(1, 9), min(k, 8))
    for a in range(n + 1):
        if a > 0:
            evs.append({"e": "await_cmd"})
        if mode == "same":
            peers = list(same)
        elif mode == "fresh":
            peers = [1 + (a * k + i) % 8 for i in range(k)]
        elif mode == "growing":
            peers = list(range(1, a + 2))
        else:
            peers = [rng.choice([None, 0, 1, 2, 3, 4, 5]) for _ in range(rng.randrange(0, qv + 2))]
        if rng.random() < 0.2 and peers:
            peers = peers + [peers[0]]                   # a duplicated reply inside the attempt
        split = rng.random() < 0.2
        for i, p in enumerate(peers):
            cc = pool[(i % 2) if split else 0] if rng.random() < 0.9 else rng.choice(pool)
            evs.append({"e": "found", "q": a, "peer": p, "rec": rec(key, cc), "step": 1})
        t = rng.choice(["finished", "finished", "finished", "finished", "timeout", "notfound", "quorumfailed"])
        evs.append({"e": t, "q": a, "key": key})
    return {"kind": "hist", "events": evs}


def gen_local_hist(rng):
    """the reader is a NODE whose own record store holds the same content / other content / nothing for the key
    being read (or something under another key), for every quorum; the local copy is not a peer: without
    replies nothing may be answered, and a read succeeds only on >= Q distinct responders (libp2p hands the
    local copy to the handlers as a reply with peer None, which counts as the one local responder)."""
    key = rng.randrange(1, 6)
    pool = rng.choice([[c_raw(1), c_raw(2)], [c_reg(0, [1, 2]), c_reg(0, [1])], [c_pad(True, 2, 1), c_pad(True, 3, 2)],
                       [c_tx([1]), c_tx([2])]])
    held = rng.choice(["same", "same", "same", "other", "none", "otherkey"])
    local = {"same": [rec(key, pool[0])], "other": [rec(key, pool[1])], "none": [],
             "otherkey": [rec(key + 1, pool[0])]}[held]
    quorum = rng.choice([["one"], ["maj"], ["maj"], ["all"], ["all"], ["n", 1], ["n", 2], ["n", 3], ["n", 5]])
    qv = quorum_value(quorum, 5)
    t = rng.random()
    target = None if t < 0.5 else rec(key, pool[0]) if t < 0.85 else rec(key, pool[1])
    isreg = target is not None and pool[0]["p"][0] == "reg" and rng.random() < 0.5
    evs = [{"e": "cmd", "key": key, "cfg": cfg(quorum, target, isreg, holders=gen_holders(rng, quorum)),
            "api": rng.random() < 0.2}]
    if rng.random() < 0.3:
        evs.append({"e": "cmd", "key": key, "cfg": cfg(quorum, target, isreg)})
    replies = []
    if rng.random() < 0.5 and local:
        replies.append((None, local[0]["c"]))           # what kad reports for the copy in the local store
    for p in rng.sample(range(1, 9), rng.choice([0, 0, 1, max(0, qv - 2), max(0, qv - 1), min(qv, 8)])):
        replies.append((p, pool[0] if rng.random() < 0.85 else pool[1]))
    rng.shuffle(replies)
    for p, c in replies:
        evs.append({"e": "found", "q": 0, "peer": p, "rec": rec(key, c), "step": 1})
    term = rng.choice(["finished", "finished", "timeout", "notfound", None])
    if term:
        evs.append({"e": term, "q": 0, "key": key})
    return {"kind": "hist", "node": True, "local": local, "events": evs}


def gen_many_versions_hist(rng):
    """5, 6 or 7 distinct content versions inside one GET (up to CLOSE_GROUP_SIZE + 2 holders answer, each with a
    version of its own: registers where every holder has seen an op the others have not, transactions,
    scratchpads, chunks), every arrival order sampled, no majority, then a terminator: the SplitRecord / the merge
    must carry every version any peer returned."""
    nv = rng.choice([5, 6, 6, 7, 7, 8])
    fam = rng.choice(["reg", "reg", "tx", "pad", "raw", "regcommon"])
    if fam == "reg":
        vers = [c_reg(0, [i]) for i in range(1, nv + 1)]
    elif fam == "regcommon":
        vers = [c_reg(1, [50, i]) for i in range(1, nv + 1)]
    elif fam == "tx":
        vers = [c_tx([i]) for i in range(1, nv + 1)]
    elif fam == "pad":
        cs = rng.sample(range(1, 40), nv)
        vers = [c_pad(True, cs[i], i + 1) for i in range(nv)]
    else:
        vers = [c_raw(i) for i in range(1, nv + 1)]
    key = rng.randrange(1, 6)
    quorum = rng.choice([["n", 2], ["n", 3], ["maj"], ["all"], ["n", 9]])
    replies = [(i + 1, v) for i, v in enumerate(vers)]
    if rng.random() < 0.3:                                 # one of the holders is the reader itself
        i = rng.randrange(nv)
        replies[i] = (rng.choice([None, 0]), vers[i])
    rng.shuffle(replies)
    extra = []
    if rng.random() < 0.35:                                # a second holder of some version, late
        extra.append((9 + rng.randrange(0, 5), vers[rng.randrange(nv)]))
    # api callers: the model side tries every iteration order of the split map (7! orders at most)
    evs = [{"e": "cmd", "key": key, "cfg": cfg(quorum), "api": nv <= 7 and rng.random() < 0.4}]
    if rng.random() < 0.25:
        evs.append({"e": "cmd", "key": key, "cfg": cfg(quorum)})
    for p, c in replies + extra:
        evs.append({"e": "found", "q": 0, "peer": p, "rec": rec(key, c), "step": rng.choice([1, 5, 6, 7])})
    evs.append({"e": rng.choice(["finished", "finished", "finished", "timeout"]), "q": 0, "key": key})
    return {"kind": "hist", "node": rng.random() < 0.2, "local": [], "events": evs}


def gen_hist(rng, deep=False):
    pool = content_pool(rng)
    nkeys = rng.choice([1, 1, 1, 2])
    keys = rng.sample(range(1, 6), nkeys)
    nver = rng.choice([1, 1, 2, 2, 3, 4])
    vers = pool[:nver]
    events = []
    ncall = rng.choice([1, 1, 2, 2, 3, 4])
    base_cfg = None
    ncmd = 0
    nq = 0

    def mkcfg():
        q = gen_quorum(rng)
        t = None
        isreg = False
        if rng.random() < 0.4:
            c = rng.choice(pool)
            t = rec(rng.choice(keys), c, pub=rng.choice([None, None, None, 2]))
            isreg = rng.random() < (0.6 if c["p"][0] == "reg" else 0.1)
        return cfg(q, t, isreg, holders=gen_holders(rng, q))

    def cmd(api=False):
        nonlocal base_cfg, ncmd
        c = mkcfg()
        if base_cfg is not None and rng.random() < 0.4:
            c = dict(base_cfg)
        if base_cfg is None:
            base_cfg = c
        ncmd += 1
        ev = {"e": "cmd", "key": rng.choice(keys), "cfg": c}
        if api:
            ev["api"] = True
            ev["cfg"] = dict(c, retry=rng.choice([0, 1]))
        return ev

    events.append(cmd(api=rng.random() < 0.25))
    nreplies = rng.choice([0, 1, 2, 3, 4, 5, 6, 8, 10] if deep else [0, 1, 2, 3, 3, 4, 5, 6])
    todo = []
    for _ in range(ncall - 1):
        todo.append(cmd(api=rng.random() < 0.2))
    for _ in range(nreplies):
        c = rng.choice(vers)
        # replies usually carry the requested key and no publisher; sometimes not
        k = keys[0] if rng.random() < 0.85 else rng.choice(keys + [9])
        peer = rng.choice([None, 0, 1, 1, 2, 2, 3, 3, 4, 5, 6, 7, 8])
        todo.append({"e": "found", "q": rng.choice([0] * 6 + [1, 2]), "peer": peer,
                     "rec": rec(k, c, pub=rng.choice([None] * 6 + [1, 3])), "step": rng.choice([1, 1, 2, 5, 6])})
    if rng.random() < 0.3:
        todo.append({"e": "drop", "c": rng.randrange(0, ncall)})
    rng.shuffle(todo)
    events += todo
    term = rng.choice(["finished", "finished", "notfound", "quorumfailed", "timeout", "timeout", None])
    if term:
        events.append({"e": term, "q": rng.choice([0, 0, 0, 1]), "key": keys[0]})
    # afterwards: stale events, a second terminator, a late caller
    for _ in range(rng.choice([0, 0, 1, 2])):
        r = rng.random()
        if r < 0.35:
            events.append({"e": "found", "q": rng.choice([0, 1]), "peer": rng.choice([None, 1, 2]),
                           "rec": rec(keys[0], rng.choice(vers))})
        elif r < 0.7:
            events.append({"e": rng.choice(["finished", "notfound", "quorumfailed", "timeout"]), "q": rng.choice([0, 1]),
                           "key": keys[0]})
        else:
            events.append(cmd())
    return {"kind": "hist", "events": events}


def gen_split(rng, reps):
    shape = rng.choice(["tx", "tx", "reg", "reg", "regfork", "pad", "pad", "padtie", "mixed", "mixed", "junk"])
    n = rng.choice([2, 2, 3, 3, 4])
    if shape == "tx":
        pool = [c_tx([1]), c_tx([2]), c_tx([1, 2]), c_tx([2, 1]), c_tx([3]), c_tx([1, 1]), c_tx([]),
                {"hdr": 2, "p": ["raw", 9]}, {"hdr": None, "p": ["tx", [7]]}]
    elif shape == "reg":
        b = rng.choice([0, 1, 2, 3])
        pool = [c_reg(b, [1]), c_reg(b, [2]), c_reg(b, [1, 2, 3]), c_reg(b, []), c_reg(b, [4], salt=1),
                c_reg(b, [100, 5]), {"hdr": 3, "p": ["raw", 8]}, {"hdr": None, "p": ["reg", b, True, [9], 0]}]
    elif shape == "regfork":
        pool = [c_reg(0, [1]), c_reg(1, [2]), c_reg(2, [3]), c_reg(0, [4]), c_reg(1, [5, 100]), c_reg(3, [])]
    elif shape == "pad":
        cs = rng.sample(range(0, 12), 5)
        pool = [c_pad(True, cs[0], 1), c_pad(True, cs[1], 2), c_pad(True, cs[2], 3), c_pad(False, 99, 4),
                c_pad(False, cs[3], 5), c_pad(True, cs[4], 6), {"hdr": 5, "p": ["raw", 7]}]
    elif shape == "padtie":
        pool = [c_pad(True, 4, 1), c_pad(True, 4, 2), c_pad(True, 3, 3), c_pad(True, 4, 4), c_pad(False, 9, 5)]
    elif shape == "mixed":
        pool = [c_tx([1]), c_tx([2]), c_tx([1, 2]), c_reg(0, [1]), c_reg(0, [2]), c_pad(True, 1, 1), c_pad(True, 2, 2),
                c_raw(1), c_raw(2, hdr=0), {"hdr": None, "p": ["raw", 3]}]
    else:
        pool = [c_raw(1), c_raw(2), c_raw(3, hdr=0), c_raw(4, hdr=4), c_raw(5, hdr=6), c_raw(6, hdr=7),
                {"hdr": None, "p": ["raw", 7]}, {"hdr": None, "p": ["raw", 8]}]
    rng.shuffle(pool)
    vs = pool[:n]
    if rng.random() < 0.08:
        vs = vs[:1]                      # a single version: nothing to merge
    key = rng.randrange(1, 6)
    return {"kind": "split", "key": key, "reps": reps,
            "vers": [rec(rng.choice([key, key, 9]), c, pub=rng.choice([None, None, 2])) for c in vs]}


def gen_target(rng):
    pool = [c_raw(1), c_raw(2), c_reg(0, [1]), c_reg(0, [1], salt=1), c_reg(0, [1, 2]), c_reg(1, [1]),
            c_reg(0, [1], hdr=1), c_tx([1]), c_pad(True, 1, 1), {"hdr": None, "p": ["reg", 0, True, [1], 0]}]
    t = rec(rng.choice([1, 2]), rng.choice(pool), pub=rng.choice([None, None, 3]))
    r = rec(rng.choice([1, 2]), rng.choice(pool), pub=rng.choice([None, None, 3]))
    if rng.random() < 0.35:
        r = dict(t)
    return {"kind": "target", "cfg": cfg(["one"], t if rng.random() < 0.9 else None, rng.random() < 0.5), "rec": r}


def exhaustive_orders(rng, limit):
    """all arrival orders of small reply multisets, every terminator, two callers (thorough tier)"""
    cases = []
    v1, v2 = c_raw(1), c_raw(2)
    t1, t2 = c_tx([1]), c_tx([2, 3])
    multisets = [
        [(1, v1), (2, v1), (3, v1)], [(1, v1), (1, v1), (2, v1)], [(1, v1), (2, v2), (3, v1)],
        [(1, v1), (2, v2), (1, v2)], [(None, v1), (0, v1), (2, v1)], [(1, t1), (2, t2), (3, t1)],
        [(1, v1), (2, v2), (3, v1), (4, v1)],
    ]
    for ms in multisets:
        for perm in set(itertools.permutations(range(len(ms)))):
            for q in (["n", 2], ["maj"], ["one"]):
                for term in ("finished", "timeout", "notfound"):
                    evs = [{"e": "cmd", "key": 1, "cfg": cfg(q)}, {"e": "cmd", "key": 1, "cfg": cfg(["all"])}]
                    evs += [{"e": "found", "q": 0, "peer": ms[i][0], "rec": rec(1, ms[i][1])} for i in perm]
                    evs.append({"e": term, "q": 0, "key": 1})
                    cases.append({"kind": "hist", "events": evs})
    rng.shuffle(cases)
    return cases[:limit]


def realistic_steps(case, rng):
    """ProgressStep::count as libp2p reports it: the n-th reply event of a query carries count n (sometimes a
    repeated count, as for the local copy), the finishing event carries replies-so-far + 1 -- so a reply delivered
    twice by one peer is ONE responder but TWO counted events.  Mostly realistic, sometimes smaller / larger.
    The handlers may only log the count: no outcome may depend on it."""
    if case.get("kind") != "hist":
        return case
    seen = {}
    for ev in case["events"]:
        k = ev["e"]
        if k == "found":
            n = seen.get(ev["q"], 0) + 1
            seen[ev["q"]] = n
            r = rng.random()
            ev["step"] = n if r < 0.75 else max(1, n - 1) if r < 0.85 else rng.choice([1, 5, 6, n + 3, 20])
        elif k in ("finished", "notfound", "quorumfailed", "timeout"):
            n = seen.get(ev["q"], 0)
            r = rng.random()
            ev["step"] = n + 1 if r < 0.75 else rng.choice([1, max(1, n), n + 2, n + 5, 20, 21])
    return case


def gen_dup_then_finish_hist(rng):
    """a reply delivered twice (or three times) by one peer, fewer distinct responders than the quorum, then the
    query finishes: the number of reply EVENTS reaches the quorum, the number of distinct responders does not"""
    quorum = rng.choice([["n", 2], ["n", 3], ["n", 3], ["maj"], ["n", 4], ["all"]])
    qv = quorum_value(quorum, 5)
    key = rng.randrange(1, 6)
    c = rng.choice([c_raw(1), c_reg(0, [1, 2]), c_tx([1]), c_pad(True, 2, 1)])
    distinct = rng.randrange(1, qv) if qv > 1 else 1
    peers = rng.sample([None, 1, 2, 3, 4, 5, 6, 7, 8], distinct)
    replies = list(peers)
    while len(replies) < qv + rng.choice([0, 0, 1]):          # as many (or more) events as the quorum asks for
        replies.append(rng.choice(peers))
    rng.shuffle(replies)
    target = rec(key, c) if rng.random() < 0.3 else None
    evs = [{"e": "cmd", "key": key, "cfg": cfg(quorum, target, holders=gen_holders(rng, quorum)), "api": rng.random() < 0.25}]
    if rng.random() < 0.2:
        evs.append({"e": "cmd", "key": key, "cfg": cfg(quorum, target)})
    for p in replies:
        evs.append({"e": "found", "q": 0, "peer": p, "rec": rec(key, c)})
    evs.append({"e": rng.choice(["finished", "finished", "finished", "timeout"]), "q": 0, "key": key})
    return {"kind": "hist", "events": evs}


def gen(ctx):
    rng = ctx.rng
    quick = ctx.tier == "quick"
    cases = []
    for q in (["one"], ["maj"], ["all"], ["n", 1], ["n", 2], ["n", 7], ["n", 2 ** 64 - 1]):
        cases.append({"kind": "quorum", "q": q})
    for _ in range(1500 if quick else 10000):
        cases.append(gen_holders_hist(rng) if rng.random() < 0.2 else gen_hist(rng, deep=not quick))
    for _ in range(300 if quick else 2500):
        cases.append(gen_retry_hist(rng))
    for _ in range(250 if quick else 2000):
        cases.append(gen_local_hist(rng))
    for _ in range(200 if quick else 1500):
        cases.append(gen_many_versions_hist(rng))
    for _ in range(250 if quick else 2000):
        cases.append(gen_dup_then_finish_hist(rng))
    cases = [realistic_steps(c, rng) for c in cases]
    for _ in range(300 if quick else 1000):
        cases.append(gen_split(rng, 16 if quick else 32))
    for _ in range(300 if quick else 2000):
        cases.append(gen_target(rng))
    if not quick:
        cases += exhaustive_orders(rng, 5000)
    return cases


@contextlib.contextmanager
def private_coq_objects(ctx):
    """Evaluate the cases against a private, consistent snapshot of the compiled model.

    coq/ is shared: another property's check may regenerate gen/Consts.v and rebuild Consts.vo while this
    check's harness runs, after which coqc rejects model/GetRecord.vo ("inconsistent assumptions") although
    nothing about C05 changed.  Under the coq lock the model is brought up to date and the four objects the
    case files load are copied; vpc.core.COQ points at the copy while the pipeline runs (core.py unchanged)."""
    snap = os.path.join(core.CACHE, "c05_snap_%d" % os.getpid())
    shutil.rmtree(snap, ignore_errors=True)
    objs = ("lib/Strs.vo", "lib/Harness.vo", "gen/Consts.vo", "model/GetRecord.vo")
    ok = False
    try:
        for d in ("lib", "gen", "model", "cases"):
            os.makedirs(os.path.join(snap, d))
        with core.Lock("coq"):
            rc, _ = core.sh("timeout 900 make %s 2>&1" % " ".join(o for o in objs if not o.startswith("gen/")),
                            cwd=core.COQ, timeout=930)
            if rc == 0:
                for f in objs:
                    shutil.copy(os.path.join(core.COQ, f), os.path.join(snap, f))
                ok = True
    except OSError:
        ok = False
    old = core.COQ
    if ok:
        core.COQ = snap
    try:
        yield
    finally:
        core.COQ = old
        shutil.rmtree(snap, ignore_errors=True)


def run(ctx):
    # the harness build comes first: it is the long step, and the Coq objects the case evaluation
    # loads should be as fresh as possible (other checks regenerate gen/Consts.v concurrently)
    binary = ctx.cargo_build("c05")
    ctx.regen_consts()
    ctx.prove("props/C05.v", THEOREMS, extra_trusted=[
        "model coq/model/GetRecord.v (hand-written) tied to event/kad.rs, cmd.rs, driver.rs, lib.rs by this run's "
        "lock-step correspondence (handler return code, every caller's channel, the dumped pending_get_record)",
        "translator tools/consts.d/getrecord.py: CLOSE_GROUP_SIZE and the majority formula re-read from the source",
        "harness/crates/c05 (real client-mode SwarmDriver, real Network on harness-owned channels, real BLS-signed "
        "registers/scratchpads/transactions), hook block at the end of ant-networking/src/event/kad.rs",
        "tools/props/C05.py (generator, oracle, canonicaliser)"])
    cases = ctx.corpus() + ([] if ctx.replay else gen(ctx))
    ctx.cov["exhaustive"] = ctx.tier != "quick"
    with private_coq_objects(ctx):
        ctx.pipeline(cases, binary, oracle_factory(close_group_size()), model_term, IMPORTS, nontrivial=nontrivial,
                     show=show, shard_size=60,
                     relation="handle_network_cmd/handle_kad_event/get_record_from_network/handle_split_record_error == "
                              "GetRecord.{step, api_loop, handle_split} (lock-step, incl. pending_get_record)")
