(* C11 -- all distance computations agree with the XOR metric over hashed addresses.
   Only pinned statements, `exact <lemma>` and small wrappers live here.
   The digest H is an argument; its only law is the 256-bit bound.  Collision-freedom is never
   assumed: "zero only for equal addresses" is stated as "zero iff the digests are equal". *)
From Coq Require Import List NArith String Bool Permutation.
From V Require Import lib.Strs lib.Dec lib.XorMetric lib.Sha256 gen.Consts model.Closeness proofs.Closeness proofs.ClosenessSched proofs.ClosenessStore.
Import ListNotations.
Open Scope N_scope.

Theorem constants_consistent : Consts.c11_close_group_size = 5 /\ CLOSE_GROUP_SIZE = Consts.c11_close_group_size.
Proof. split; reflexivity. Qed.

(* the executable SHA-256 that instantiates H in the correspondence run satisfies H's law *)
Theorem sha256_is_256_bit : forall msg, sha256 msg < 2 ^ 256.
Proof. exact sha256_lt. Qed.

(* the Debug-string round trip is the identity on every 256-bit value *)
Theorem convert_is_identity : forall d, d < 2 ^ 256 -> convert_distance_to_u256 d = d.
Proof. exact convert_is_identity_lemma. Qed.

(* the number every range comparison uses is the XOR of the two digests *)
Theorem distance_is_xor : forall H, (forall x, H x < 2 ^ 256) -> forall a b,
  distance H a b = N.lxor (H (as_bytes a)) (H (as_bytes b)) /\
  distance_u256 H a b = N.lxor (H (as_bytes a)) (H (as_bytes b)).
Proof. intros H Hb a b. split; [reflexivity|apply distance_u256_exact; exact Hb]. Qed.

Theorem dist_sym : forall H a b, distance H a b = distance H b a.
Proof. exact dist_sym_lemma. Qed.

Theorem dist_zero_iff_digest_eq : forall H a b,
  distance H a b = 0 <-> H (as_bytes a) = H (as_bytes b).
Proof. exact dist_zero_iff_lemma. Qed.

(* "zero only for equal addresses": equal address bytes, or else a collision of the digest *)
Theorem dist_zero_equal_or_collision : forall H a b, distance H a b = 0 ->
  as_bytes a = as_bytes b \/ (as_bytes a <> as_bytes b /\ H (as_bytes a) = H (as_bytes b)).
Proof. exact dist_zero_equal_or_collision. Qed.

Theorem dist_zero_of_equal_bytes : forall H a b, as_bytes a = as_bytes b -> distance H a b = 0.
Proof. exact dist_zero_of_equal_bytes. Qed.

Theorem dist_bound : forall H, (forall x, H x < 2 ^ 256) -> forall a b, distance H a b < 2 ^ 256.
Proof. exact dist_bound_lemma. Qed.

Theorem dist_triangle : forall H a b c, distance H a c <= distance H a b + distance H b c.
Proof. exact dist_triangle_lemma. Qed.

(* typed address vs its raw record key: same bytes, same distances, in every combination *)
Theorem dist_form_independent : forall H a b,
  as_bytes (from_record_key (to_record_key a)) = as_bytes a /\
  distance H (from_record_key (to_record_key a)) (from_record_key (to_record_key b)) = distance H a b /\
  distance H a (from_record_key (to_record_key b)) = distance H a b /\
  distance H (from_record_key (to_record_key a)) b = distance H a b.
Proof. intros H a b. split; [apply record_key_form_bytes|apply dist_form_independent_lemma]. Qed.

(* ---- sort_peers_by_key / sort_peers_by_address *)

Theorem sort_sorted : forall H peers kd n l, sort_peers_by_key H peers kd n = SortOk l ->
  sorted_by (key_peer_distance H kd) l.
Proof. exact sort_sorted_lemma. Qed.

Theorem sort_perm : forall H peers kd n l, sort_peers_by_key H peers kd n = SortOk l ->
  exists rest, Permutation (l ++ rest) peers /\
    (forall x y, In x l -> In y rest -> key_peer_distance H kd x <= key_peer_distance H kd y) /\
    (N.of_nat (List.length peers) <= n -> rest = []).
Proof. exact sort_perm_lemma. Qed.

Theorem sort_prefix : forall H peers kd n l, sort_peers_by_key H peers kd n = SortOk l ->
  l = firstn (N.to_nat n) (sort_by (key_peer_distance H kd) peers) /\
  N.of_nat (List.length l) = N.min n (N.of_nat (List.length peers)) /\
  forall full, sorted_by (key_peer_distance H kd) full ->
    (forall d, keyed (key_peer_distance H kd) d full = keyed (key_peer_distance H kd) d peers) ->
    l = firstn (N.to_nat n) full.
Proof.
  intros H peers kd n l E. split; [exact (proj2 (sort_ok_inv H peers kd n l E))|].
  split; [exact (sort_length_lemma H peers kd n l E)|exact (sort_prefix_lemma H peers kd n l E)].
Qed.

Theorem sort_returns_n_nearest : forall H peers kd n,
  CLOSE_GROUP_SIZE <= N.of_nat (List.length peers) -> n <= N.of_nat (List.length peers) ->
  exists l rest, sort_peers_by_key H peers kd n = SortOk l /\ N.of_nat (List.length l) = n /\
    sorted_by (key_peer_distance H kd) l /\ Permutation (l ++ rest) peers /\
    forall x y, In x l -> In y rest -> key_peer_distance H kd x <= key_peer_distance H kd y.
Proof. exact sort_returns_n_nearest. Qed.

Theorem sort_by_address_is_by_key : forall H peers a n,
  sort_peers_by_address H peers a n = sort_peers_by_key H peers (H (as_bytes a)) n.
Proof. reflexivity. Qed.

Theorem sort_error_iff : forall H peers kd n f r,
  sort_peers_by_key H peers kd n = NotEnoughPeers f r <->
  N.of_nat (List.length peers) < CLOSE_GROUP_SIZE /\ f = N.of_nat (List.length peers) /\ r = CLOSE_GROUP_SIZE.
Proof. exact sort_error_iff_lemma. Qed.

(* "returns the requested number of nearest peers ... or reports that too few are known":
   refuted by the faithful model (F17), holds outside the known class, fails everywhere inside *)
Theorem returns_requested_number_or_error_refuted :
  exists peers a n, ~ returns_requested_or_error (sort_peers_by_address sha256 peers a n) n.
Proof. exact requested_or_error_refuted_lemma. Qed.

Theorem returns_requested_number_or_error_outside_known : forall H peers kd n,
  ~ KnownShortList peers n -> returns_requested_or_error (sort_peers_by_key H peers kd n) n.
Proof. exact requested_or_error_outside_known. Qed.

Theorem known_short_list_exact : forall H peers kd n,
  KnownShortList peers n -> ~ returns_requested_or_error (sort_peers_by_key H peers kd n) n.
Proof. exact requested_or_error_fails_inside_known. Qed.

(* ---- Network::get_all_close_peers_in_range_or_close_group (client and node path) *)

(* A client never counts nor ranks itself: with `others` = the found peers minus every copy of its own id,
   the result is the CLOSE_GROUP_SIZE + CLOSE_GROUP_SIZE/2 = 7 nearest OTHER peers in ascending distance (all of
   them if fewer), never containing the client, and NotEnoughPeers is reported exactly when fewer than
   CLOSE_GROUP_SIZE others are known, with found = |others|. *)
Theorem close_peers_client_spec : forall H self_peer found key,
  let others := drop_self self_peer found in
  expanded_close_group = 7 /\
  (forall p, In p others <-> In p found /\ p <> self_peer) /\
  match get_all_close_peers H self_peer true found key with
  | SortOk l =>
      CLOSE_GROUP_SIZE <= N.of_nat (List.length others) /\
      l = firstn (N.to_nat expanded_close_group) (sort_by (key_peer_distance H (kbucket_key H key)) others) /\
      N.of_nat (List.length l) = N.min expanded_close_group (N.of_nat (List.length others)) /\
      ~ In self_peer l /\
      sorted_by (key_peer_distance H (kbucket_key H key)) l
  | NotEnoughPeers f r =>
      N.of_nat (List.length others) < CLOSE_GROUP_SIZE /\ f = N.of_nat (List.length others) /\ r = CLOSE_GROUP_SIZE
  end.
Proof.
  intros H self_peer found key. cbn zeta. split; [reflexivity|]. split; [intros p; apply drop_self_in|].
  exact (close_peers_client_lemma H self_peer found key).
Qed.

Theorem close_peers_node_spec : forall H self_peer found key,
  get_all_close_peers H self_peer false found key = sort_peers_by_address H found key expanded_close_group.
Proof. exact close_peers_node_lemma. Qed.

(* ---- range filters *)

Theorem range_filter_exact : forall H, (forall x, H x < 2 ^ 256) -> forall peers a r,
  get_peers_in_range H peers a r = filter (fun p => distance H a (from_peer p) <=? r) peers /\
  forall p, In p (get_peers_in_range H peers a r) <-> In p peers /\ distance H a (from_peer p) <= r.
Proof.
  intros H Hb peers a r. split; [apply in_range_eq; exact Hb|intros p; apply range_filter_exact_lemma; exact Hb].
Qed.

Theorem fetcher_range_filter_exact : forall H, (forall x, H x < 2 ^ 256) -> forall self_peer r keys a,
  In a (fetcher_in_range H self_peer (Some r) keys) <->
  In a keys /\ distance H (from_peer self_peer) a <= r.
Proof. exact fetcher_in_range_exact. Qed.

Theorem fetcher_order_closest_first : forall H self_peer keys,
  sorted_by (fun k => distance H (from_peer self_peer) (from_record_key k)) (fetcher_order H self_peer keys) /\
  Permutation (fetcher_order H self_peer keys) keys.
Proof. exact fetcher_order_spec. Qed.

(* the fetcher's scheduler, for EVERY backlog (any multiset of (key, type, holder) in any hash-map order,
   the same (key, type) possibly pending from several holders) and EVERY in-flight set: what a scheduling
   call hands out is ascending by distance to ourselves, pending and not in flight, one entry per
   (key, type), within MAX_PARALLEL_FETCH; a pending (key, type) not in flight stays behind only when the
   capacity is used up, and then it is at least as far as everything handed out *)
Theorem fetch_schedule_closest_first : forall H self_peer maxp pending inflight,
  let d := fun e : entry => distance H (from_peer self_peer) (from_record_key (entry_key e)) in
  let out := next_keys_to_fetch H self_peer maxp pending inflight in
  sorted_by d out /\
  (forall p, In p out -> In p pending /\ ~ In (entry_kt p) inflight) /\
  NoDup (map entry_kt out) /\
  N.of_nat (List.length inflight + List.length out) <= N.max maxp (N.of_nat (List.length inflight)) /\
  (forall e, In e pending -> ~ In (entry_kt e) inflight -> ~ In (entry_kt e) (map entry_kt out) ->
     maxp <= N.of_nat (List.length inflight + List.length out) /\ forall p, In p out -> d p <= d e).
Proof. intros H self_peer maxp pending inflight. exact (fetch_schedule_lemma H self_peer maxp pending inflight). Qed.

(* the acceptor the correspondence run evaluates on what the real fetcher handed out is exactly that
   statement, and the table of distances it uses is the real distance *)
Theorem fetch_acceptor_is_spec : forall dk maxp pending inflight picked,
  sched_ok dk maxp pending inflight picked = true <-> fetch_spec dk maxp pending inflight picked.
Proof. exact sched_ok_iff_spec. Qed.

Theorem fetch_history_agreement_sound : forall H self_peer maxp range keys steps,
  agree_fetch_sched H self_peer maxp range keys steps = true ->
  maxp = Consts.fetcher_max_parallel /\
  forall st pre_p pre_o pre_far picked post_p post_o post_far,
    In (st, (pre_p, pre_o, pre_far), picked, (post_p, post_o, post_far)) steps ->
    agree_fetch_step (key_dist H self_peer) maxp range st pre_p pre_o pre_far picked post_p post_o post_far = true.
Proof. exact agree_fetch_sched_sound. Qed.

(* the fullness bound (farthest_acceptable_distance), exact integer comparison.
   One notification with farthest key `key`: the bound becomes min(old bound, distance of key) -- it only
   ever shrinks -- and what stays queued / in flight is exactly what is within it. *)
Theorem farthest_on_full_exact : forall H self_peer far key pending ongoing,
  let d := fun e : entry => distance H (from_peer self_peer) (from_record_key (entry_key e)) in
  let dkey := distance H (from_peer self_peer) (from_record_key key) in
  (match far with Some f => (forall e, In e pending -> d e <= f) /\ (forall e, In e ongoing -> d e <= f) | None => True end) ->
  let b := match far with Some o => N.min o dkey | None => dkey end in
  let '(pending', ongoing', far') := set_farthest_on_full (key_dist H self_peer) far (Some key) pending ongoing in
  far' = Some b /\
  (forall e, In e pending' <-> In e pending /\ d e <= b) /\
  (forall e, In e ongoing' <-> In e ongoing /\ d e <= b).
Proof.
  intros H self_peer far key pending ongoing d dkey Hinv.
  apply (full_purge_exact (key_dist H self_peer) far key pending ongoing); destruct far as [f|]; cbn; try exact I; tauto.
Qed.

(* Every history of adverts, completions, scheduling calls and fullness notifications, from the empty
   fetcher: the bound is the MINIMUM of the distances of the farthest keys notified so far, and nothing
   queued or in flight (hence nothing accepted or handed out) is farther than it. *)
Theorem fullness_bound_invariant : forall H self_peer maxp range steps,
  let d := fun e : entry => distance H (from_peer self_peer) (from_record_key (entry_key e)) in
  let '(pending, ongoing, far) := fetch_run (key_dist H self_peer) maxp range steps in
  far = notified_min (key_dist H self_peer) steps /\
  match far with
  | Some f => (forall e, In e pending -> d e <= f) /\ (forall e, In e ongoing -> d e <= f)
  | None => True
  end.
Proof.
  intros H self_peer maxp range steps d.
  pose proof (fetch_run_bound (key_dist H self_peer) maxp range steps) as [Hf [Hp Ho]].
  destruct (fetch_run (key_dist H self_peer) maxp range steps) as [[pending ongoing] far].
  unfold state_far in Hf. cbn [fst snd] in *. split; [exact Hf|].
  destruct far as [f|]; [split; [exact Hp|exact Ho]|exact I].
Qed.

Theorem store_distance_index_exact : forall H, (forall x, H x < 2 ^ 256) -> forall self_peer keys,
  NoDup (records_by_distance H self_peer keys) /\
  forall d, In d (records_by_distance H self_peer keys) <->
            exists k, In k keys /\ distance H (from_peer self_peer) (from_record_key k) = d.
Proof. exact records_by_distance_spec. Qed.

(* ---- the record store's admission / eviction decisions follow the integer distance over ALL held records *)

(* Every history of (settled) puts, removes and restarts from the empty store: farthest_record is a held
   key at maximal distance to ourselves, and it is None only when nothing is held -- straight after a
   restart too. *)
Theorem store_farthest_invariant : forall H self_peer max_records steps,
  let d := fun k => distance H (from_peer self_peer) (from_record_key k) in
  let '(held, far) := store_run (key_dist H self_peer) max_records steps in
  match far with
  | Some (k, dist_k) => In k held /\ dist_k = d k /\ forall k', In k' held -> d k' <= dist_k
  | None => held = []
  end.
Proof.
  intros H self_peer max_records steps d.
  pose proof (store_run_ok (key_dist H self_peer) max_records steps) as Hok.
  destruct (store_run (key_dist H self_peer) max_records steps) as [held far]. exact Hok.
Qed.

(* At capacity (in any state whose farthest_record is right, i.e. every reachable one): a record is refused
   exactly when every held record is strictly nearer; otherwise exactly a farthest held record makes room. *)
Theorem store_admission_exact : forall H self_peer max_records k held far,
  let d := fun k => distance H (from_peer self_peer) (from_record_key k) in
  far_ok (key_dist H self_peer) held far ->
  max_records <= N.of_nat (List.length held) -> held <> [] ->
  match store_prune (key_dist H self_peer) max_records k (held, far) with
  | None => forall k', In k' held -> d k' < d k
  | Some s' =>
      exists fk, In fk held /\ (forall k', In k' held -> d k' <= d fk) /\ d k <= d fk /\
                 fst s' = remove_key fk held
  end.
Proof. intros H self_peer max_records k held far d. exact (store_admission_exact_lemma (key_dist H self_peer) max_records k held far). Qed.

(* the boundary is exact: a record that is not farther than some held record (equal distance included: a re-put of
   the farthest record itself, or of any held record) is never refused, whatever the fill level *)
Theorem store_admits_not_farther : forall H self_peer max_records k held far,
  let d := fun k => distance H (from_peer self_peer) (from_record_key k) in
  far_ok (key_dist H self_peer) held far ->
  (exists k', In k' held /\ d k <= d k') ->
  store_prune (key_dist H self_peer) max_records k (held, far) <> None.
Proof. intros H self_peer max_records k held far d. exact (store_admits_not_farther (key_dist H self_peer) max_records k held far). Qed.

Theorem store_history_agreement_sound : forall H self_peer max_records keys steps,
  agree_store_hist H self_peer max_records keys steps = true ->
  forall st pre_held pre_far res post_held post_far,
    In (st, (pre_held, pre_far), res, (post_held, post_far)) steps ->
    agree_store_step (key_dist H self_peer) max_records st pre_held pre_far res post_held post_far = true.
Proof. exact agree_store_hist_sound. Qed.

(* ---- SwarmDriver::get_closest_k_value_local_peers *)

(* ourselves first, then the routing table in ascending distance to ourselves, cut at K; the close group and
   the responsible-range reference peer are read off that order; the order in which the peers entered the
   routing table never matters (no two of them at the same distance) *)
Theorem closest_k_spec : forall H self_peer k_value table,
  let d := fun p => distance H (from_peer self_peer) (from_peer p) in
  sorted_by d (closest_k_value_local_peers H self_peer k_value table) /\
  (1 <= k_value ->
     closest_k_value_local_peers H self_peer k_value table =
     self_peer :: firstn (N.to_nat (k_value - 1)) (sort_by d table)) /\
  (CLOSE_GROUP_SIZE + 2 <= k_value ->
     firstn (N.to_nat CLOSE_GROUP_SIZE) (closest_k_value_local_peers H self_peer k_value table) =
       self_peer :: firstn (N.to_nat (CLOSE_GROUP_SIZE - 1)) (sort_by d table) /\
     nth (N.to_nat (CLOSE_GROUP_SIZE + 1)) (closest_k_value_local_peers H self_peer k_value table) [] =
       nth (N.to_nat CLOSE_GROUP_SIZE) (sort_by d table) []).
Proof.
  intros H self_peer k_value table d. split; [apply closest_k_sorted|].
  split; [apply closest_k_head|apply closest_k_consumers].
Qed.

Theorem closest_k_insertion_order_irrelevant : forall H self_peer k_value table table',
  let d := fun p => distance H (from_peer self_peer) (from_peer p) in
  Permutation table table' -> NoDup table ->
  (forall p q, In p table -> In q table -> d p = d q -> p = q) ->
  closest_k_value_local_peers H self_peer k_value table = closest_k_value_local_peers H self_peer k_value table'.
Proof. intros H self_peer k_value table table' d. exact (closest_k_perm_invariant H self_peer k_value table table'). Qed.

(* ---- Node::respond_x_closest_record_proof (storage challenge answers) *)

Theorem x_closest_chunks_spec : forall H target difficulty records,
  let d := fun k => distance H target (from_record_key k) in
  let chunks := map fst (filter is_chunk records) in
  let out := x_closest_chunks H target difficulty records in
  out = firstn (N.to_nat (N.min difficulty CLOSE_GROUP_SIZE)) (sort_by d chunks) /\
  sorted_by d out /\
  N.of_nat (List.length out) = N.min (N.min difficulty CLOSE_GROUP_SIZE) (N.of_nat (List.length chunks)) /\
  (forall k, In k out -> In (k, 0) records) /\
  (exists rest, Permutation (out ++ rest) chunks /\ forall x y, In x out -> In y rest -> d x <= d y).
Proof. intros H target difficulty records. exact (x_closest_chunks_spec_lemma H target difficulty records). Qed.

(* filter-then-take, not take-then-filter: the swapped order is refuted *)
Theorem x_closest_chunks_take_then_filter_refuted :
  exists target difficulty records,
    take_then_filter_chunks sha256 target difficulty records <> x_closest_chunks sha256 target difficulty records /\
    (List.length (take_then_filter_chunks sha256 target difficulty records) <
     List.length (x_closest_chunks sha256 target difficulty records))%nat.
Proof. exact take_then_filter_refuted_lemma. Qed.

(* ---- Node::calculate_get_closest_peers *)

Theorem closest_peers_spec : forall H, (forall x, H x < 2 ^ 256) ->
  forall (M : Type) (pas : list (bytes * M)) target num range,
  match range, num with
  | Some v, _ =>
      calculate_get_closest_peers H pas target num range =
        map lift (filter (fun pm => distance H target (from_peer (fst pm)) <=? be_val v) pas)
  | None, Some n =>
      let out := calculate_get_closest_peers H pas target num range in
      sorted_by (fun am => distance H target (fst am)) out /\
      N.of_nat (List.length out) = N.min n (N.of_nat (List.length pas)) /\
      (exists rest, Permutation (out ++ rest) (map lift pas) /\
         forall x y, In x out -> In y rest -> distance H target (fst x) <= distance H target (fst y)) /\
      (forall full, sorted_by (fun am => distance H target (fst am)) full ->
         (forall d, keyed (fun am => distance H target (fst am)) d full =
                    keyed (fun am => distance H target (fst am)) d (map lift pas)) ->
         out = firstn (N.to_nat n) full)
  | None, None => calculate_get_closest_peers H pas target num range = []
  end.
Proof. intros H Hb M. exact (@closest_peers_spec_lemma H Hb M). Qed.

(* ---- SwarmDriver::get_replicate_candidates *)

Theorem candidates_spec : forall H, (forall x, H x < 2 ^ 256) -> forall closest target range,
  sorted_by (fun p => distance H target (from_peer p)) closest ->
  let m := match range with
           | Some r => N.of_nat (List.length (filter (fun p => distance H target (from_peer p) <=? r) closest))
           | None => 0
           end in
  get_replicate_candidates H closest target range =
    firstn (N.to_nat (if CLOSE_GROUP_SIZE <=? m then m else CLOSE_GROUP_SIZE)) closest.
Proof. exact candidates_spec_lemma. Qed.
