(* C05 -- quorum reads return only what enough distinct peers agree on.
   Only pinned statements, `exact <lemma>` and small wrappers live here.

   Reading guide: a history `evs` is any list of events -- GetNetworkRecord commands (Cmd), replies
   (Found, from a peer or the local store), terminating events (Finished / ErrNotFound /
   ErrQuorumFailed / ErrTimeout), receivers being dropped (Drop) -- in any order, with any
   duplication, for any number of callers and keys.  `final evs` is the driver state after it,
   `outs evs` everything delivered on callers' channels, `step_outs (final pre) e` what event `e`
   delivers after history `pre`. *)
From Coq Require Import List NArith Bool Permutation Sorted.
From V Require Import gen.Consts model.GetRecord proofs.GetRecord proofs.GetRecordQuorum proofs.GetRecordSplit
  proofs.GetRecordHolders.
Import ListNotations.
Open Scope N_scope.

(* the source constants the statements are about (re-read from the source on every run) *)
Theorem constants_consistent :
  Consts.gr_close_group_size = 5 /\ close_group_majority = 3 /\
  quorum_value QAll = 5 /\ quorum_value QMajority = 3 /\ quorum_value QOne = 1.
Proof. exact constants_ok. Qed.

(* (a) every caller: at most one outcome; none while its query is in flight; exactly one once it
   has been issued and is no longer waiting (a caller that dropped its own receiver cannot be
   answered; a caller whose sender was dropped unsent observes EClosed, a specific error);
   nothing for callers that were never issued *)
Theorem one_outcome_per_caller : forall evs c,
  (count_outcomes (outs evs) c <= 1)%nat /\
  (waiting (final evs) c = true -> count_outcomes (outs evs) c = 0%nat) /\
  (c < next_cid (final evs) -> waiting (final evs) c = false -> ~ In c (dead (final evs)) ->
     count_outcomes (outs evs) c = 1%nat) /\
  (next_cid (final evs) <= c -> count_outcomes (outs evs) c = 0%nat).
Proof. exact one_outcome_lemma. Qed.

(* finished / not found / quorum failed / timeout end the query they name *)
Theorem terminating_event_ends_wait : forall evs e q, terminating e q ->
  find_query q (pending (final (evs ++ [e]))) = None.
Proof. exact terminating_removes. Qed.

(* at most one query per key is in flight, so the iteration order of pending_get_record in the
   de-duplication loop of cmd.rs cannot matter *)
Theorem dedup_order_irrelevant : forall evs x y,
  In x (pending (final evs)) -> In y (pending (final evs)) -> qkey x = qkey y -> x = y.
Proof. exact one_query_per_key. Qed.

(* GetRecordCfg::expected_holders is logging data: histories that differ only in the expected holders
   of their commands deliver the same outcomes to the same callers and end in the same state (up to
   the stored holder sets), and every single handler call returns the same code -- in particular all
   expected holders having answered never completes a read *)
Theorem outcomes_independent_of_expected_holders : forall evs1 evs2,
  map strip_event evs1 = map strip_event evs2 ->
  outs evs1 = outs evs2 /\ strip_state (final evs1) = strip_state (final evs2).
Proof. exact holders_irrelevant. Qed.

Theorem step_independent_of_expected_holders : forall s e,
  step (strip_state s) (strip_event e) =
  (strip_state (fst (fst (step s e))), snd (fst (step s e)), snd (step s e)).
Proof. exact step_strip. Qed.

(* Ok(record) is always the record of the reply being processed (never a stored or invented one) *)
Theorem ok_is_a_reply : forall pre e c r,
  In (c, OOk r) (step_outs (final pre) e) -> exists q po, e = Found q po r.
Proof. exact ok_is_a_reply_lemma. Qed.

(* (b) Ok(record) for a caller with its own configuration cf: at least quorum-many *distinct* peers
   (NoDup: a peer answering twice counts once) returned byte-identical content for the query, and
   the record passes the caller's target check -- for every caller outside the known class F10 *)
Theorem ok_needs_quorum : forall pre e c r key cf,
  In (c, OOk r) (step_outs (final pre) e) -> cmd_at pre c key cf -> ~ KnownJoined pre c ->
  exists q ps, NoDup ps /\ quorum_value (cq cf) <= nlen ps /\
    (forall p, In p ps -> replied (pre ++ [e]) q p (rcont r)) /\
    does_target_match cf r = true.
Proof. exact ok_needs_quorum_lemma. Qed.

(* ... and for every caller, including those in F10, with respect to the configuration of the query
   it is attached to (the first caller's) *)
Theorem ok_under_query_cfg : forall pre e c r,
  In (c, OOk r) (step_outs (final pre) e) ->
  exists q po x ps,
    e = Found q po r /\ find_query q (pending (final pre)) = Some x /\ In c (qcallers x) /\
    NoDup ps /\ quorum_value (cq (qcfg x)) <= nlen ps /\
    (forall p, In p ps -> replied (pre ++ [e]) q p (rcont r)) /\
    does_target_match (qcfg x) r = true.
Proof. exact ok_under_query_cfg_lemma. Qed.

(* (c) invariant: every version of every pending query has fewer distinct responders than the quorum *)
Theorem below_quorum : forall evs x r ps,
  In x (pending (final evs)) -> In (r, ps) (qvers x) ->
  NoDup ps /\ nlen ps < quorum_value (cq (qcfg x)) /\ ps <> [].
Proof. exact below_quorum_lemma. Qed.

(* hence the branch of handle_get_record_finished that returns Ok without the target check, and the
   quorum branch of the timeout handler, are unreachable *)
Theorem finished_never_ok_unchecked : forall evs q c r,
  ~ In (c, OOk r) (step_outs (final evs) (Finished q)).
Proof. exact finished_never_ok_lemma. Qed.

Theorem timeout_never_ok : forall evs q c o,
  In (c, o) (step_outs (final evs) (ErrTimeout q)) -> o = ETimeout \/ o = EClosed.
Proof. exact timeout_outs. Qed.

(* (d) SplitRecord carries at least two versions of pairwise different content; each version lists
   exactly peers that returned that content for this query, each once *)
Theorem split_returns_all_versions : forall pre e c vs,
  In (c, ESplit vs) (step_outs (final pre) e) ->
  exists q, (e = Finished q \/ exists po r, e = Found q po r) /\
    (2 <= length vs)%nat /\ NoDup (map vcont vs) /\
    forall r0 ps, In (r0, ps) vs ->
      NoDup ps /\ ps <> [] /\ forall p, In p ps -> replied (pre ++ [e]) q p (rcont r0).
Proof. exact split_lemma. Qed.

(* ... and it is the FULL set: every reply the query received (replies refer to issued queries:
   wf_trace) appears in it with its sender *)
Theorem split_is_complete : forall pre e c vs, wf_trace (pre ++ [e]) ->
  In (c, ESplit vs) (step_outs (final pre) e) ->
  exists q, (e = Finished q \/ exists po r, e = Found q po r) /\
    forall po r, In (Found q po r) (pre ++ [e]) ->
      exists r0 ps, In (r0, ps) vs /\ rcont r0 = rcont r /\ In (peer_of po) ps.
Proof. exact split_complete_lemma. Qed.

(* no size cap on the version map: for ANY number of distinct contents returned to the query, the
   contents carried by SplitRecord are exactly (iff) the contents some peer returned, each once *)
Theorem split_carries_every_version : forall pre e c vs, wf_trace (pre ++ [e]) ->
  In (c, ESplit vs) (step_outs (final pre) e) ->
  exists q, (e = Finished q \/ exists po r, e = Found q po r) /\
    NoDup (map vcont vs) /\
    forall ct, In ct (map vcont vs) <-> exists po r, In (Found q po r) (pre ++ [e]) /\ rcont r = ct.
Proof. exact split_carries_every_version_lemma. Qed.

(* Ok(merged record) (quorum reached while versions differ): the sorted union of the transactions
   of all versions present -- never one of them picked *)
Theorem merged_is_transaction_union : forall pre e c r,
  In (c, OMerged r) (step_outs (final pre) e) ->
  exists q po r1 x vers' U,
    e = Found q po r1 /\ find_query q (pending (final pre)) = Some x /\ In c (qcallers x) /\
    vers' = fst (insert_version (qvers x) r1 (peer_of po)) /\ (2 <= length vers')%nat /\
    r = {| rkey := rkey r1; rcont := tx_content U; rpub := None |} /\
    StronglySorted N.lt U /\ U <> [] /\
    forall t, In t U <-> exists v l, In v vers' /\ get_transactions (fst v) = Some l /\ In t l.
Proof. exact merged_lemma. Qed.

(* ... and outside the known class (some version present is not a transaction list) every version
   is covered by the merge *)
Theorem merged_covers_all : forall pre e c r, In (c, OMerged r) (step_outs (final pre) e) ->
  exists q po r1 x U,
    e = Found q po r1 /\ find_query q (pending (final pre)) = Some x /\ rcont r = tx_content U /\
    (~ KnownMixedMerge (fst (insert_version (qvers x) r1 (peer_of po))) ->
     forall v, In v (fst (insert_version (qvers x) r1 (peer_of po))) ->
       exists l, get_transactions (fst v) = Some l /\ forall t, In t l -> In t U).
Proof. exact merged_covers_all_lemma. Qed.

(* handle_split_record_error with the map iteration order as the explicit argument: outside the
   known class F11 the result is the same for every order *)
Theorem merge_perm_invariant : forall vers vers' key,
  Permutation vers vers' -> canonical vers -> ~ KnownOrderDependent vers ->
  handle_split vers key = handle_split vers' key.
Proof. exact merge_perm_invariant_lemma. Qed.

(* ... and it is: the union of transactions (if more than one), *)
Theorem split_tx_is_union : forall vers key, first_kind vers = Some KTx -> (2 <= length vers)%nat ->
  exists U, StronglySorted N.lt U /\
    (forall t, In t U <-> exists r ids, In r vers /\ ckind (rcont r) = Some KTx /\
                                       cpay (rcont r) = PTx ids /\ In t ids) /\
    handle_split vers key =
      if 1 <? nlen U then Some {| rkey := key; rcont := tx_content U; rpub := None |} else None.
Proof. exact split_tx_lemma. Qed.

(* the union of the operations of the verified registers (same base), *)
Theorem split_reg_is_union : forall vers key, first_kind vers = Some KReg -> (2 <= length vers)%nat ->
  canonical vers -> ~ forked_registers vers ->
  match handle_split vers key with
  | None => forall r b ops salt, In r vers -> ckind (rcont r) = Some KReg -> cpay (rcont r) <> PReg b true ops salt
  | Some m =>
      exists b U salt,
        m = {| rkey := key; rcont := {| ckind := Some KReg; cpay := PReg b true U salt |}; rpub := None |} /\
        StronglySorted N.lt U /\
        (exists r ops, In r vers /\ ckind (rcont r) = Some KReg /\ cpay (rcont r) = PReg b true ops salt) /\
        (forall t, In t U <-> exists r b' ops s', In r vers /\ ckind (rcont r) = Some KReg /\
                                cpay (rcont r) = PReg b' true ops s' /\ In t ops)
  end.
Proof. exact split_reg_lemma. Qed.

(* a validly signed scratchpad with the highest counter *)
Theorem split_pad_is_max : forall vers key, first_kind vers = Some KPad -> (2 <= length vers)%nat ->
  match handle_split vers key with
  | None => forall r c d, In r vers -> ckind (rcont r) = Some KPad -> cpay (rcont r) <> PPad true c d
  | Some m =>
      exists c d,
        m = {| rkey := key; rcont := {| ckind := Some KPad; cpay := PPad true c d |}; rpub := None |} /\
        (exists r, In r vers /\ ckind (rcont r) = Some KPad /\ cpay (rcont r) = PPad true c d) /\
        (forall r c' d', In r vers -> ckind (rcont r) = Some KPad -> cpay (rcont r) = PPad true c' d' -> c' <= c)
  end.
Proof. exact split_pad_lemma. Qed.

(* get_record_from_network over any number of attempts: Ok(r) is the Ok of some attempt or the merge
   of the versions of some attempt's SplitRecord *)
Theorem api_ok_is_reply_or_merge : forall key atts n r, api_loop key n atts = Some (AOk r) ->
  exists o order, In (o, order) atts /\
    (o = OOk r \/ o = OMerged r \/ (exists vs, o = ESplit vs /\ handle_split order key = Some r)).
Proof. exact api_loop_ok. Qed.

(* the retry loop on top of the query model.  `cids` are the callers created by the successive attempts
   of one get_record_from_network call (each attempt sends a fresh GetNetworkRecord command), `orders`
   the iteration orders of the split maps.  The loop's Ok is the Ok of ONE attempt -- a single reply
   that completed the quorum of that attempt's query, with quorum-many DISTINCT peers having returned
   the content to THAT query -- or one attempt's merge.  Nothing accumulates across attempts: a holder
   answering once in every attempt is one peer in each of them. *)
Theorem api_ok_from_single_attempt : forall evs key n cids orders r,
  api_loop key n (combine (flat_map (outcomes_of evs) cids) orders) = Some (AOk r) ->
  (exists c pre e post q po x ps,
     In c cids /\ evs = pre ++ e :: post /\ e = Found q po r /\
     find_query q (pending (final pre)) = Some x /\ In c (qcallers x) /\
     NoDup ps /\ quorum_value (cq (qcfg x)) <= nlen ps /\
     (forall p, In p ps -> replied (pre ++ [e]) q p (rcont r)) /\
     does_target_match (qcfg x) r = true) \/
  (exists c o, In c cids /\ In (c, o) (outs evs) /\
     (o = OMerged r \/ exists vs order, o = ESplit vs /\ handle_split order key = Some r)).
Proof. exact api_ok_from_single_attempt_lemma. Qed.

(* an error returned by the loop is the unchanged error of one of its attempts (the last one made) *)
Theorem api_err_is_an_attempts_error : forall evs key n cids orders e,
  api_loop key n (combine (flat_map (outcomes_of evs) cids) orders) = Some (AErr e) ->
  exists c, In c cids /\ In (c, e) (outs evs).
Proof. exact api_err_is_last_attempt_lemma. Qed.

(* (e) refutations, replayed on the real code from corpus/C05 (known classes F10 / F11) *)
Theorem joined_caller_refuted :
  exists pre e c r key cf,
    In (c, OOk r) (step_outs (final pre) e) /\ cmd_at pre c key cf /\
    does_target_match cf r = false /\
    (forall q ps, NoDup ps -> (forall p, In p ps -> replied (pre ++ [e]) q p (rcont r)) ->
                  nlen ps < quorum_value (cq cf)).
Proof. exact joined_caller_refuted_lemma. Qed.

Theorem merge_forked_register_refuted :
  exists vers vers' key, Permutation vers vers' /\ canonical vers /\ forked_registers vers /\
                         handle_split vers key <> handle_split vers' key.
Proof. exact merge_forked_register_refuted_lemma. Qed.

Theorem merge_mixed_kinds_refuted :
  exists vers vers' key, Permutation vers vers' /\ canonical vers /\ mixed_kinds vers /\
                         handle_split vers key <> handle_split vers' key.
Proof. exact merge_mixed_kinds_refuted_lemma. Qed.

Theorem merge_scratchpad_tie_refuted :
  exists vers vers' key, Permutation vers vers' /\ canonical vers /\ scratchpad_tie vers /\
                         handle_split vers key <> handle_split vers' key.
Proof. exact merge_scratchpad_tie_refuted_lemma. Qed.

(* inside KnownMixedMerge: three peers return a scratchpad, one a transaction record; the
   Quorum::N(3) reader gets Ok(the transaction record), the version holding the quorum is dropped *)
Theorem merged_drops_quorum_version_refuted :
  exists pre q po r1 x c r v ps,
    find_query q (pending (final pre)) = Some x /\
    In (c, OMerged r) (step_outs (final pre) (Found q po r1)) /\
    In (v, ps) (fst (insert_version (qvers x) r1 (peer_of po))) /\
    quorum_value (cq (qcfg x)) <= nlen ps /\ get_transactions v = None /\
    r = mm_tx.
Proof. exact merged_drops_quorum_version_refuted_lemma. Qed.
