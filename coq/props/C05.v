(* C05 -- quorum reads return only what enough distinct peers agree on.
   Only pinned statements, `exact <lemma>` and small wrappers live here. *)
From Coq Require Import List NArith Bool Permutation.
From V Require Import gen.Consts model.GetRecord proofs.GetRecord.
Import ListNotations.
Open Scope N_scope.

(* the source constants the statements are about (re-read from the source on every run) *)
Theorem constants_consistent :
  Consts.gr_close_group_size = 5 /\ close_group_majority = 3 /\
  quorum_value QAll = 5 /\ quorum_value QMajority = 3 /\ quorum_value QOne = 1.
Proof. exact constants_ok. Qed.

(* (a) for every history of commands, replies, terminating events and dropped receivers, and every
   caller: at most one outcome; none while its query is in flight; exactly one once it has been
   issued and is no longer waiting (a caller that dropped its own receiver cannot be answered);
   nothing for callers that were never issued *)
Theorem one_outcome_per_caller : forall evs c,
  (count_outcomes (outs evs) c <= 1)%nat /\
  (waiting (final evs) c = true -> count_outcomes (outs evs) c = 0%nat) /\
  (c < next_cid (final evs) -> waiting (final evs) c = false -> ~ In c (dead (final evs)) ->
     count_outcomes (outs evs) c = 1%nat) /\
  (next_cid (final evs) <= c -> count_outcomes (outs evs) c = 0%nat).
Proof. exact one_outcome_lemma. Qed.

(* finished / not found / quorum failed / timeout end the query they name *)
Theorem terminating_event_ends_wait : forall evs e q, terminating e q ->
  find_query q (pending (final (evs ++ [e]))) = None.
Proof. exact terminating_removes. Qed.
