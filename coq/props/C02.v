(* C02 -- a restarted node never serves corrupted records and keeps completed writes.
   Only pinned statements, `exact <lemma>` and Print Assumptions live here.
   A crash is `crash E s tears`: s is any reachable state (so any subset of the background tasks has
   run, per file in spawn order), `tears` lists files whose pending write was in progress with the
   number of bytes that reached the disk; everything in memory is lost and the store is re-opened. *)
From Coq Require Import List NArith String Bool.
From V Require Import lib.Strs gen.Consts model.RecordStore model.StoreStartup proofs.RecordStore proofs.RecordStoreCrash proofs.StoreStartup.
Import ListNotations.
Open Scope N_scope.

(* the shipped build encrypts record files (regenerated from ant-node/Cargo.toml on every run) *)
Theorem shipped_build_encrypts_records : Consts.rs_encrypt_records_shipped = true.
Proof. exact shipped_build_encrypts. Qed.

(* never a truncated, mixed or foreign value: nothing, or a value previously validated for that key *)
Theorem restart_safe : forall E, cipher_ok E -> e_encrypt E = Consts.rs_encrypt_records_shipped ->
  forall ops tears k v, get E (crash E (run E ops (init E)) tears) k = Some v -> In v (hist ops k).
Proof. exact restart_safe_lemma. Qed.

(* a record whose file write had completed (its bytes are what the file holds at the crash), with a
   parseable header, and which is not the file being torn, is served again and listed -- whether or
   not its completion notification was ever delivered *)
Theorem restart_durable : forall E, cipher_ok E -> e_encrypt E = Consts.rs_encrypt_records_shipped ->
  forall ops tears k v,
  flookup (fname k) (files (run E ops (init E))) = Some (file_bytes E k v) -> header_kind v <> None ->
  ~ In k (map fst tears) ->
  get E (crash E (run E ops (init E)) tears) k = Some v /\ contains (crash E (run E ops (init E)) tears) k = true.
Proof. exact restart_durable_lemma. Qed.

Theorem completed_write_is_on_disk : forall E s i k v t,
  enabled (tasks s) i = true -> nth_error (tasks s) i = Some (TWrite k v t) -> write_ok k = true ->
  flookup (fname k) (files (run_task E s i)) = Some (file_bytes E k v).
Proof. exact completed_write_on_disk_lemma. Qed.

(* completed removals stay removed *)
Theorem restart_removed_stay_removed : forall E, cipher_ok E -> e_encrypt E = Consts.rs_encrypt_records_shipped ->
  forall ops tears k,
  flookup (fname k) (files (run E ops (init E))) = None -> ~ In k (map fst tears) ->
  get E (crash E (run E ops (init E)) tears) k = None /\ contains (crash E (run E ops (init E)) tears) k = false.
Proof. exact restart_removed_lemma. Qed.

Theorem completed_delete_is_on_disk : forall E s i k,
  enabled (tasks s) i = true -> nth_error (tasks s) i = Some (TDelete k) ->
  flookup (fname k) (files (run_task E s i)) = None.
Proof. exact completed_delete_on_disk_lemma. Qed.

(* without the feature the safety statement is false: a torn file with an intact header is served *)
Theorem restart_safe_unencrypted_refuted :
  exists E ops tears k v, cipher_ok E /\ e_encrypt E = false /\
    get E (crash E (run E ops (init E)) tears) k = Some v /\ ~ In v (hist ops k).
Proof. exact restart_safe_unencrypted_refuted_lemma. Qed.

(* ---- crash points during node START-UP (driver.rs check_and_wipe_storage_dir_if_necessary runs before
   the store is opened: version file read / created, on a mismatch the store is wiped and the version
   file truncated and rewritten).  `spoint` enumerates where a start-up attempt may be killed. *)

(* source-derived structural fact: the version file is modified, and the store wiped, only inside the
   mismatch branch (regenerated from driver.rs on every run) *)
Theorem version_file_written_only_on_mismatch : Consts.rs_version_written_only_on_mismatch = true.
Proof. exact StoreStartup.version_file_written_only_on_mismatch. Qed.

(* a start-up under the version the records were written with changes nothing on disk, wherever it
   is killed -- for any number of attempts *)
Theorem same_version_start_inert : forall cur p d, vfile d = Some cur -> startup cur p d = d.
Proof. exact same_version_start_inert_lemma. Qed.

Theorem same_version_starts_inert : forall cur ps d, vfile d = Some cur -> run_starts cur ps d = d.
Proof. exact same_version_starts_inert_lemma. Qed.

(* durability and safety for EVERY crash point, those during start-up included: crash of the running
   node (torn files), any number of killed same-version start-ups, one that completes, re-open *)
Theorem restart_durable_incl_startup : forall E, cipher_ok E -> e_encrypt E = Consts.rs_encrypt_records_shipped ->
  forall ops tears cur ps k v,
  flookup (fname k) (files (run E ops (init E))) = Some (file_bytes E k v) -> header_kind v <> None ->
  ~ In k (map fst tears) ->
  get E (restart_via_startup E (run E ops (init E)) tears cur ps) k = Some v
  /\ contains (restart_via_startup E (run E ops (init E)) tears cur ps) k = true.
Proof. exact restart_durable_incl_startup_lemma. Qed.

Theorem restart_safe_incl_startup : forall E, cipher_ok E -> e_encrypt E = Consts.rs_encrypt_records_shipped ->
  forall ops tears cur ps k v,
  get E (restart_via_startup E (run E ops (init E)) tears cur ps) k = Some v -> In v (hist ops k).
Proof. exact restart_safe_incl_startup_lemma. Qed.

(* a version change wipes (intended), and an interrupted wipe is completed by the next start *)
Theorem version_change_wipes : forall cur d, prev_version d <> cur -> startup cur SDone d = mkDisk (Some cur) [].
Proof. exact version_change_wipes_lemma. Qed.

Theorem interrupted_version_change_converges : forall cur p d, prev_version d <> cur ->
  dfiles (startup cur SDone (startup cur p d)) = [] \/ p = SBefore.
Proof. exact interrupted_version_change_converges_lemma. Qed.

(* rewriting the version file on every start would not be safe *)
Theorem rewrite_always_refuted :
  exists cur d, vfile d = Some cur /\ dfiles d <> [] /\
    dfiles (startup cur SDone (startup_rewrite_always cur SAfterTruncate d)) = [].
Proof. exact rewrite_always_refuted_lemma. Qed.

(* source-derived structural fact (driver.rs build_node, regenerated every run): the encryption seed is the
   first 16 bytes of the serialised peer id and is assigned nowhere else -- a function of the identity only.
   The crash model re-opens the store under the same environment E (same cipher key) on that ground. *)
Theorem store_seed_is_function_of_identity : Consts.rs_seed_from_identity = true.
Proof. exact seed_is_function_of_identity. Qed.
