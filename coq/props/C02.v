(* C02 -- a restarted node never serves corrupted records and keeps completed writes.
   Only pinned statements, `exact <lemma>` and Print Assumptions live here.
   A crash is `crash E s tears`: s is any reachable state (so any subset of the background tasks has
   run, per file in spawn order), `tears` lists files whose pending write was in progress with the
   number of bytes that reached the disk; everything in memory is lost and the store is re-opened. *)
From Coq Require Import List NArith String Bool.
From V Require Import lib.Strs gen.Consts model.RecordStore proofs.RecordStore proofs.RecordStoreCrash.
Import ListNotations.
Open Scope N_scope.

(* the shipped build encrypts record files (regenerated from ant-node/Cargo.toml on every run) *)
Theorem shipped_build_encrypts_records : Consts.rs_encrypt_records_shipped = true.
Proof. exact shipped_build_encrypts. Qed.

(* never a truncated, mixed or foreign value: nothing, or a value previously validated for that key *)
Theorem restart_safe : forall E, cipher_ok E -> e_encrypt E = Consts.rs_encrypt_records_shipped ->
  forall ops tears k v, get E (crash E (run E ops (init E)) tears) k = Some v -> In v (hist ops k).
Proof. exact restart_safe_lemma. Qed.

(* a record whose file write had completed (its bytes are what the file holds at the crash), with a
   parseable header, and which is not the file being torn, is served again and listed -- whether or
   not its completion notification was ever delivered *)
Theorem restart_durable : forall E, cipher_ok E -> e_encrypt E = Consts.rs_encrypt_records_shipped ->
  forall ops tears k v,
  flookup (fname k) (files (run E ops (init E))) = Some (file_bytes E k v) -> header_kind v <> None ->
  ~ In k (map fst tears) ->
  get E (crash E (run E ops (init E)) tears) k = Some v /\ contains (crash E (run E ops (init E)) tears) k = true.
Proof. exact restart_durable_lemma. Qed.

Theorem completed_write_is_on_disk : forall E s i k v t,
  enabled (tasks s) i = true -> nth_error (tasks s) i = Some (TWrite k v t) -> write_ok k = true ->
  flookup (fname k) (files (run_task E s i)) = Some (file_bytes E k v).
Proof. exact completed_write_on_disk_lemma. Qed.

(* completed removals stay removed *)
Theorem restart_removed_stay_removed : forall E, cipher_ok E -> e_encrypt E = Consts.rs_encrypt_records_shipped ->
  forall ops tears k,
  flookup (fname k) (files (run E ops (init E))) = None -> ~ In k (map fst tears) ->
  get E (crash E (run E ops (init E)) tears) k = None /\ contains (crash E (run E ops (init E)) tears) k = false.
Proof. exact restart_removed_lemma. Qed.

Theorem completed_delete_is_on_disk : forall E s i k,
  enabled (tasks s) i = true -> nth_error (tasks s) i = Some (TDelete k) ->
  flookup (fname k) (files (run_task E s i)) = None.
Proof. exact completed_delete_on_disk_lemma. Qed.

(* without the feature the safety statement is false: a torn file with an intact header is served *)
Theorem restart_safe_unencrypted_refuted :
  exists E ops tears k v, cipher_ok E /\ e_encrypt E = false /\
    get E (crash E (run E ops (init E)) tears) k = Some v /\ ~ In v (hist ops k).
Proof. exact restart_safe_unencrypted_refuted_lemma. Qed.
