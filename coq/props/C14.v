(* C14 -- self-encrypted data round-trips; chunks are bounded and content-addressed.
   Only pinned statements, `exact <lemma>` and short wrappers live here.
   Partial by design: the per-chunk transform (brotli, AES-128-CBC, XOR pad) and the msgpack codecs
   are third-party; what is assumed of them is the record codec_ok (they invert) and, for
   termination of the packing loop, codec_sizes.  Both are premises, never axioms, and are
   satisfiable (codec_laws_satisfiable). *)
From Coq Require Import List NArith Bool Permutation.
From V Require Import lib.Strs gen.Consts model.ClientRead model.SelfEnc
  proofs.SelfEncPartition proofs.SelfEncLists proofs.SelfEnc proofs.SelfEncMore proofs.SelfEncBound proofs.SelfEncPackShape proofs.SelfEncSelfRef.
Import ListNotations.
Open Scope N_scope.

(* constants of the pinned self_encryption crate, regenerated from its source on every run *)
Theorem se_constants :
  MIN_CHUNK = 1 /\ MIN_ENCRYPTABLE = 3 /\
  Consts.se_max_chunk_size = 1048576 /\ Consts.se_default_max_chunk_size = 1048576.
Proof. repeat split; reflexivity. Qed.

(* for every length >= 3 and every MAX_CHUNK_SIZE >= 1 the chunk ranges are consecutive, non-empty,
   cover [0, size) and have the advertised sizes *)
Theorem partition_exact : forall MAX size, 1 <= MAX -> 3 <= size ->
  let n := num_chunks MAX size in
  3 <= n /\
  fst (start_end MAX size 0) = 0 /\
  (forall i, i + 1 < n -> snd (start_end MAX size i) = fst (start_end MAX size (i + 1))) /\
  snd (start_end MAX size (n - 1)) = size /\
  (forall i, i < n -> fst (start_end MAX size i) < snd (start_end MAX size i)) /\
  (forall i, i < n -> snd (start_end MAX size i) - fst (start_end MAX size i) = chunk_size MAX size i).
Proof. exact partition_exact_lemma. Qed.

(* source chunks never exceed MAX_CHUNK_SIZE + 1, and exceed MAX_CHUNK_SIZE only for size = 3*MAX - 1 *)
Theorem src_chunk_bound : forall MAX size i, 1 <= MAX -> 3 <= size ->
  i < num_chunks MAX size -> chunk_size MAX size i <= MAX + 1.
Proof. intros MAX size i HM HS I. exact (src_chunk_bound_lemma MAX size HM HS i I). Qed.

Theorem src_chunk_le_max : forall MAX size i, 1 <= MAX -> 3 <= size -> size <> 3 * MAX - 1 ->
  i < num_chunks MAX size -> chunk_size MAX size i <= MAX.
Proof. intros MAX size i HM HS NE I. exact (src_chunk_le_max_lemma MAX size HM HS i NE I). Qed.

Theorem src_chunk_le_max_at_boundary_refuted :
  exists MAX size i, 1 <= MAX /\ 3 <= size /\ i < num_chunks MAX size /\ MAX < chunk_size MAX size i.
Proof. exact src_chunk_le_max_refuted. Qed.

(* encrypt, then read back privately (from the data map chunk) and publicly (from its address)
   against a store of exactly the produced chunks: the original bytes come back, through any number
   of data-map levels, for every completion schedule of the chunk fetches.  The only premise on the
   data is that the produced chunks do not collide under the content hash. *)
Theorem roundtrip : forall C MAX fuel d root chunks,
  codec_ok C -> 1 <= MAX ->
  encrypt C MAX fuel d = inl (root, chunks) ->
  (forall c1 c2, In c1 (root :: chunks) -> In c2 (root :: chunks) ->
     k_addr c1 = k_addr c2 -> k_value c1 = k_value c2) ->
  exists levels, (1 <= levels <= S fuel)%nat /\
  forall sched fuel', valid_sched sched -> (levels <= fuel')%nat ->
    data_get C (store_net C (root :: chunks)) sched fuel' root = inl d /\
    data_get_public C (store_net C (root :: chunks)) sched fuel' (k_addr root) = inl d.
Proof. exact roundtrip_lemma. Qed.

(* the same against any well-formed store that CONTAINS the produced chunks: other uploads may be on
   the network as well *)
Theorem roundtrip_any_store : forall C MAX fuel d root chunks st,
  codec_ok C -> 1 <= MAX ->
  encrypt C MAX fuel d = inl (root, chunks) ->
  good_store C st -> incl (root :: chunks) st ->
  exists levels, (1 <= levels <= S fuel)%nat /\
  forall sched fuel', valid_sched sched -> (levels <= fuel')%nat ->
    data_get C (store_net C st) sched fuel' root = inl d /\
    data_get_public C (store_net C st) sched fuel' (k_addr root) = inl d.
Proof. exact roundtrip_in_larger_store. Qed.

(* content that is itself the serialised chunk of a wrapped data map level (a backup copy of another
   upload's data map) comes back as stored: the level loop stops on the First TAG, not on what the
   decrypted bytes parse as (non-vacuous: ex_selfref_roundtrips) *)
Theorem datamap_content_roundtrips : forall C MAX fuel lvl root chunks st,
  codec_ok C -> 1 <= MAX ->
  encrypt C MAX fuel (c_ser C (c_wrap C lvl)) = inl (root, chunks) ->
  good_store C st -> incl (root :: chunks) st ->
  exists levels, (1 <= levels <= S fuel)%nat /\
  forall sched fuel', valid_sched sched -> (levels <= fuel')%nat ->
    data_get C (store_net C st) sched fuel' root = inl (c_ser C (c_wrap C lvl)).
Proof. exact datamap_content_roundtrips. Qed.

(* a loop that keeps unpacking for as long as the decrypted bytes parse as a data-map chunk returns
   another upload's plaintext for such content *)
Theorem tag_blind_unpacking_refuted :
  exists C MAX fuel d root chunks st sched f',
    codec_ok C /\ encrypt C MAX fuel d = inl (root, chunks) /\ incl (root :: chunks) st /\
    no_collision_b st = true /\ valid_sched sched /\
    data_get C (store_net C st) sched f' root = inl d /\
    exists other, data_get_greedy C (store_net C st) sched f' root = inl other /\ other <> d.
Proof. exact greedy_unpacking_refuted. Qed.

(* the packing loop ends: with a MAX_CHUNK_SIZE that can hold a three-entry wrapped data map, every
   round strictly shrinks the wrapped map, so fuel = its first size is always enough (a smaller
   compile-time MAX_CHUNK_SIZE can loop forever); the shipped constant satisfies the side condition *)
Theorem pack_terminates : forall C MAX,
  codec_sizes C -> WRAP_BASE + 3 * WRAP_ENTRY <= MAX ->
  forall fuel lvl acc, (N.to_nat (lenN (c_wrap C lvl)) <= fuel)%nat ->
  exists r, pack C MAX fuel lvl acc = inl r.
Proof. exact pack_terminates_lemma. Qed.

Theorem pack_side_condition : WRAP_BASE + 3 * WRAP_ENTRY <= Consts.se_max_chunk_size.
Proof. exact pack_side_condition_shipped. Qed.

(* any two completion orders of the chunk fetches of one data map give the same outcome, whatever
   the network answers (equal bytes, or an error in both) *)
Theorem fetch_order_irrelevant : forall C nw dm o1 o2,
  NoDup (map i_index dm) ->
  Permutation o1 (seq 0 (length dm)) -> Permutation o2 (seq 0 (length dm)) ->
  match fetch_from_data_map C nw dm o1, fetch_from_data_map C nw dm o2 with
  | inl a, inl b => a = b
  | inr _, inr _ => True
  | _, _ => False
  end.
Proof. exact fetch_order_irrelevant_lemma. Qed.

(* same input, same data map chunk and same chunks -- independently of the fuel given to the model's loop *)
Theorem deterministic : forall C MAX f1 f2 d r1 r2,
  encrypt C MAX f1 d = inl r1 -> encrypt C MAX f2 d = inl r2 -> r1 = r2.
Proof. exact deterministic_lemma. Qed.

(* every produced chunk, the data map chunk included, is addressed by the hash of its content *)
Theorem content_addressed : forall C MAX fuel d r,
  encrypt C MAX fuel d = inl r -> forall c, In c (all_chunks r) -> k_addr c = cH C (k_value c).
Proof. exact content_addressed_lemma. Qed.

(* the data map chunk always fits MAX_CHUNK_SIZE *)
Theorem root_chunk_le_max : forall C MAX fuel d r,
  encrypt C MAX fuel d = inl r -> lenN (k_value (fst r)) <= MAX.
Proof. exact root_fits_lemma. Qed.

(* ... the content chunks do not: F19 (known finding) *)
Theorem produced_chunk_le_max_refuted :
  exists C MAX fuel d r c, codec_ok C /\ 1 <= MAX /\ encrypt C MAX fuel d = inl r /\
    In c (all_chunks r) /\ MAX < lenN (k_value c).
Proof. exact produced_chunk_le_max_refuted_lemma. Qed.

(* outside that class -- a transform that never outputs more than MAX bytes for a source chunk of at
   most MAX + 1 bytes (the largest the partition produces) -- every produced chunk of every level fits *)
Theorem produced_chunk_le_max_outside_known : forall C MAX fuel d r,
  1 <= MAX -> encrypt C MAX fuel d = inl r ->
  (forall k x, lenN x <= MAX + 1 -> lenN (c_tr C k x) <= MAX) ->
  forall c, In c (all_chunks r) -> lenN (k_value c) <= MAX.
Proof. exact produced_le_max_outside_known_lemma. Qed.

(* the size-level acceptor that the correspondence run evaluates on the data-map levels the real
   code produced accepts every successful run of the model's packing loop (for a codec whose
   serialised chunk has msgpack's bin header sizes) *)
Theorem pack_accepted_by_size_acceptor : forall C MAX,
  codec_sizes C -> (forall b, lenN (c_ser C b) = ser_len (lenN b)) ->
  forall fuel lvl acc r, pack C MAX fuel lvl acc = inl r ->
  agree_pack MAX (pack_trace C MAX fuel lvl) = true.
Proof. exact pack_trace_accepted. Qed.

(* inputs of fewer than MIN_ENCRYPTABLE_BYTES = 3 bytes are rejected *)
Theorem too_small_rejected : forall C MAX fuel d, lenN d < 3 -> encrypt C MAX fuel d = inr ETooSmall.
Proof. exact too_small_lemma. Qed.

(* the laws assumed of the third-party parts are satisfiable *)
Theorem codec_laws_satisfiable : codec_ok ex_codec.
Proof. exact ex_codec_ok. Qed.
