(* C20 -- upgraded services keep every setting, and antnode accepts what antctl writes.
   Only pinned statements and `exact <lemma>`.

   `install_main c` / `upgrade_main c` are the flag items written by InstallNodeServiceCtxBuilder::build
   and NodeService::build_upgrade_install_context for the option combination `c` (transcribed in source
   order); `install_args` / `upgrade_args` the complete token lists incl. the EVM sub-command.
   T / SUBS are antnode's flag tables, regenerated on every run from the clap attributes of Opt,
   PeersArgs and EvmNetworkCommand.  What clap itself does with the tokens is established by running
   the real binary (partial by design). *)
From Coq Require Import List NArith String Bool Permutation.
From V Require Import lib.Strs lib.Dec gen.Consts model.SvcArgs proofs.SvcArgs.
Import ListNotations.
Open Scope string_scope.

(* for EVERY option combination: the two builders write the same flag/value pairs (in a different
   order) and the same sub-command; so every flag means the same at upgrade time as at installation *)
Theorem install_upgrade_equiv : forall c,
  Permutation (install_main c) (upgrade_main c) /\
  (forall f, ilookup f (install_main c) = ilookup f (upgrade_main c)) /\
  (exists k, install_args c = (render (install_main c) ++ k)%list /\ upgrade_args c = (render (upgrade_main c) ++ k)%list).
Proof. exact equiv_lemma. Qed.

(* program, user and label are the recorded ones, auto-restart is the recorded setting, and the
   environment is the one given to the upgrade *)
Theorem upgrade_keeps_definition : forall c env o,
  let i := install_ctx c env in let u := upgrade_ctx c o in
  x_program u = x_program i /\ x_user u = x_user i /\ x_label u = x_label i /\
  x_autostart u = x_autostart i /\ x_env u = u_env o.
Proof. exact ctx_lemma. Qed.

(* the one explicit difference: the node port observed at run time replaces the installed one *)
Theorem upgrade_port_is_the_only_difference : forall c p f,
  ilookup f (upgrade_main (set_port c (Some p))) =
    if String.eqb f "--port" then Some (Some (dec p)) else ilookup f (install_main c).
Proof. exact port_lemma. Qed.

(* every flag either builder writes is declared by antnode with the same arity; the sub-command and
   its options are declared too *)
Theorem every_installed_flag_is_known : forall c,
  Forall item_ok (install_main c) /\ Forall item_ok (upgrade_main c) /\
  In (evm_name (c_evm c)) Consts.antnode_evm_subcommands /\
  Forall (fun i => tlookup (iname i) (tbl Consts.antnode_evm_custom_flags) = Some (takes_value i)) (evm_items (c_evm c)).
Proof. exact known_lemma. Qed.

(* read back against antnode's tables, the written tokens are exactly the intended items *)
Theorem interp_install_is_intended : forall c,
  parse_cmd T SUBS (List.length (install_args c)) (install_args c) =
    Some (install_main c, Some (evm_name (c_evm c), evm_items (c_evm c))) /\
  parse_cmd T SUBS (List.length (upgrade_args c)) (upgrade_args c) =
    Some (upgrade_main c, Some (evm_name (c_evm c), evm_items (c_evm c))).
Proof. exact interp_lemma. Qed.

(* the push order of both builders, the peers block, the sub-command names and the custom-network
   options are the ones in the source text *)
Theorem builders_match_source :
  splice Consts.svc_install_flags Consts.svc_peers_flags =
    (map seg_name install_order ++ ["@evm"; "--rpc-url"; "--payment-token-address"; "--data-payments-address"])%list /\
  splice Consts.svc_upgrade_flags Consts.svc_peers_flags =
    (map seg_name upgrade_order ++ ["@evm"; "--rpc-url"; "--payment-token-address"; "--data-payments-address"])%list /\
  map evm_name [EvmOne; EvmSepolia; EvmCustom "" "" ""] = Consts.antnode_evm_subcommands /\
  map (fun i => (iname i, takes_value i)) (evm_items (EvmCustom "" "" "")) = tbl Consts.antnode_evm_custom_flags.
Proof. exact orders_match_source. Qed.

(* antnode declares --peer / --network-contacts-url as conflicting with --first, and --local with
   --network-contacts-url (table regenerated from the clap attributes).  Outside the one known class (a
   genesis node that was given peers: F25, reachable through ANT_PEERS) no conflicting pair is written *)
Theorem written_args_conflict_free : forall c, installable c -> ~ KnownGenesisWithPeers c ->
  forall a b, In (a, b) CONFLICTS -> ~ (written c a /\ written c b).
Proof. exact conflict_free_lemma. Qed.

(* the run-time meaning of --network-id: each of the four protocol strings of ant-protocol/src/version.rs is
   <prefix><truncated version>/<id>, with id = the configured network id, or 1 when none is configured.
   (That antnode's main really sets the id before the first string is derived is established by running it:
   the start-up hook reports the id and the strings the node holds.) *)
Theorem network_id_reaches_protocol_strings : forall c,
  Consts.protocol_str_names = ["IDENTIFY_NODE_VERSION_STR"; "IDENTIFY_CLIENT_VERSION_STR"; "REQ_RESPONSE_VERSION_STR"; "IDENTIFY_PROTOCOL_STR"] /\
  protocol_strings c =
    map (fun p => (p ++ Consts.ant_protocol_version_truncated ++ "/" ++ dec (effective_netid c))%string)
        ["ant/node/"; "ant/client/"; "/ant/"; "ant/"] /\
  (c_netid c = None -> effective_netid c = 1%N) /\ (forall n, c_netid c = Some n -> effective_netid c = n).
Proof. exact protocol_strings_lemma. Qed.

(* whatever the service lived through between installation and upgrade (starts with any observed ports, stops,
   registry refreshes): every flag but --port means at upgrade what it meant at installation, and program, user,
   label, auto-restart and the EVM sub-command are the installed ones *)
Theorem lifecycle_keeps_settings : forall c ls,
  (forall f, f <> "--port" -> ilookup f (upgrade_main (after_life c ls)) = ilookup f (install_main c)) /\
  (forall env o, let i := install_ctx c env in let u := upgrade_ctx (after_life c ls) o in
     x_program u = x_program i /\ x_user u = x_user i /\ x_label u = x_label i /\ x_autostart u = x_autostart i /\
     x_env u = u_env o) /\
  evm_tokens (c_evm (after_life c ls)) = evm_tokens (c_evm c).
Proof. exact lifecycle_lemma. Qed.

(* antnode resolves the EVM network from the sub-command when there is one, and the manager always writes one:
   whatever the service environment holds, the resolved network is the configured one *)
Theorem evm_subcommand_wins : forall c env,
  exists main, parse_cmd T SUBS (List.length (install_args c)) (install_args c) = Some (main, Some (evm_name (c_evm c), evm_items (c_evm c))) /\
  resolve_evm (Some (evm_name (c_evm c), evm_items (c_evm c))) env = Some (c_evm c) /\
  (exists main', parse_cmd T SUBS (List.length (upgrade_args c)) (upgrade_args c) = Some (main', Some (evm_name (c_evm c), evm_items (c_evm c)))).
Proof. exact subcommand_wins_lemma. Qed.

(* the definition ServiceManager::upgrade installs is the regenerated one for every force / start_service: so
   everything proved about upgrade_ctx (settings kept, only --port may differ) holds for what is installed *)
Theorem upgrade_installs_the_regenerated_definition : forall c ls o force start_service env,
  upgrade_installed_ctx (after_life c ls) o force start_service = upgrade_ctx (after_life c ls) o /\
  x_autostart (upgrade_installed_ctx (after_life c ls) o force start_service) = x_autostart (install_ctx c env).
Proof. intros. split; [reflexivity|]. destruct (lifecycle_lemma c ls) as (_ & H & _). destruct (H env o) as (_ & _ & _ & A & _). exact A. Qed.

(* where the node looks for its first peers, given the peers arguments the manager wrote: with --testnet the
   mainnet contacts are never queried, whatever else is (not) found; a genesis (--first) or --local node queries
   nothing; without --network-contacts-url no contacts URL is queried *)
Theorem testnet_never_queries_mainnet : forall c usable cached from_urls count,
  (c_testnet c = true -> ~ In SrcMainnet (cfg_sources c usable cached from_urls count)) /\
  (c_first c = true -> cfg_sources c usable cached from_urls count = []) /\
  (c_local c = true -> cfg_sources c usable cached from_urls count = []) /\
  (c_urls c = [] -> ~ In SrcUrls (cfg_sources c usable cached from_urls count)).
Proof. exact sources_lemma. Qed.

(* the limits the node's log appender is built with: the number of archives kept (total - uncompressed) is exactly
   the written --max-archived-log-files, 0 included; the plain files are the written --max-log-files (default 10);
   without an archive limit the total is max(uncompressed, 1000) *)
Theorem log_limits_as_written : forall c,
  let '(u, t) := log_limits c in
  (forall a, c_maxarch c = Some a -> t - u = a) /\ (forall n, c_maxlog c = Some n -> u = n) /\
  (c_maxlog c = None -> u = 10%N) /\ (c_maxarch c = None -> t = N.max u 1000) /\ (u <= t)%N.
Proof. exact log_limits_lemma. Qed.
