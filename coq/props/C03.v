(* C03 -- new data is stored from a client only with a valid payment for that exact data.
   Only pinned statements, `exact <lemma>` and nothing else. The model is model/PutValidation.v:
   [client_put e u] is validate_and_store_record on upload [u], [run st p] processes it against the
   store [st] (any prior content), [listed st k] is RecordStoreHasKey. *)
From Coq Require Import List NArith ZArith Bool.
From V Require Import lib.Strs gen.Consts model.PutValidation proofs.PutValidation proofs.PutOutcome proofs.PutC03.
Import ListNotations.
Open Scope N_scope.

(* what the statements depend on in the source: the quote-content check is present in
   payment_for_us_exists_and_is_still_valid, QUOTE_EXPIRATION_SECS, the RecordKind wire tags *)
Theorem source_constants_c03 :
  Consts.pv_payment_checks_quote_content = true /\ Consts.pv_quote_expiration_secs = 3600 /\
  map kind_of_tag [0; 1; 2; 3; 4; 5; 6; 7; 8] =
  [Some KChunkPaid; Some KChunk; Some KTx; Some KReg; Some KRegPaid; Some KPad; Some KPadPaid;
   Some KTxPaid; None].
Proof. exact source_constants_c03_lemma. Qed.

(* the payment check succeeds exactly when all six conditions of the property hold *)
Theorem payment_ok_iff : forall e addr p c,
  (exists amount, snd (payment_check e addr p c) = Ok amount) <->
  all_quotes_verify p && self_is_payee p && payees_close e p && none_expired p &&
  onchain_valid c && own_quotes_for p addr = true.
Proof. exact payment_check_ok_iff. Qed.

(* a record persisted at an address the node did not hold came with a proof of payment in which
   every quote is signed by its claimed node, this node is a payee, all payees are close, nothing
   has expired, the contract confirms, and this node's quote(s) -- there is at least one -- were
   issued for exactly the address stored, which is the record's key *)
Theorem stores_new_only_if_paid : forall e st u k v,
  In (EPut k v) (effects_of (run st (client_put e u))) -> listed st k = false ->
  exists p, u_proof u = Some p /\ u_key u = k /\
    all_quotes_verify p = true /\ self_is_payee p = true /\ payees_close e p = true /\
    none_expired p = true /\ onchain_valid (u_chain u) = true /\
    own_quotes_for p k = true /\ quotes_by_peer p self_peer <> [].
Proof. exact stores_new_only_if_paid_lemma. Qed.

(* if any one of the six fails for a paid upload to an address not held, the upload is rejected,
   the store is unchanged, nothing is written and no payment is credited *)
Theorem failed_payment_rejected : forall e st u p addr,
  u_proof u = Some p -> paid_target u = Some addr -> listed st addr = false ->
  payment_ok e addr p (u_chain u) = false ->
  exists x es, run st (client_put e u) = (Err x, st, es) /\ puts_of es = [] /\
               count_eff is_payrecv es = 0.
Proof. exact failed_payment_rejected_lemma. Qed.

(* uploads without payment are accepted only as updates to mutable records already held *)
Theorem unpaid_only_updates : forall e st u k v,
  u_proof u = None -> In (EPut k v) (effects_of (run st (client_put e u))) ->
  listed st k = true /\ (is_pad_v v \/ is_reg_v v).
Proof. exact unpaid_only_updates_lemma. Qed.

(* a rejected delivery (either path) writes nothing and leaves the store as it was *)
Theorem rejected_no_effect : forall e st d x,
  result_of (run st (deliver e d)) = Err x ->
  puts_of (effects_of (run st (deliver e d))) = [] /\ store_of (run st (deliver e d)) = st.
Proof. exact rejected_no_effect_lemma. Qed.

(* the contract is queried at the mined ("latest") block: a payment that is only pending is not seen *)
Theorem payment_sees_latest_only : forall latest pending pending',
  chain_queried latest pending = latest /\ chain_queried latest pending = chain_queried latest pending'.
Proof. exact payment_sees_latest_only_lemma. Qed.
