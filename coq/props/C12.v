(* C12 -- record encodings round-trip and stay wire-stable.
   Only pinned statements, `exact <lemma>` and Print Assumptions live here.
   Values are serde trees (lib/Serde.v); `has_shape (shape_of_kind k) v` says v is a value of the
   Rust type stored under kind k, `wf v` that its numbers/lengths are in range. *)
From Coq Require Import List NArith Bool.
From V Require Import lib.Strs lib.Serde lib.Msgpack lib.Cbor gen.Consts model.Quote model.Header model.Messages
  proofs.Msgpack proofs.MsgpackExt proofs.Header proofs.Cbor proofs.Messages.
Import ListNotations.
Open Scope N_scope.

(* the numeric tag of each kind, as pinned here, equals the tables regenerated from the Serialize
   and the Deserialize impl of header.rs; the variant list and SIZE are the source's *)
Theorem kind_tag_table :
  ser_table = Consts.kind_tags_ser /\ Consts.kind_tags_de = Consts.kind_tags_ser /\
  map kind_name all_kinds = Consts.kind_names /\ Consts.record_header_size = 2.
Proof. exact kind_tag_table_lemma. Qed.

Theorem tag_bijection :
  (forall k, kind_of_tag (tag k) = Some k) /\ (forall n k, kind_of_tag n = Some k -> tag k = n).
Proof. exact tag_bijection_lemma. Qed.

Theorem unknown_tag_rejected : forall n, 8 <= n -> kind_of_tag n = None.
Proof. exact unknown_tag_rejected_lemma. Qed.

(* all eight kinds: the tag occupies a fixed two-byte prefix 0x91, tag *)
Theorem header_fixed_prefix : forall k, header k = [145; tag k] /\ len (header k) = SIZE.
Proof. exact header_fixed_prefix_lemma. Qed.

Theorem header_roundtrip : forall k, header_try_deserialize (header k) = Some k.
Proof. exact header_roundtrip_lemma. Qed.

(* RecordHeader::from_record accepts exactly these three-byte windows (O8: besides the canonical
   91 k it accepts the tag as cc k / d0 k, as a one-byte bin, and as a one-entry map keyed by field
   index); every other window, in particular every unknown kind, is an error *)
Theorem from_record_accepts_iff : forall b0 b1 b2 rest k,
  b0 < 256 -> b1 < 256 -> b2 < 256 ->
  (from_record (b0 :: b1 :: b2 :: rest) = Some k <-> header_window b0 b1 b2 k).
Proof. exact from_record_accepts_iff_lemma. Qed.

(* is_record_of_type_chunk is from_record's verdict: an error exactly when from_record errs (unknown
   kind, short or malformed value), true exactly for a Chunk header *)
Theorem is_chunk_iff_header_chunk : forall bs,
  (is_record_of_type_chunk bs = Some true <-> from_record bs = Some KChunk) /\
  (is_record_of_type_chunk bs = None <-> from_record bs = None) /\
  (forall b, is_record_of_type_chunk bs = Some b -> exists k, from_record bs = Some k /\ (b = true <-> k = KChunk)).
Proof. exact is_chunk_iff_header_chunk_lemma. Qed.

Theorem from_record_short : forall bs, (length bs < 3)%nat -> from_record bs = None.
Proof. exact from_record_short_lemma. Qed.

(* every kind, with and without proof of payment *)
Theorem record_roundtrip : forall k v,
  has_shape (shape_of_kind k) v = true -> wf v = true ->
  decode_record (encode_record k v) = Some (k, v).
Proof. exact record_roundtrip_lemma. Qed.

Theorem record_kinds_distinguished : forall k k' v v', encode_record k v = encode_record k' v' -> k = k'.
Proof. exact record_kinds_distinguished_lemma. Qed.

(* chunks; H is the content hash (XorName::from_content) *)
Theorem chunk_roundtrip : forall (H : list N -> list N) c,
  c_address c = H (c_value c) -> bytes_ok (c_value c) = true -> decode_chunk H (encode_chunk c) = Some c.
Proof. exact chunk_roundtrip_lemma. Qed.

Theorem chunk_address_recomputed : forall (H : list N -> list N) bs c,
  decode_chunk H bs = Some c -> c_address c = H (c_value c).
Proof. exact chunk_address_recomputed_lemma. Qed.

Theorem chunk_encoding_carries_no_address : forall c c',
  c_value c = c_value c' -> encode_chunk c = encode_chunk c'.
Proof. exact chunk_encoding_no_address. Qed.

Theorem decode_truncated_header : forall k v n,
  (n < 3)%nat -> decode_record (firstn n (encode_record k v)) = None.
Proof. exact decode_truncated_header_lemma. Qed.

(* every strict prefix of a valid record of any kind is rejected *)
Theorem decode_truncated : forall k v n,
  has_shape (shape_of_kind k) v = true -> wf v = true ->
  (n < length (encode_record k v))%nat -> decode_record (firstn n (encode_record k v)) = None.
Proof. exact decode_truncated_lemma. Qed.

(* generic form: decoding does not depend on what follows the value, so truncation is an error *)
Theorem mp_decode_stable_under_extension : forall s bs v r x,
  enum_ok s = true -> mp_decode_as s bs = Some (v, r) -> mp_decode_as s (bs ++ x) = Some (v, r ++ x).
Proof. intros s bs v r x H. exact (mp_decode_ext s H bs v r x). Qed.

(* the generic codec theorems the above rest on *)
Theorem mp_roundtrip_generic : forall s v r,
  has_shape s v = true -> wf v = true -> mp_decode_as s (mp_encode v ++ r) = Some (v, r).
Proof. exact mp_roundtrip. Qed.

Theorem mp_encoding_prefix_free : forall s v1 v2 r1 r2,
  has_shape s v1 = true -> wf v1 = true -> has_shape s v2 = true -> wf v2 = true ->
  mp_encode v1 ++ r1 = mp_encode v2 ++ r2 -> v1 = v2 /\ r1 = r2.
Proof. exact mp_encode_prefix_free. Qed.

(* ---- request / response messages through the CBOR codec ---- *)

(* every value of the Request and of the Response type decodes back to itself from its CBOR
   encoding, whatever follows it *)
Theorem message_roundtrip : forall s v r,
  In s [c_request; c_response] -> conforms s v = true -> cwf v = true ->
  cbor_decode_as s (cbor_encode v ++ r) = Some (v, r).
Proof. exact message_roundtrip_lemma. Qed.

(* the generic statement it instantiates, and prefix-freedom *)
Theorem cbor_roundtrip_generic : forall s v r,
  conforms s v = true -> cwf v = true -> cbor_decode_as s (cbor_encode v ++ r) = Some (v, r).
Proof. exact cbor_roundtrip. Qed.

Theorem cbor_encoding_prefix_free : forall s v1 v2 r1 r2,
  conforms s v1 = true -> cwf v1 = true -> conforms s v2 = true -> cwf v2 = true ->
  cbor_encode v1 ++ r1 = cbor_encode v2 ++ r2 -> v1 = v2 /\ r1 = r2.
Proof. exact cbor_encode_prefix_free. Qed.

(* variant names and field names are part of the wire format: the names in the model's message
   shapes are the ones declared in the source (tables regenerated on every run) *)
Theorem message_name_tables :
  same_names (variant_table c_request) Consts.msg_variants_request = true /\
  same_names (variant_table c_response) Consts.msg_variants_response = true /\
  same_names (variant_table c_cmd) Consts.msg_variants_cmd = true /\
  same_names (variant_table c_query) Consts.msg_variants_query = true /\
  same_names (variant_table c_cmd_response) Consts.msg_variants_cmd_response = true /\
  same_names (variant_table c_query_response) Consts.msg_variants_query_response = true /\
  same_names (variant_table c_network_address) Consts.msg_variants_network_address = true /\
  same_names (variant_table c_record_type) Consts.msg_variants_record_type = true /\
  same_names (variant_table c_error) Consts.msg_variants_error = true /\
  field_table c_cmd = Consts.msg_fields_cmd /\
  field_table c_query = Consts.msg_fields_query /\
  field_table c_query_response = Consts.msg_fields_query_response /\
  field_table c_error = error_fields_from Consts.msg_fields_register_address Consts.msg_fields_error /\
  field_table c_register_address = Consts.msg_fields_register_address /\
  field_table c_scratchpad_address = Consts.msg_fields_scratchpad_address /\
  field_table c_quote = Consts.msg_fields_payment_quote /\
  field_table c_metrics = Consts.msg_fields_quoting_metrics.
Proof. exact message_name_tables_lemma. Qed.
