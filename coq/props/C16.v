(* C16 -- token amounts: text round-trip and overflow-safe arithmetic.
   Only pinned statements, `exact <lemma>` and Print Assumptions live here. *)
From Coq Require Import NArith String Ascii.
From V Require Import lib.Strs lib.Dec gen.Consts model.Amount proofs.Amount.
Open Scope N_scope.

(* the source constants the statements are about (regenerated from amount.rs on every run) *)
Theorem constants_consistent :
  Consts.token_decimals = 18 /\ Consts.token_raw_conversion = 10 ^ 18 /\ Consts.display_pad = 18.
Proof. exact constants_ok. Qed.

(* the printed string is the amount's value in whole tokens with exactly 18 fractional digits *)
Theorem display_value : forall a,
  exists w f, display a = (w ++ String "."%char f)%string /\
    w <> EmptyString /\ all_digits w = true /\ all_digits f = true /\
    String.length f = 18%nat /\ val w * 10 ^ 18 + val f = a.
Proof. exact display_value_lemma. Qed.

Theorem display_parse_roundtrip : forall a, a < U256 -> from_str (display a) = POk a.
Proof. exact roundtrip_lemma. Qed.

(* parsing accepts exactly the decimal strings denoting a representable amount, with its value *)
Theorem parse_accepts_iff : forall s a, from_str s = POk a <-> denotes s a.
Proof. exact accepts_lemma. Qed.

Theorem parse_value : forall s a, from_str s = POk a -> a < U256.
Proof. intros s a H. apply accepts_lemma in H. destruct H as (w & f & H). tauto. Qed.

Theorem checked_add_exact : forall a b, a < U256 -> b < U256 ->
  match checked_add a b with Some r => r = a + b /\ r < U256 | None => U256 <= a + b end.
Proof. exact checked_add_lemma. Qed.

Theorem checked_sub_exact : forall a b,
  match checked_sub a b with Some r => r + b = a | None => a < b end.
Proof. exact checked_sub_lemma. Qed.
