(* C18 -- the bootstrap cache stays bounded, well-formed and atomically persisted.
   Only pinned statements, `exact <lemma>` and Print Assumptions live here.

   cache = association list peer |-> address records (the code's HashMap; no theorem relies on its
   order, every one holds for all orders); `now` is the explicit clock; the JSON codec (enc, dec), the
   AEAD-free file system step `Commit` (rename) and craft's input parser are explicit arguments /
   premises. *)
From Coq Require Import List NArith String Ascii Bool.
From V Require Import lib.Strs gen.Consts model.Parsers proofs.Parsers model.BootCache proofs.BootCache.
Import ListNotations.
Open Scope N_scope.

(* the shipped limits (regenerated from config.rs on every run) *)
Theorem constants_c18 :
  max_peers default_config = 1500 /\ max_addrs default_config = 6 /\
  expiry default_config = 86400 * 1000000000.
Proof. exact default_config_ok. Qed.

(* ---- bounded: exactly where it holds *)
Theorem bounded_after_cleanup : forall cfg now c,
  let c' := perform_cleanup cfg now c in
  len c' <= max_peers cfg /\ forall p l, In (p, l) c' -> len l <= max_addrs cfg.
Proof. exact bounded_after_cleanup_lemma. Qed.

(* additions, status updates, removals and clean-ups keep a bounded cache bounded ... *)
Theorem bounded_without_sync : forall cfg ops c,
  forallb (fun t => negb (is_sync (snd t))) ops = true -> bounded cfg c -> bounded cfg (run cfg ops c).
Proof. exact bounded_without_sync_lemma. Qed.

(* ... a merge does not (until the next clean-up) *)
Theorem sync_breaks_bound_refuted :
  exists cfg a b, bounded cfg a /\ bounded cfg b /\ ~ bounded cfg (cache_sync a b).
Proof. exact sync_breaks_bound_refuted_lemma. Qed.

(* whatever is loaded, and whatever sync_and_flush_to_disk(true) writes, is bounded *)
Theorem load_bounded : forall dec cfg now file c, load_cache dec cfg now file = Ok c -> bounded cfg c.
Proof. exact load_bounded_lemma. Qed.

Theorem flush_with_cleanup_bounded : forall (enc : cache -> string) dec cfg now mem file,
  exists out, sync_and_flush enc dec cfg now true mem file = ([], Some (enc out)) /\ bounded cfg out.
Proof. exact flush_with_cleanup_bounded_lemma. Qed.

(* ---- well-formed: only outputs of craft_valid_multiaddr are stored *)
Theorem craft_wellformed : forall a o, craft a false = Some o -> wf_addr o = true.
Proof. exact craft_wf_lemma. Qed.

Theorem craft_fixpoint : forall o, wf_addr o = true -> craft o false = Some o.
Proof. exact craft_fixpoint_lemma. Qed.

Theorem wellformed : forall cfg ops,
  syncs_wf ops ->                        (* caches merged in (files) hold well-formed addresses *)
  forall p l r, In (p, l) (run cfg ops []) -> In r l -> wf_addr (a_addr r) = true.
Proof. intros cfg ops H. exact (wellformed_lemma cfg ops [] all_wf_nil H). Qed.

(* known class `foreign-file-addr`: what a schema-valid file holds is merged in unvalidated *)
Theorem foreign_file_unvalidated_refuted :
  exists dec cfg now file c, load_cache dec cfg now file = Ok c /\ ~ all_wf c.
Proof. exact foreign_file_unvalidated_refuted_lemma. Qed.

Theorem keys_unique : forall cfg ops, NoDup (keys (run cfg ops [])).
Proof. intros cfg ops. apply keys_unique_lemma. constructor. Qed.

(* ---- after clean-up: reliable, unexpired, oldest peers evicted first *)
Theorem cleanup_postcondition : forall cfg now c p l r,
  In (p, l) (perform_cleanup cfg now c) -> In r l ->
  a_f r <= a_s r /\ a_seen r <= now /\ now - a_seen r < expiry cfg.
Proof. exact cleanup_postcondition_lemma. Qed.

Theorem cleanup_evicts_oldest : forall cfg now c x y,
  let pre := map (fun pl => (fst pl, truncate_addrs cfg (snd pl))) (clean_peers cfg now c) in
  In x (perform_cleanup cfg now c) -> In y pre -> ~ In y (perform_cleanup cfg now c) ->
  peer_age now (snd x) <= peer_age now (snd y).
Proof. exact cleanup_evicts_oldest_lemma. Qed.

Theorem cleanup_fixpoint : forall cfg now c, clean cfg now c -> perform_cleanup cfg now c = c.
Proof. exact cleanup_fixpoint_lemma. Qed.

(* ---- merging loses nothing *)
Theorem sync_loses_nothing : forall a b p x,
  has_addr a p x \/ has_addr b p x -> has_addr (cache_sync a b) p x.
Proof. exact sync_loses_nothing_lemma. Qed.

Theorem flush_merges : forall (enc : cache -> string) dec cfg now mem file d p x,
  load_cache dec cfg now file = Ok d -> has_addr mem p x \/ has_addr d p x ->
  sync_and_flush enc dec cfg now false mem file = ([], Some (enc (cache_sync mem d))) /\
  has_addr (cache_sync mem d) p x.
Proof. exact flush_merges_lemma. Qed.

(* ---- save / load (the JSON codec's round trip is the premise) *)
Theorem save_load : forall (enc : cache -> string) dec cfg now c,
  dec (enc c) = Some c -> load_cache dec cfg now (Some (enc c)) = Ok (perform_cleanup cfg now c).
Proof. exact save_load_lemma. Qed.

Theorem save_load_clean : forall (enc : cache -> string) dec cfg now c,
  dec (enc c) = Some c -> clean cfg now c -> load_cache dec cfg now (Some (enc c)) = Ok c.
Proof. exact save_load_clean_lemma. Qed.

(* ---- the store holds the cache file's path twice (write() / load): every constructor keeps them equal, and
   then a flush writes exactly the file that is read back, touching no other file *)
Theorem ctor_paths_agree :
  (forall p, st_cache_path (store_new p) = st_cfg_path (store_new p)) /\
  (forall dflt cp pa fs, let st := fst (store_from_peers_args dflt cp pa fs) in st_cache_path st = st_cfg_path st).
Proof. exact ctor_paths_agree_lemma. Qed.

Theorem flush_then_load : forall cfg now st fs,
  st_cache_path st = st_cfg_path st -> st_disable st = false ->
  let r := store_flush cfg now st fs in
  exists out, fs_get (snd r) (st_cfg_path st) = Some out /\ bounded cfg out /\
              store_load cfg now (fst r) (snd r) = Some (perform_cleanup cfg now out) /\
              forall q, q <> st_cache_path st -> fs_get (snd r) q = fs_get fs q.
Proof. exact flush_then_load_lemma. Qed.

Theorem late_override_refuted :
  exists cfg now pa fs raw,
    let b := store_from_peers_args_late "default" (Some "config"%string) pa fs in
    let st := store_add cfg now (fst b) raw in
    let r := store_flush cfg now st (snd b) in
    st_cache_path st <> st_cfg_path st /\
    fs_get (snd r) "custom" = fs_get fs "custom" /\ fs_get (snd r) "config" <> fs_get fs "config" /\
    match store_load cfg now (fst (store_from_peers_args_late "default" (Some "config"%string) pa (snd r))) (snd r) with
    | Some c => lookup c pA = None
    | None => False
    end /\
    let b' := store_from_peers_args "default" (Some "config"%string) pa fs in
    let r' := store_flush cfg now (store_add cfg now (fst b') raw) (snd b') in
    match store_load cfg now (fst (store_from_peers_args "default" (Some "config"%string) pa (snd r'))) (snd r') with
    | Some c => lookup c pA <> None
    | None => False
    end.
Proof. exact late_override_refuted_lemma. Qed.

(* merging the file's entry into the in-memory entry of the same address: saturating u32 sums (restarted at
   the maximum), so no counter value -- 0, 1, u32::MAX-1, u32::MAX -- can overflow; with plain `+=` it would *)
Theorem sync_counters_bounded : forall self other,
  a_s self <= U32MAX -> a_f self <= U32MAX ->
  a_s (arec_sync self other) <= U32MAX /\ a_f (arec_sync self other) <= U32MAX.
Proof. exact arec_sync_bounded_lemma. Qed.

Theorem sync_wrapping_refuted :
  let file := mk 1 1 pA 4294967295 0 10 in let mem := mk 1 1 pA 1 0 20 in
  arec_sync_unchecked Debug mem file = Panic /\
  (exists r, arec_sync_unchecked Release mem file = Ok r /\ a_s r = 0) /\
  arec_sync mem file = mk 1 1 pA 1 0 20.
Proof. exact sync_wrapping_refuted_lemma. Qed.

(* a parse-failure message must not slice the file's text at a fixed byte offset *)
Theorem log_head_slice_refuted :
  let t := append (of_codes (repeat 35 63)) (of_codes [195; 164]) in
  slen t = 65 /\ log_head t = Panic /\ log_head (of_codes (repeat 35 64)) = Ok (of_codes (repeat 35 64)).
Proof. exact log_head_slice_refuted_lemma. Qed.

(* the cache file's formatter: write() replaces the file with the in-memory cache -- also with an EMPTY one
   (`first` wipes a previous network's cache), so loading after a write returns what was written *)
Theorem cache_write_then_read : forall st fs, fs_get (store_write st fs) (st_cache_path st) = Some (st_mem st).
Proof. exact write_then_read_lemma. Qed.

Theorem cache_write_empty_wipes : forall cfg now st fs,
  st_mem st = [] -> st_cache_path st = st_cfg_path st -> store_load cfg now st (store_write st fs) = Some [].
Proof. exact write_empty_wipes_lemma. Qed.

Theorem write_skip_empty_refuted :
  exists st fs, st_mem st = [] /\
    fs_get (store_write_skip_empty st fs) (st_cache_path st) <> Some [] /\
    fs_get (store_write st fs) (st_cache_path st) = Some [].
Proof. exact write_skip_empty_refuted_lemma. Qed.

(* every file the writer can produce within the configured limits loads back: load_cache_data has no size bound of its
   own (translator fact re-read from cache_store.rs on every run: read_to_string of the whole file, no take / fixed
   buffer / size constant; fails closed) -- the only limits are max_peers / max_addrs, applied by the clean-up *)
Theorem written_files_load :
  Consts.boot_load_unbounded_read = true /\
  forall (enc : cache -> string) dec cfg now c,
    dec (enc c) = Some c -> clean cfg now c -> load_cache dec cfg now (Some (enc c)) = Ok c.
Proof. split; [reflexivity | exact save_load_clean_lemma]. Qed.

(* ---- atomic replacement (premise built into `fs_do`: Commit = rename replaces the target in one step,
   temporary files are private to their writer) *)
Theorem atomic_replace : forall (valid : string -> Prop) init steps,
  (forall t, init = Some t -> valid t) ->
  (forall pre w post, steps = pre ++ Commit w :: post -> valid (pending w pre)) ->
  forall seen rest, steps = seen ++ rest ->
    match target (run_fs (fresh_fs init) seen) with Some t => valid t | None => init = None end.
Proof. exact atomic_replace_lemma. Qed.

(* write() has a single way to the disk -- the atomic writer (translator fact re-read from cache_store.rs on every run:
   AtomicWriteFile open ... commit, no direct File::create / fs::write / OpenOptions, no early return) -- and one such
   write, over an ABSENT file as well as over a present one, never exposes an empty or partial file *)
Theorem write_is_atomic_replace :
  Consts.boot_write_atomic_only = true /\
  forall init w chunks k,
    let st := run_fs (fresh_fs init) (firstn k (write_steps w chunks)) in
    target st = init \/ target st = Some (sconcat chunks).
Proof. split; [reflexivity | exact single_write_atomic_lemma]. Qed.

Theorem inplace_torn_refuted :
  exists steps,
    (forall pre w post, steps = pre ++ Commit w :: post -> pending w pre = "{a}"%string \/ pending w pre = "{b}"%string) /\
    target (fold_left fs_do_inplace steps (fresh_fs None)) = Some "{{ab}}"%string.
Proof. exact inplace_torn_refuted_lemma. Qed.

(* ---- a corrupt or foreign file is an error on load and is overwritten by the next flush *)
Theorem corrupt_ignored : forall (enc : cache -> string) dec cfg now wc mem t,
  dec t = None ->
  load_cache dec cfg now (Some t) = Err 2 /\
  sync_and_flush enc dec cfg now wc mem (Some t) =
    ([], Some (enc (if wc then try_remove_oldest cfg now (perform_cleanup cfg now mem) else mem))).
Proof. exact corrupt_ignored_lemma. Qed.
