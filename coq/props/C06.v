(* C06 -- register replicas converge and accept only authorised writes.
   Only pinned statements, `exact <lemma>` and Print Assumptions live here.
   H   : the node hash (SHA3-256 of children and value), any function;
   D64 : the 64-bit digest of (address, node hash, source) that a writer signs, any function. *)
From Coq Require Import List NArith Bool.
From V Require Import lib.Strs gen.Consts model.MerkleReg model.Register
  proofs.MerkleRegSorted proofs.MerkleReg proofs.MerkleRegThms proofs.RegisterOrd proofs.Register.
Import ListNotations.
Open Scope N_scope.

Theorem constants_pinned : Consts.max_reg_entry_size = 1024 /\ Consts.max_reg_num_entries = 1024.
Proof. exact constants_ok. Qed.

(* ---------------------------------------------------------------- the Merkle-DAG CRDT *)

(* any two deliveries of the same nodes -- any order, any duplication -- leave the same MerkleReg:
   same dag, same orphans, same roots *)
Theorem crdt_order_independent : forall (H : node -> N) l1 l2,
  inj_on H l1 -> (forall n, In n l1 <-> In n l2) -> mr_deliver H l1 = mr_deliver H l2.
Proof. exact order_independent. Qed.

(* the dag is the least fixed point: the delivered nodes whose whole ancestry was delivered;
   the orphans are the other delivered nodes *)
Theorem crdt_dag_is_lfp : forall (H : node -> N) l, inj_on H l ->
  (forall k, ehas k (dag (mr_deliver H l)) = true <-> present H l k) /\
  (forall n, In (H n, n) (orphans (mr_deliver H l)) <-> In n l /\ ~ present H l (H n)).
Proof. intros H l Hi. split; [apply dag_is_lfp | apply orphans_are_the_rest]; exact Hi. Qed.

(* roots = dag nodes that are no dag node's child; read() lists exactly the roots *)
Theorem crdt_roots_are_heads : forall (H : node -> N) l, inj_on H l ->
  (forall k, In k (roots (mr_deliver H l)) <->
     (present H l k /\ forall n, In n l -> present H l (H n) -> ~ In k (children n))) /\
  map fst (mr_read (mr_deliver H l)) = roots (mr_deliver H l).
Proof. intros H l Hi. split; [apply roots_are_heads; exact Hi | apply read_is_roots]. Qed.

Theorem crdt_read_order_independent : forall (H : node -> N) l1 l2,
  inj_on H l1 -> (forall n, In n l1 <-> In n l2) ->
  mr_read (mr_deliver H l1) = mr_read (mr_deliver H l2).
Proof. intros H l1 l2 Hi Hs. rewrite (order_independent H l1 l2 Hi Hs). reflexivity. Qed.

(* merging two replicas = having received both deliveries *)
Theorem crdt_merge_is_union : forall (H : node -> N) la lb, inj_on H (la ++ lb) ->
  mr_merge H (mr_deliver H la) (mr_deliver H lb) = mr_deliver H (la ++ lb).
Proof. exact merge_is_union. Qed.

(* collision-freedom of the hash is necessary: with colliding hashes the first delivery wins *)
Theorem crdt_order_needs_collision_freedom : exists (H : node -> N) l1 l2,
  (forall n, In n l1 <-> In n l2) /\ mr_deliver H l1 <> mr_deliver H l2.
Proof. exact order_needs_inj. Qed.

(* ---------------------------------------------------------------- merging SignedRegisters *)
Theorem merge_comm : forall a b, wf a -> wf b -> same_base a b ->
  ops (snd (merge a b)) = ops (snd (merge b a)).
Proof. exact merge_comm_lemma. Qed.

Theorem merge_assoc : forall a b c, wf a -> wf b -> wf c -> same_base a b -> same_base b c ->
  ops (snd (merge (snd (merge a b)) c)) = ops (snd (merge a (snd (merge b c)))).
Proof. exact merge_assoc_lemma. Qed.

Theorem merge_idem : forall a, wf a -> merge a a = (Ok, a).
Proof. exact merge_idem_lemma. Qed.

(* a different base register (address or permissions) is refused and nothing changes *)
Theorem merge_different_base : forall H D64 a b, ~ same_base a b ->
  merge a b = (Err EDifferentBase, a) /\ verified_merge H D64 a b = (Err EDifferentBase, a).
Proof. exact merge_diff. Qed.

Theorem verified_merge_is_merge : forall H D64 a b,
  (same_base a b -> verify H D64 b = Ok -> verified_merge H D64 a b = merge a b) /\
  (fst (verified_merge H D64 a b) <> Ok -> snd (verified_merge H D64 a b) = a).
Proof. exact verified_merge_lemma. Qed.

(* ---------------------------------------------------------------- which operations enter *)
Theorem op_accept_iff : forall H D64 r o,
  fst (add_op H D64 r o) = Ok <->
  authorised H D64 (base r) o /\ esize o <= MAX_ENTRY_SIZE /\ len (ops r) < MAX_ENTRIES.
Proof. exact accept_iff. Qed.

Theorem add_op_effect : forall H D64 r o, wf r ->
  (fst (add_op H D64 r o) = Ok ->
     base (snd (add_op H D64 r o)) = base r /\ bsig (snd (add_op H D64 r o)) = bsig r /\
     wf (snd (add_op H D64 r o)) /\
     forall x, In x (ops (snd (add_op H D64 r o))) <-> x = o \/ In x (ops r)) /\
  (fst (add_op H D64 r o) <> Ok -> snd (add_op H D64 r o) = r).
Proof. exact add_op_effect_lemma. Qed.

Theorem unauthorised_rejected : forall H D64 r o ws,
  rperms (base r) = Writers ws -> ~ In (osource o) ws -> fst (add_op H D64 r o) <> Ok.
Proof. exact unauthorised_lemma. Qed.

(* anything but the source's own signature over this operation's digest is refused; in particular a
   genuine signature carried over to another address, node or source *)
Theorem forged_rejected : forall H D64 r ws,
  rperms (base r) = Writers ws ->
  (forall o, osig o <> Sig (osource o) (MOp (D64 (oaddr o) (H (onode o)) (osource o))) ->
             fst (add_op H D64 r o) <> Ok) /\
  (forall a n s o', osig o' = osig (op_new H D64 a n s) ->
     (osource o' <> s \/ D64 (oaddr o') (H (onode o')) (osource o') <> D64 a (H n) s) ->
     fst (add_op H D64 r o') <> Ok).
Proof.
  intros H D64 r ws Hp. split.
  - intros o. apply (forged_lemma H D64 r o ws Hp).
  - intros a n s o'. apply (tampered_lemma H D64 r ws a n s o' Hp).
Qed.

(* an operation against a different base register is refused by add_op and makes verify fail *)
Theorem foreign_address_rejected : forall H D64 r o, oaddr o <> raddr (base r) ->
  fst (add_op H D64 r o) <> Ok /\ forall order, In o order -> verify_in H D64 r order <> Ok.
Proof. exact foreign_lemma. Qed.

Theorem oversized_rejected : forall H D64 r o, MAX_ENTRY_SIZE < esize o -> fst (add_op H D64 r o) <> Ok.
Proof. exact oversized_lemma. Qed.

(* ---------------------------------------------------------------- replicas converge *)
(* below the entry limit a delivery leaves exactly the acceptable operations, whatever the order *)
Theorem deliver_is_union : forall H D64 l r, wf r ->
  len (ounion (ops r) (filter (op_ok H D64 (base r)) l)) <= MAX_ENTRIES ->
  deliver H D64 r l = with_ops r (ounion (ops r) (filter (op_ok H D64 (base r)) l)).
Proof. exact deliver_union_lemma. Qed.

Theorem replicas_converge : forall H D64 r l1 l2, wf r -> (forall o, In o l1 <-> In o l2) ->
  len (ounion (ops r) (filter (op_ok H D64 (base r)) l1)) <= MAX_ENTRIES ->
  ops (deliver H D64 r l1) = ops (deliver H D64 r l2).
Proof. exact converge_lemma. Qed.

(* F7 (known finding `entry-limit`): past the limit the order decides which operations survive *)
Theorem replicas_converge_across_limit_refuted : forall H D64, exists r l1 l2,
  reachable H D64 r /\ (forall o, In o l1 <-> In o l2) /\
  ops (deliver H D64 r l1) <> ops (deliver H D64 r l2).
Proof. exact converge_limit_refuted. Qed.

(* ---------------------------------------------------------------- reachable states are valid *)
Theorem reachable_valid : forall H D64 r, reachable H D64 r -> len (ops r) < MAX_ENTRIES ->
  verify H D64 r = Ok /\
  forall order, (forall o, In o order -> In o (ops r)) -> verify_in H D64 r order = Ok.
Proof. exact reachable_valid_lemma. Qed.

(* F7 (known finding `entry-limit`): the MAX_ENTRIES-th add_op is accepted and the state no longer
   verifies; two verifying replicas merge into one that does not *)
Theorem reachable_valid_at_limit_refuted : forall H D64,
  (exists r, reachable H D64 r /\ len (ops r) = MAX_ENTRIES /\
             verify H D64 r = Err (ETooManyEntries MAX_ENTRIES)) /\
  (exists a b, reachable H D64 a /\ reachable H D64 b /\ verify H D64 a = Ok /\ verify H D64 b = Ok /\
               fst (merge a b) = Ok /\ verify H D64 (snd (merge a b)) <> Ok).
Proof. intros H D64. split; [apply limit_refuted | apply merge_limit_refuted]. Qed.

Theorem reachable_accepted_by_peers : forall H D64 r r',
  reachable H D64 r -> reachable H D64 r' -> same_base r' r -> len (ops r) < MAX_ENTRIES ->
  verified_merge H D64 r' r = (Ok, with_ops r' (ounion (ops r') (ops r))).
Proof. exact reachable_peers_lemma. Qed.

(* a register that verifies is rebuilt by the client without error, and what the client reads
   depends only on the set of operations (crdt_order_independent) *)
Theorem verified_register_applies : forall H D64 r order, verify_in H D64 r order = Ok ->
  client_build H r order = (Ok, mkcrdt (raddr (base r)) (mr_deliver H (map onode order))).
Proof. exact verified_applies_lemma. Qed.

(* ---------------------------------------------------------------- any number of replicas *)
(* merging any collection of same-base replicas, in any order and with repetitions, gives the
   union of their operations *)
Theorem merge_all_order_independent : forall r0 l1 l2, wf r0 -> (forall r, In r l1 -> same_base r0 r) ->
  (forall r, In r l1 <-> In r l2) -> ops (merge_all r0 l1) = ops (merge_all r0 l2).
Proof. exact merge_all_order_lemma. Qed.

Theorem merge_all_is_union : forall l r0, wf r0 -> (forall r, In r l -> same_base r0 r) ->
  base (merge_all r0 l) = base r0 /\ wf (merge_all r0 l) /\
  forall x, In x (ops (merge_all r0 l)) <-> In x (ops r0) \/ exists r, In r l /\ In x (ops r).
Proof. exact merge_all_spec. Qed.

(* identical (verified) operation sets present identical current values *)
Theorem replicas_present_same_values : forall H D64 r1 r2 order1 order2,
  verify_in H D64 r1 order1 = Ok -> verify_in H D64 r2 order2 = Ok -> base r1 = base r2 ->
  (forall o, In o order1 <-> In o order2) -> inj_on H (map onode order1) ->
  client_build H r1 order1 = client_build H r2 order2 /\ exists c, client_build H r1 order1 = (Ok, c).
Proof. exact same_values_lemma. Qed.

Theorem reachable_wf : forall H D64 r, reachable H D64 r -> wf r.
Proof. exact reachable_wf_lemma. Qed.
