(* C13 -- payment quotes are bound to their signer and to every signed field.
   Only pinned statements, `exact <lemma>` and Print Assumptions live here.
   K ranges over every key system (key decoding, peer-id derivation, peer-id parsing, symbolic
   reading of signature strings); `now` over every clock reading. *)
From Coq Require Import List NArith ZArith Bool.
From V Require Import lib.Strs lib.Serde lib.Msgpack lib.SymSig gen.Consts model.Quote proofs.Msgpack proofs.Quote.
Import ListNotations.
Open Scope N_scope.

Theorem quote_constants : Consts.quote_expiration_secs = 3600 /\ Consts.live_time_margin = 10.
Proof. exact quote_constants_ok. Qed.

(* the signed string determines content, whole-second timestamp, metrics and rewards address *)
Theorem signing_bytes_injective : forall q1 q2,
  wf_quote q1 = true -> wf_quote q2 = true ->
  bytes_for_signing q1 = bytes_for_signing q2 -> signed_fields q1 = signed_fields q2.
Proof. exact signing_bytes_injective_lemma. Qed.

Theorem hash_covers_signed_fields : forall q1 q2,
  wf_quote q1 = true -> wf_quote q2 = true -> hash_preimage q1 = hash_preimage q2 ->
  signed_fields q1 = signed_fields q2 /\ pub_key q1 ++ signature q1 = pub_key q2 ++ signature q2.
Proof. exact hash_preimage_covers. Qed.

Theorem check_signed_iff : forall K q p,
  check_signed K q p = true <->
  exists pk, decode_pk K (pub_key q) = Some pk /\ peer_of K pk = p /\
             interp K (signature q) = Sig pk (bytes_for_signing q).
Proof. exact check_signed_iff_lemma. Qed.

Theorem any_field_mutation_fails : forall K q q' p p',
  wf_quote q = true -> wf_quote q' = true ->
  check_signed K q p = true -> signature q' = signature q ->
  (signed_fields q' <> signed_fields q \/ decode_pk K (pub_key q') <> decode_pk K (pub_key q)) ->
  check_signed K q' p' = false.
Proof. exact any_field_mutation_fails_lemma. Qed.

Theorem claimed_identity_mutation_fails : forall K q p p',
  check_signed K q p = true -> p' <> p -> check_signed K q p' = false.
Proof. exact claimed_identity_mutation_fails_lemma. Qed.

Theorem signature_mutation_fails : forall K q q' p p',
  check_signed K q p = true -> pub_key q' = pub_key q -> signed_fields q' = signed_fields q ->
  interp K (signature q') <> interp K (signature q) -> check_signed K q' p' = false.
Proof. exact signature_mutation_fails_lemma. Qed.

(* F18: at the precision a quote carries, a timestamp change below one second goes unnoticed ... *)
Theorem timestamp_mutation_refuted :
  exists K q q' p, wf_quote q = true /\ wf_quote q' = true /\ check_signed K q p = true /\
    signature q' = signature q /\ pub_key q' = pub_key q /\ content q' = content q /\
    qmetrics q' = qmetrics q /\ rewards_address q' = rewards_address q /\
    timestamp q' <> timestamp q /\
    check_signed K q' p = true /\ hash_preimage q' = hash_preimage q.
Proof. exact timestamp_mutation_refuted_lemma. Qed.

(* ... and every other timestamp change makes verification fail *)
Theorem timestamp_mutation_fails_outside_known_class : forall K q q' p p',
  wf_quote q = true -> wf_quote q' = true -> check_signed K q p = true ->
  signature q' = signature q -> timestamp q' <> timestamp q -> ~ KnownSubsecond q q' ->
  check_signed K q' p' = false.
Proof. exact timestamp_mutation_fails_outside_known. Qed.

Theorem verify_for_iff : forall K (p : proof) me,
  verify_for K p me = true <->
  In me (payees K p) /\
  forall e q, In (e, q) p -> exists pe, parse_peer K e = Some pe /\ check_signed K q pe = true.
Proof. exact verify_for_iff_lemma. Qed.

Theorem payees_are_parsed_ids : forall K (p : proof) pe,
  In pe (payees K p) <-> exists e q, In (e, q) p /\ parse_peer K e = Some pe.
Proof. exact payees_in. Qed.

(* not expired  <=>  0 <= now - timestamp < 3601 s *)
Theorem expired_iff : forall now q,
  has_expired now q = false <->
  timestamp q <= now /\ now - timestamp q < (Consts.quote_expiration_secs + 1) * NS.
Proof. exact expired_iff_lemma. Qed.

Theorem expired_true_iff : forall now q,
  has_expired now q = true <->
  now < timestamp q \/ Consts.quote_expiration_secs < secs (now - timestamp q).
Proof. exact expired_true_iff_lemma. Qed.

Theorem historical_flags_regression : forall now1 now2 a b,
  timestamp a < timestamp b ->
  live_time (qmetrics b) < live_time (qmetrics a) \/
  received_payment_count (qmetrics b) < received_payment_count (qmetrics a) ->
  historical_verify now1 now2 a b = false /\ historical_verify now1 now2 b a = false.
Proof. exact historical_flags_regression_lemma. Qed.

Theorem historical_verify_iff : forall now1 now2 a b,
  timestamp a <= timestamp b ->
  (historical_verify now1 now2 a b = true <->
   live_time (qmetrics a) <= live_time (qmetrics b) /\
   received_payment_count (qmetrics a) <= received_payment_count (qmetrics b) /\
   (now1 < timestamp a \/ now2 < timestamp b \/
    live_time (qmetrics b) - live_time (qmetrics a) <=
      secs (now1 - timestamp a) - secs (now2 - timestamp b) + Consts.live_time_margin)).
Proof. exact historical_verify_iff_lemma. Qed.

(* ---- the stateful check, SwarmDriver::verify_peer_quote: for every delivery sequence (any peers,
        any order of timestamps, any clock readings) ---- *)

(* the reference kept for a peer is one of that peer's accepted (= delivered and not flagged)
   quotes, is the newest of them, and reports at least as much uptime and as many payments as
   every one of them *)
Theorem history_invariant : forall ds p,
  let h := fst (run_deliveries [] ds) in
  (forall ref, h_lookup p h = Some ref -> In ref (accepted [] ds p)) /\
  (forall a, In a (accepted [] ds p) -> exists ref, h_lookup p h = Some ref /\ dominates ref a).
Proof. exact history_invariant_lemma. Qed.

(* hence a quote at least as new as everything accepted so far from that peer, reporting less
   than a strictly earlier accepted quote, is flagged *)
Theorem regression_flagged : forall ds now p q a,
  In a (accepted [] ds p) -> timestamp a < timestamp q -> reports_less q a ->
  (forall a', In a' (accepted [] ds p) -> timestamp a' <= timestamp q) ->
  snd (verify_peer_quote now (fst (run_deliveries [] ds)) p q) = true.
Proof. exact regression_flagged_lemma. Qed.

(* the unrestricted reading is refuted: a regressing quote that is older than the peer's newest
   accepted quote is compared with that one only (known class regression-older-than-newest) *)
Theorem regression_between_refuted :
  exists ds now p q a,
    In a (accepted [] ds p) /\ timestamp a < timestamp q /\ reports_less q a /\
    snd (verify_peer_quote now (fst (run_deliveries [] ds)) p q) = false.
Proof. exact regression_between_refuted_lemma. Qed.

(* ---- the node's quoting duty, ant-node/src/quote.rs ---- *)
Theorem quote_gap_constant : Consts.quote_time_gap_secs = 10.
Proof. exact quote_gap_constant_ok. Qed.

Theorem storecost_ok_iff : forall K now self_key q addr,
  verify_quote_for_storecost K now self_key q addr = SOk <->
  addr = content q /\ has_expired now q = false /\
  interp K (signature q) = Sig self_key (bytes_for_signing q).
Proof. exact storecost_ok_iff_lemma. Qed.

(* whatever quotes_verification hands to the swarm driver verifies for the peer it is attributed to *)
Theorem forwarded_quotes_verify : forall K now self_peer self_key quotes out,
  quotes_verification K now self_peer self_key quotes = Some out ->
  (exists sq, In (self_peer, sq) quotes /\ has_expired now sq = false /\
              interp K (signature sq) = Sig self_key (bytes_for_signing sq) /\
              forall p q, In (p, q) out ->
                In (p, q) quotes /\ check_signed K q p = true /\ p <> self_peer /\
                content q = content sq /\ around_same_time q sq = true).
Proof. exact forwarded_quotes_verify_lemma. Qed.

Theorem forged_quote_not_forwarded : forall K now self_peer self_key quotes out p q q0,
  quotes_verification K now self_peer self_key quotes = Some out ->
  wf_quote q = true -> wf_quote q0 = true -> check_signed K q0 p = true ->
  signature q = signature q0 -> signed_fields q <> signed_fields q0 -> ~ In (p, q) out.
Proof. exact forged_quote_not_forwarded_lemma. Qed.

(* ---- bad_nodes and the QuoteVerification arm of handle_local_cmd ---- *)
Theorem issue_constants :
  Consts.issue_retention_secs = 300 /\ Consts.issue_list_cap = 10 /\
  Consts.issue_rate_limit_secs = 10 /\ Consts.issue_strikes = 3.
Proof. exact issue_constants_ok. Qed.

(* only peers already considered bad are skipped; issues on record alone never exempt a peer *)
Theorem skip_only_if_bad : forall now st p q,
  snd (handle_quote now st p q) = None <-> peer_is_bad (d_bad st) p = true.
Proof. exact skip_only_if_bad_lemma. Qed.

Theorem not_bad_regression_flagged : forall now st p q ref,
  peer_is_bad (d_bad st) p = false -> h_lookup p (d_hist st) = Some ref ->
  timestamp ref <= timestamp q -> reports_less q ref ->
  snd (handle_quote now st p q) = Some true.
Proof. exact not_bad_regression_flagged_lemma. Qed.

Theorem bad_needs_three_strikes : forall clk bn p k,
  peer_is_bad bn p = false -> peer_is_bad (record_node_issue clk bn p k) p = true ->
  exists iv, bn_lookup p (record_node_issue clk bn p k) = Some (iv, true) /\ three_strikes iv = true.
Proof. exact bad_needs_three_strikes_lemma. Qed.

(* ---- timestamps at and before the epoch ---- *)
Theorem pre_epoch_never_accepted : forall K q (tz : Z) p, (tz < 0)%Z -> check_signed_z K q tz p <> Some true.
Proof. exact pre_epoch_never_accepted_lemma. Qed.

Theorem check_signed_z_nonneg : forall K q (tz : Z) p,
  (0 <= tz)%Z -> check_signed_z K q tz p = Some (check_signed K (with_timestamp q (Z.to_N tz)) p).
Proof. exact check_signed_z_nonneg_lemma. Qed.

Theorem signing_z_injective : forall q1 q2 (tz1 tz2 : Z) m,
  wf_quote (with_timestamp q1 (Z.to_N tz1)) = true -> wf_quote (with_timestamp q2 (Z.to_N tz2)) = true ->
  bytes_for_signing_z q1 tz1 = Some m -> bytes_for_signing_z q2 tz2 = Some m ->
  (0 <= tz1)%Z /\ (0 <= tz2)%Z /\ secs (Z.to_N tz1) = secs (Z.to_N tz2).
Proof. exact signing_z_injective_lemma. Qed.
