(* C01 -- validated records read back byte-exact from a node's store.
   Only pinned statements, `exact <lemma>` and Print Assumptions live here. *)
From Coq Require Import List NArith String Bool.
From V Require Import lib.Strs gen.Consts model.RecordStore proofs.RecordStore proofs.RecordStoreSettled proofs.RecordStoreCap.
Import ListNotations.
Open Scope N_scope.

(* First sentence: whatever the history (puts, overwrites, removes, any schedule of the background
   tasks, any delivery order of the notifications -- and even crashes with torn files, which is C02's
   safety half), get only returns a value that was handed in as a validated record for that key.
   The cipher is any function pair with the two AEAD laws; the build is the shipped one. *)
Theorem get_only_put_values : forall E, cipher_ok E -> e_encrypt E = Consts.rs_encrypt_records_shipped ->
  forall ops k v, get E (run E ops (init E)) k = Some v -> In v (hist ops k).
Proof. exact get_only_put_values_lemma. Qed.

(* Second sentence: once the background work has settled, the last accepted write of a key is
   readable exactly as written and listed; a removed key is not readable, and not listed unless the
   history is in the known class (removed while a write of it was unacknowledged, F13). *)
Theorem settled_reads_latest : forall E, dec_enc E -> forall ops k,
  existsb is_crash ops = false ->
  settled (run E ops (init E)) = true ->
  match last_from E (init E) ops k None with
  | Some (LPut v) => get E (run E ops (init E)) k = Some v /\ contains (run E ops (init E)) k = true
  | Some LRemoved => get E (run E ops (init E)) k = None
                     /\ (relist_risk E (init E) ops k = false -> contains (run E ops (init E)) k = false)
  | _ => True
  end.
Proof. exact settled_reads_latest_lemma. Qed.

(* The full statement (without the known-class premise) is false on the faithful model: F13. *)
Theorem late_notification_relists_refuted :
  exists E ops k, cipher_ok E /\ existsb is_crash ops = false /\
    settled (run E ops (init E)) = true /\
    last_from E (init E) ops k None = Some LRemoved /\
    contains (run E ops (init E)) k = true /\ get E (run E ops (init E)) k = None /\
    relist_risk E (init E) ops k = true.
Proof. exact late_notification_relists_refuted_lemma. Qed.

(* Since the repair of put_verified (a refused record is taken out of the read cache again): whatever
   the history, crashes included, a key for which get returns a value is in the index, or a write of it
   -- or the notification of that write's outcome -- is still pending. *)
Theorem served_is_held_or_in_flight : forall E ops k v,
  get E (run E ops (init E)) k = Some v ->
  contains (run E ops (init E)) k = true \/ in_flight (run E ops (init E)) k = true.
Proof. exact served_is_held_or_in_flight_lemma. Qed.

(* Store-initiated removal (cleanup_irrelevant_records): a held key beyond the responsible range, when
   clean-up applies, is afterwards in NO view -- record index, distance index, read cache -- its file delete
   is spawned, and the views still agree.  With settled_reads_latest (a clean-up removal is an LRemoved
   event) it follows that once settled such a key is neither readable nor listed. *)
Theorem cleanup_removes_from_all_views : forall E s r k, dist_inj E -> Views E s ->
  cleanup_applies s r -> r <= e_dist E k -> contains s k = true ->
  contains (cleanup E s) k = false /\
  (forall d, ~ In (d, k) (bydist (cleanup E s))) /\
  klookup k (cache (cleanup E s)) = None /\
  In (TDelete k) (tasks (cleanup E s)) /\
  Views E (cleanup E s).
Proof. exact cleanup_removes_from_all_views_lemma. Qed.

(* The verified path has no size gate (the unverified put() refuses values of max_value_bytes or more;
   put_verified never looks at the size, nor does the disk path of get): acceptance does not depend on
   the value, and an indexed record of any length whose file holds its bytes is read back. *)
Theorem put_verified_has_no_size_gate : forall E s k v v' t t',
  klookup k (cache s) <> Some v -> klookup k (cache s) <> Some v' ->
  fst (put_verified E s k v t) = fst (put_verified E s k v' t').
Proof. exact put_verified_has_no_size_gate_lemma. Qed.

Theorem disk_read_has_no_size_gate : forall E s k v, dec_enc E ->
  klookup k (cache s) = None -> contains s k = true ->
  flookup (fname k) (files s) = Some (file_bytes E k v) -> get E s k = Some v.
Proof. exact disk_read_has_no_size_gate_lemma. Qed.

(* file names determine keys: two keys never share a record file *)
Theorem names_injective : forall a b, fname a = fname b -> a = b.
Proof. exact fname_inj. Qed.

Theorem names_roundtrip : forall k, key_of_fname (fname k) = Some k.
Proof. exact key_of_fname_fname. Qed.

Theorem store_constants :
  Consts.rs_max_records_count = 16384 /\ Consts.rs_max_records_cache_size = 25 /\
  Consts.rs_cleanup_divisor = 10 /\ Consts.rs_header_size = 2 /\
  Consts.rs_kind_chunk = 1 /\ Consts.rs_kind_scratchpad = 5 /\ Consts.rs_kind_transaction = 2 /\
  Consts.rs_kind_register = 3 /\ Consts.rs_kind_count = 8 /\
  Consts.rs_encrypt_records_shipped = true /\ Consts.rs_encrypt_cfg_sites = 2.
Proof. exact store_constants_lemma. Qed.
