(* C08 -- replication fetcher: bounded, duplicate-free, in-range, progress.
   Only pinned statements, `exact <lemma>` and Print Assumptions live here.

   Vocabulary (model/Fetcher.v): `reachable s` = s is the last state of a history accepted by
   `run_ok init` -- any interleaving of adverts from any holders, notifications, range / fullness
   updates and clock advances, with any admissible hash-map iteration order in every scheduling
   loop; `step_ok pre o out post` = the acceptor evaluated by the correspondence run on every step
   the real code took.  Every theorem below is about all reachable states / all accepted steps. *)
From Coq Require Import List NArith Bool Arith Permutation.
From V Require Import gen.Consts model.Fetcher proofs.Fetcher proofs.FetcherDet proofs.FetcherSched
  proofs.FetcherProps proofs.FetcherProps2 proofs.FetcherLive proofs.FetcherExamples proofs.FetcherBridge
  proofs.FetcherChan proofs.FetcherArm.
Import ListNotations.
From Coq Require String.
Import String.StringSyntax.
Delimit Scope string_scope with string.
Open Scope N_scope.

(* the cap re-read from the source (K_VALUE) is positive *)
Theorem fetcher_constants_positive : (0 < MAXn)%nat.
Proof. exact MAXn_pos. Qed.

(* the transcription of add_keys / next_keys_to_fetch / notify_* run with ANY hash-map iteration
   order is admitted by the acceptor; hence an accepted step exists from every reachable state *)
Theorem code_refines_acceptor : forall iter s o,
  (forall l, Permutation (iter l) l) -> wf s = true ->
  step_ok s o (snd (step_code iter s o)) (fst (step_code iter s o)) = true.
Proof. exact code_refines_acceptor_lemma. Qed.

Theorem accepted_step_exists : forall s o, reachable s ->
  exists out post, step_ok s o out post = true /\ (post, out) = step_det s o.
Proof. exact accepted_step_exists_lemma. Qed.

Theorem reachable_wf : forall s, reachable s -> wf s = true.
Proof. exact reachable_wf_lemma. Qed.

(* never two fetches for one record version: in-flight keys are pairwise distinct, the returned
   (holder, key) pairs are exactly the fetches this step starts, and a started fetch was not among
   the in-flight entries the operation left in flight *)
Theorem no_duplicate_inflight : forall pre o out post,
  reachable pre -> step_ok pre o out post = true ->
  NoDup (map fst (ongoing post)) /\
  exists started : list og_entry,
    Permutation (ret out) (map og_pair started) /\
    NoDup (map fst started) /\
    (forall e, In e started -> In e (ongoing post) /\ ~ In (fst e) (map fst (surviving pre o))) /\
    (forall e, In e (ongoing post) -> In e started \/ In e (surviving pre o)).
Proof. exact no_duplicate_inflight_lemma. Qed.

(* batch scheduling never exceeds MAX_PARALLEL_FETCH (only the single-key fast path can) *)
Theorem batch_respects_cap : forall pre o out post,
  reachable pre -> step_ok pre o out post = true ->
  ((length (fast_of pre o) < length (ret out))%nat -> (length (ongoing post) <= MAXn)%nat) /\
  (length (ongoing post) <= Nat.max (length (ongoing (mid_of pre o))) MAXn)%nat.
Proof. exact batch_respects_cap_lemma. Qed.

Theorem cap_without_fast_path : forall tr,
  valid tr -> no_fast_path init tr -> (length (ongoing (last_state init tr)) <= MAXn)%nat.
Proof. exact cap_without_fast_path_lemma. Qed.

(* after an advert handled with store contents `held`: nothing queued or in flight is a held record
   version, and whatever this advert added is not held at all *)
Theorem only_unheld_scheduled : forall pre h inc held out post,
  reachable pre -> step_ok pre (AddKeys h inc held) out post = true ->
  (forall e, In e (ongoing post) -> held_get held (og_key e) <> Some (snd (fst e))) /\
  (forall x, In x (tbf post) -> held_get held (kth_key (fst x)) <> Some (snd (kth_kt (fst x)))) /\
  (forall x, In x (tbf post) -> ~ queued pre (fst x) -> is_held held (kth_key (fst x)) = false) /\
  (forall e, In e (ongoing post) -> ~ In e (ongoing pre) -> ~ queued pre (og_kth e) ->
     is_held held (og_key e) = false).
Proof. exact only_unheld_lemma. Qed.

Theorem put_clears_queue : forall pre k t out post,
  reachable pre -> step_ok pre (NotifyPut k t) out post = true ->
  forall x, In x (tbf post) -> kth_kt (fst x) <> (k, t).
Proof. exact put_clears_queue_lemma. Qed.

(* once the node is full nothing farther than the farthest acceptable distance is queued, in
   flight or returned, and that distance only shrinks *)
Theorem full_node_bound : forall pre o out post f,
  reachable pre -> step_ok pre o out post = true -> farthest post = Some f ->
  (forall x, In x (tbf post) -> kdist (kth_key (fst x)) <= f) /\
  (forall e, In e (ongoing post) -> kdist (og_key e) <= f) /\
  (forall p, In p (ret out) -> kdist (snd p) <= f) /\
  (forall f0, farthest pre = Some f0 -> f <= f0).
Proof. exact full_node_bound_lemma. Qed.

(* closest first: the batch is ordered by distance, no queued record that is left waiting is
   closer than a scheduled one, and with capacity left nothing is left waiting *)
Theorem closest_first : forall pre o out post,
  reachable pre -> step_ok pre o out post = true ->
  let mid := mid_of pre o in
  let batch := skipn (length (fast_of pre o)) (ret out) in
  (forall l1 a l2 b l3, map (fun p => kdist (snd p)) batch = l1 ++ a :: l2 ++ b :: l3 -> a <= b) /\
  (forall x, In x (tbf mid) -> ~ inflight post (kth_kt (fst x)) ->
     forall p, In p batch -> kdist (snd p) <= kdist (kth_key (fst x))) /\
  (schedules o = true -> (length (ongoing post) < MAXn)%nat ->
     forall x, In x (tbf post) -> inflight post (kth_kt (fst x))).
Proof. exact closest_first_lemma. Qed.

(* a fetch stays in flight exactly until the record arrives, it is reported complete, the store
   already holds that version, it times out (at the next prune) or a fullness update drops it;
   if that record version is in flight afterwards, it is a fetch started (and returned) by this step *)
Theorem leaves_ongoing : forall pre o out post,
  reachable pre -> step_ok pre o out post = true ->
  forall e, In e (ongoing pre) ->
    (op_keeps pre o e = true -> In e (ongoing post)) /\
    (op_keeps pre o e = false ->
       forall e', In e' (ongoing post) -> fst e' = fst e ->
         In (og_pair e') (ret out) /\ og_deadline e' = now post + FETCH_T).
Proof. exact leaves_ongoing_lemma. Qed.

Theorem leaves_when : forall s o e,
  op_keeps s o e = false <->
  (exists k t, o = NotifyPut k t /\ og_key e = k) \/
  (exists k t, o = NotifyEarly k t /\ fst e = (k, t)) \/
  (exists h inc held, o = AddKeys h inc held /\ held_get held (og_key e) = Some (snd (fst e))) \/
  (schedules o = true /\ expired s e) \/
  far_drops s o e = true.
Proof. exact leaves_when_lemma. Qed.

(* a timed-out holder is reported in the single FailedToFetchHolders event of that step and all
   its queued entries are dropped; nobody else is reported *)
Theorem timed_out_holder_reported_and_dropped : forall pre o out post,
  reachable pre -> step_ok pre o out post = true -> schedules o = true ->
  (forall e, In e (ongoing pre) -> op_completes o e = false -> expired pre e ->
     (exists ev, events out = [ev] /\ In (og_holder e) ev) /\
     (forall x, In x (tbf post) -> kth_holder (fst x) <> og_holder e)) /\
  (forall ev p, In ev (events out) -> In p ev ->
     exists e, In e (ongoing pre) /\ op_completes o e = false /\ expired pre e /\ og_holder e = p) /\
  (length (events out) <= 1)%nat.
Proof. exact timed_out_lemma. Qed.

(* records taken from a multi-record advertisement lie within the responsible distance --
   outside the known fast-path class (F15); the unrestricted statement is refuted *)
Theorem multi_key_in_range : forall pre h inc held out post r,
  reachable pre -> step_ok pre (AddKeys h inc held) out post = true ->
  range pre = Some r -> (2 <= length inc)%nat -> ~ KnownFastPathMulti pre h inc held ->
  (forall x, In x (tbf post) -> ~ queued pre (fst x) -> kdist (kth_key (fst x)) <= r) /\
  (forall e, In e (ongoing post) -> ~ In e (ongoing pre) -> ~ queued pre (og_kth e) -> kdist (og_key e) <= r).
Proof. exact multi_key_in_range_lemma. Qed.

Theorem multi_key_in_range_refuted :
  exists pre h inc held out post r e,
    reachable pre /\ step_ok pre (AddKeys h inc held) out post = true /\
    range pre = Some r /\ (2 <= length inc)%nat /\
    In e (ongoing post) /\ ~ In e (ongoing pre) /\ ~ queued pre (og_kth e) /\ r < kdist (og_key e) /\
    KnownFastPathMulti pre h inc held.
Proof. exact multi_key_in_range_refuted_lemma. Qed.

(* progress.  U = a finite universe of record versions, one per key; `rounds h x init tr` = the
   adverts of holder h containing x in history tr.  Fairness premises (model/Fetcher.v): at every
   such round x is still unheld, in range and not beyond the fullness limit, no fetch has timed out,
   the queued entry for (x, h) has not passed PENDING_TIMEOUT, the store holds only universe
   versions; between rounds stored records stay stored and every fetch in flight after a round is
   stored by the next one.  Everything else (other holders' adverts, notifications, range and
   fullness updates, clock advances, scheduling order) is arbitrary.
   As long as x is not in flight after a round, that round leaves MAX_PARALLEL_FETCH other unheld
   records in flight, so the number of such rounds is bounded by the number of unheld records: *)
Theorem liveness_bound : forall U h x tr,
  valid tr -> NoDup (map fst U) -> adverts_in U tr -> In x U ->
  let rs := rounds h x init tr in
  Forall (fair_round U h x) rs -> fair_chain rs ->
  (forall r, In r rs -> ~ inflight (r_post r) x) ->
  match rs with
  | [] => True
  | r1 :: _ => (MAXn * length rs + 1 <= unheld_count U (r_held r1))%nat
  end.
Proof. exact liveness_bound_lemma. Qed.

(* hence after ceil(unheld / MAX_PARALLEL_FETCH) fair rounds x has been scheduled *)
Theorem liveness : forall U h x tr,
  valid tr -> NoDup (map fst U) -> adverts_in U tr -> In x U ->
  let rs := rounds h x init tr in
  Forall (fair_round U h x) rs -> fair_chain rs ->
  forall r1 rest, rs = r1 :: rest ->
  (unheld_count U (r_held r1) <= MAXn * length rs)%nat ->
  exists r, In r rs /\ inflight (r_post r) x.
Proof. exact liveness_lemma. Qed.

(* bridge to C09 (model/Replication.v abstracts add_keys on an idle fetcher).  For the transcription run
   with ANY hash-map iteration order, on a state with an empty queue, no range / fullness limit and no
   timed-out fetch, an advert without duplicate entries, and
   |in-flight entries not dropped as now-held| + |fetch_set| <= MAX_PARALLEL_FETCH, where
   fetch_set = advertised entries whose KEY is not held and whose (key, type) is not in flight:
   exactly fetch_set is returned (from the advertising holder) and put in flight, on the fast path
   (one unheld advertised entry) and on the queue path alike; limits and clock unchanged; no event.
   The queue afterwards is `lingering`: on the queue path the advertised unheld entries that were
   ALREADY in flight stay queued for this holder -- it is empty only if there are none
   (add_keys_idle_clean) or the fast path was taken. *)
Theorem add_keys_within_cap_fetches_exactly_unheld : forall iter s h inc held,
  (forall l, Permutation (iter l) l) ->
  tbf s = [] -> range s = None -> farthest s = None ->
  NoDup inc -> (forall e, In e (ongoing s) -> ~ expired s e) ->
  (length (kept s held) + length (fetch_set s held inc) <= MAXn)%nat ->
  let post := fst (step_code iter s (AddKeys h inc held)) in
  let out := snd (step_code iter s (AddKeys h inc held)) in
  Permutation (ret out) (map (fun x => (h, fst x)) (fetch_set s held inc)) /\
  events out = [] /\
  Permutation (ongoing post)
              (kept s held ++ map (fun x => (x, (h, now s + FETCH_T))) (fetch_set s held inc)) /\
  tbf post = lingering s h held inc /\
  range post = None /\ farthest post = None /\ now post = now s.
Proof. exact add_keys_idle_lemma. Qed.

Theorem add_keys_idle_clean : forall iter s h inc held,
  (forall l, Permutation (iter l) l) ->
  tbf s = [] -> range s = None -> farthest s = None ->
  NoDup inc -> (forall e, In e (ongoing s) -> ~ expired s e) ->
  (forall x, In x (unheld_inc held inc) -> og_mem x (ongoing s) = false) ->
  (length (ongoing s) + length (unheld_inc held inc) <= MAXn)%nat ->
  let post := fst (step_code iter s (AddKeys h inc held)) in
  let out := snd (step_code iter s (AddKeys h inc held)) in
  Permutation (ret out) (map (fun x => (h, fst x)) (unheld_inc held inc)) /\
  events out = [] /\
  Permutation (ongoing post)
              (kept s held ++ map (fun x => (x, (h, now s + FETCH_T))) (unheld_inc held inc)) /\
  tbf post = [] /\ range post = None /\ farthest post = None /\ now post = now s.
Proof. exact add_keys_idle_clean_lemma. Qed.

(* ---- "a timed-out holder being reported", end to end.  `send_event` hands the event to a spawned
   task that awaits `Sender::send`: the NetworkEvent channel is a bounded queue plus the senders waiting
   for capacity.  Whatever its capacity (> 0) and occupancy, once the consumer drains it everything that
   was in it and everything emitted since is delivered, each exactly once, in order ... *)
Theorem chan_delivers_all : forall c evs, ch_wf c ->
  ch_drain (length (ch_contents c) + length evs) (fold_left ch_send evs c) = ch_contents c ++ evs.
Proof. exact chan_delivers_all_lemma. Qed.

(* ... whereas a non-blocking try_send drops the report when the queue is full *)
Theorem try_send_loses_report :
  exists c e, ch_wf c /\
    ch_drain (length (ch_contents c) + 1) (ch_try_send c e) = ch_contents c /\ ~ In e (ch_contents c).
Proof. exact try_send_loses_report_lemma. Qed.

(* so every timed-out holder is reported by the step that prunes it and the report reaches the consumer *)
Theorem timed_out_report_delivered : forall tr1 o out post tr2 c e,
  valid (tr1 ++ (o, out, post) :: tr2) -> ch_wf c -> schedules o = true ->
  In e (ongoing (last_state init tr1)) -> op_completes o e = false -> expired (last_state init tr1) e ->
  let tr := tr1 ++ (o, out, post) :: tr2 in
  let delivered := ch_drain (length (ch_contents c) + length (emitted tr)) (fold_left ch_send (emitted tr) c) in
  delivered = ch_contents c ++ emitted tr /\
  exists ev, events out = [ev] /\ In (og_holder e) ev /\ In ev delivered.
Proof. exact timed_out_report_delivered_lemma. Qed.

(* what the correspondence run checks on histories whose events are delivered late *)
Theorem agree_deferred_sound : forall tr delivered,
  agree_deferred tr delivered = true ->
  valid (reemit init tr) /\ events_eqb (emitted (reemit init tr)) delivered = true.
Proof. exact agree_deferred_sound_lemma. Qed.

(* ---- "once the node is full nothing farther than its farthest held record is fetched", at the
   driver glue: the PutLocalRecord arm of handle_local_cmd = [set_farthest_on_full on MaxRecords];
   notify_about_new_put; [set_replication_distance_range].  In this order nothing the arm emits, keeps
   in flight or keeps queued is farther than the store's farthest record; in the other order it is. *)
Theorem put_arm_order : forall pre kf k t rng out post,
  reachable pre ->
  run_ok pre (arm_steps pre (PutMaxRecords (Some kf)) k t rng out post) = true ->
  (forall p, In p (ret out) -> kdist (snd p) <= kdist kf) /\
  (forall e, In e (ongoing post) -> kdist (og_key e) <= kdist kf) /\
  (forall x, In x (tbf post) -> kdist (kth_key (fst x)) <= kdist kf).
Proof. exact put_arm_order_lemma. Qed.

Theorem put_arm_wrong_order_refuted :
  exists pre fk k t out mid post p,
    reachable pre /\ run_ok pre (arm_steps_wrong pre (Some fk) k t out mid post) = true /\
    In p (ret out) /\ kdist fk < kdist (snd p) /\ ~ In (snd p) (map og_key (ongoing post)).
Proof. exact put_arm_wrong_order_refuted_lemma. Qed.

(* histories with arm items (what the driver-level correspondence evaluates) are valid histories *)
Theorem run_items_sound : forall its s,
  run_items s its = true ->
  run_ok s (expand s its) = true /\
  last_state s (expand s its) = fold_left (fun _ it => item_post it) its s.
Proof. exact run_items_sound_lemma. Qed.

(* ---- which fetcher method the arms of handle_local_cmd call (re-read from cmd.rs on every run) ---- *)
Theorem fetch_completed_arm_is_early : forall k t, fetch_completed_arm k t = Some (NotifyEarly k t).
Proof. exact fetch_completed_arm_is_early_lemma. Qed.

Theorem put_arm_calls_in_order : forall fk k t r,
  put_arm_calls = map op_method (arm_ops (PutMaxRecords fk) k t (Some r)).
Proof. exact put_arm_calls_lemma. Qed.

(* an early completion of (k, t) ends exactly the fetch of that record version: every other unexpired
   in-flight fetch -- in particular another version of the same key -- keeps running *)
Theorem early_completion_exact : forall pre k t out post,
  reachable pre -> step_ok pre (NotifyEarly k t) out post = true ->
  (forall e, In e (ongoing pre) -> fst e <> (k, t) -> ~ expired pre e -> In e (ongoing post)) /\
  (forall e, In e (ongoing pre) -> fst e = (k, t) ->
     forall e', In e' (ongoing post) -> fst e' = fst e -> In (og_pair e') (ret out)).
Proof. exact early_completion_exact_lemma. Qed.

(* calling the arrival notification there instead drops the other version's running fetch *)
Theorem put_notification_drops_other_version :
  exists pre k t t' e out post,
    reachable pre /\ t <> t' /\ In e (ongoing pre) /\ fst e = (k, t') /\ ~ expired pre e /\
    arm_method_op "notify_about_new_put"%string k t = Some (NotifyPut k t) /\
    step_ok pre (NotifyPut k t) out post = true /\ ~ In e (ongoing post).
Proof. exact put_notification_drops_other_version_lemma. Qed.
