(* C10 -- store capacity, distance-based eviction and quoting metrics are exact.
   Only pinned statements, `exact <lemma>` and Print Assumptions live here. *)
From Coq Require Import List NArith String Bool.
From V Require Import lib.Strs gen.Consts model.RecordStore proofs.RecordStore proofs.RecordStoreCap proofs.RecordStoreSettled.
Import ListNotations.
Open Scope N_scope.

(* In every reachable state (any history, schedule, crash) the distance index is exactly the image
   of the record index, without duplicates, and farthest_record is a held key of maximal distance
   (None iff nothing is held).  Premise: distinct keys have distinct distances. *)
Theorem views_agree : forall E, dist_inj E -> forall ops,
  let s := run E ops (init E) in
  NoDup (map fst (idx s)) /\ NoDup (map fst (bydist s)) /\
  (forall d k, In (d, k) (bydist s) <-> (held (idx s) k /\ d = e_dist E k)) /\
  match farthest s with
  | None => idx s = []
  | Some (f, fd) => held (idx s) f /\ fd = e_dist E f /\ forall k, held (idx s) k -> e_dist E k <= fd
  end.
Proof. intros E Inj ops. destruct (views_agree_lemma E Inj ops) as [a b c d]. auto. Qed.

(* At capacity, a record not yet held (and not the cached-same-value shortcut) is accepted iff it is
   not farther than the farthest held record; then exactly that record leaves the index and a write
   is spawned; otherwise it is refused and index, distance index, farthest, tasks and files are
   unchanged. *)
Theorem accept_at_capacity_iff : forall E s k v t,
  Views E s -> e_max_records E <= len (idx s) -> contains s k = false ->
  klookup k (cache s) <> Some v ->
  match farthest s with
  | Some (f, fd) =>
      held (idx s) f /\ fd = e_dist E f /\ (forall k0, held (idx s) k0 -> e_dist E k0 <= fd) /\
      (fst (put_verified E s k v t) = PStored <-> e_dist E k <= fd) /\
      (fst (put_verified E s k v t) = PRefused <-> fd < e_dist E k) /\
      (fst (put_verified E s k v t) = PStored ->
         idx (snd (put_verified E s k v t)) = kremove f (idx s) /\
         In (TWrite k v t) (tasks (snd (put_verified E s k v t)))) /\
      (fst (put_verified E s k v t) = PRefused ->
         idx (snd (put_verified E s k v t)) = idx s /\ bydist (snd (put_verified E s k v t)) = bydist s /\
         farthest (snd (put_verified E s k v t)) = farthest s /\
         tasks (snd (put_verified E s k v t)) = tasks s /\ files (snd (put_verified E s k v t)) = files s)
  | None => idx s = [] /\ fst (put_verified E s k v t) = PStored /\ idx (snd (put_verified E s k v t)) = []
  end.
Proof. exact accept_at_capacity_lemma. Qed.

(* a refused record is neither kept in the read cache nor served (repaired: it used to be both, and an
   identical second put then returned Ok without storing anything) *)
Theorem refused_not_served : forall E s k v t, contains s k = false ->
  fst (put_verified E s k v t) = PRefused ->
  klookup k (cache (snd (put_verified E s k v t))) = None /\ get E (snd (put_verified E s k v t)) k = None.
Proof. exact refused_not_served_lemma. Qed.

Theorem reachable_views : forall E, dist_inj E -> forall ops, Views E (run E ops (init E)).
Proof. exact views_agree_lemma. Qed.

(* clean-up removes exactly the records at distance >= range, and only when it applies *)
Theorem cleanup_only_out_of_range : forall E s, Views E s -> forall k,
  contains (cleanup E s) k = true <->
  contains s k = true /\ ~ (exists r, cleanup_applies s r /\ r <= e_dist E k).
Proof. exact cleanup_only_out_of_range_lemma. Qed.

Theorem cleanup_only_when_large : forall E s,
  len (idx s) < cleanup_threshold \/ range s = None -> cleanup E s = s.
Proof. exact cleanup_only_when_large_lemma. Qed.

Theorem cleanup_threshold_is_global_tenth : cleanup_threshold = 1638.
Proof. exact cleanup_threshold_value. Qed.

(* the quoted figures *)
Theorem quote_figures_exact : forall E s k, Views E s ->
  snd (step E s (OQuote k)) =
    UQuote (match range s with
            | Some r => len (filter (fun p => e_dist E (fst p) <? r) (idx s))
            | None => len (idx s)
            end) (e_max_records E) (payments s) (contains s k).
Proof. exact quote_figures_exact_lemma. Qed.

(* payments received survive any number of clean restarts, the start time stamp is the first one *)
Theorem payments_exact : forall E ops, clean_restarts E (init E) ops = true ->
  payments (run E ops (init E)) = N.min (count_pay ops) Consts.rs_usize_max /\ started (run E ops (init E)) = 0.
Proof. exact payments_exact_lemma. Qed.

(* records held + writes in flight <= capacity + deepest burst of unacknowledged writes at a put *)
Theorem capacity_bound : forall E, dist_inj E -> 1 <= e_max_records E -> forall ops,
  existsb is_crash ops = false ->
  len (idx (run E ops (init E))) + inflight (run E ops (init E))
    <= e_max_records E + burst_depth E (init E) ops.
Proof. exact capacity_bound_lemma. Qed.

(* F14: the property's own bound (capacity + writes still in flight) is false after a burst *)
Theorem capacity_bound_refuted :
  exists E ops, (forall a b, e_dist E a = e_dist E b -> slen a = slen b) /\ e_max_records E = 2 /\
    existsb is_crash ops = false /\
    settled (run E ops (init E)) = true /\ inflight (run E ops (init E)) = 0 /\
    len (idx (run E ops (init E))) = 5 /\ burst_depth E (init E) ops = 3.
Proof. exact capacity_bound_refuted_lemma. Qed.
