(* C04 -- every accepted record's key is derived from its own content or owner.
   Only pinned statements and `exact <lemma>`. [deliver e d] is the client-put / unpaid-update path
   (validate_and_store_record) or the replication path (store_replicated_in_record) of
   model/PutValidation.v; [rs_put_step] is RecordStore::put of model/PutStore.v, the third path. *)
From Coq Require Import List NArith ZArith Bool.
From V Require Import lib.Strs gen.Consts model.PutValidation model.PutStore
                      proofs.PutValidation proofs.PutOutcome proofs.PutC04.
Import ListNotations.
Open Scope N_scope.

(* the unpaid-register branch compares the record's own key (F8 repair present in the source) *)
Theorem source_constants_c04 : Consts.pv_unpaid_register_checks_record_key = true.
Proof. exact source_constants_c04_lemma. Qed.

(* whatever a delivery writes (either node path, any prior content whose keys are derived) is
   written under the key its content determines: a chunk under the hash of its bytes, a
   scratchpad / transaction set under its owner's name, a register under owner + meta *)
Theorem stored_key_is_derived : forall e st d k v,
  store_wf st -> In (EPut k v) (effects_of (run st (deliver e d))) -> key_ok k v = true.
Proof. exact stored_key_is_derived_lemma. Qed.

(* ... and that key is the key the record was presented under *)
Theorem stored_under_record_key : forall e st d k v,
  In (EPut k v) (effects_of (run st (deliver e d))) -> u_key (d_up d) = k.
Proof. exact stored_under_record_key_lemma. Qed.

(* hence after any history of deliveries from an empty store every held record is under its derived key *)
Theorem history_keys_derived : forall e ds k s,
  lookup (serial_run e [] ds) k = Some s -> key_ok k (s_val s) = true.
Proof. exact history_keys_derived_lemma. Qed.

(* a record presented under a key that none of its content determines is rejected: error result,
   store unchanged, no command of any kind emitted (no write, no payment taken) *)
Theorem mismatch_rejected : forall e st d,
  ~ In (u_key (d_up d)) (body_keys (u_body (d_up d))) ->
  exists x, run st (deliver e d) = (Err x, st, []).
Proof. exact mismatch_rejected_lemma. Qed.

(* RecordStore::put never changes the index, the readable records or the files *)
Theorem unverified_never_readable : forall max s k r, snd (fst (rs_put_step max s k r)) = s.
Proof. exact unverified_never_readable_lemma. Qed.

Theorem oversized_refused : forall max s k r,
  max <= in_len r -> rs_put_step max s k r = (PRTooLarge, s, []).
Proof. exact oversized_refused_lemma. Qed.

Theorem unparsable_refused : forall max s k r, in_hdr r = None -> snd (rs_put_step max s k r) = [].
Proof. exact unparsable_refused_lemma. Qed.

Theorem put_forwards_only : forall max s k r,
  snd (rs_put_step max s k r) = [] \/
  (snd (rs_put_step max s k r) = [k] /\ in_len r < max /\ in_hdr r <> None).
Proof. exact put_forwards_only_lemma. Qed.
