(* C07 -- mutable records never regress and hold only owner-signed content.
   Only pinned statements and `exact <lemma>`.  [serial_run e st ds] processes the deliveries [ds]
   (paid uploads, unpaid updates, replicated copies, in any mix) one after the other from store [st];
   [pad_offer] / [tx_offer] / [reg_offer] are what one delivery validly offers for a key (defined in
   proofs/PutC07.v: owner-signed, for that key, through an eligible delivery); [sched_run] interleaves
   overlapping deliveries. *)
From Coq Require Import List NArith ZArith Bool.
From V Require Import lib.Strs gen.Consts model.PutValidation
                      proofs.PutValidation proofs.PutOutcome proofs.PutC04 proofs.PutC07.
Import ListNotations.
Open Scope N_scope.

(* --- scratchpads --- *)

(* one delivery: the stored pad becomes "strictly higher counter wins" of the stored one and the offer *)
Theorem scratchpad_step : forall e st d k,
  all_listed st ->
  (get st k = None \/ exists p, get st k = Some (SPad p)) ->
  pad_at (serial_step e st d) k = pad_best (pad_at st k) (pad_offer e st d k).
Proof. exact scratchpad_step_lemma. Qed.

(* an update is applied only if its counter is strictly higher than the stored one *)
Theorem scratchpad_strict : forall e st d k p p',
  all_listed st -> pad_at st k = Some p -> pad_at (serial_step e st d) k = Some p' ->
  p' = p \/ (p_ctr p < p_ctr p' /\ pad_offer e st d k = Some p').
Proof. exact scratchpad_strict_lemma. Qed.

(* any sequence of deliveries: the counter never decreases, and the stored version is the highest
   validly signed version offered (it is the initial one or one of the offers, and no offer beats it) *)
Theorem scratchpad_monotone : forall e ds st k p,
  all_listed st -> pad_at st k = Some p ->
  exists p', pad_at (serial_run e st ds) k = Some p' /\ p_ctr p <= p_ctr p' /\
    (forall n, In (Some n) (pad_offers e st ds k) -> p_ctr n <= p_ctr p') /\
    (p' = p \/ In (Some p') (pad_offers e st ds k)).
Proof. exact scratchpad_monotone_lemma. Qed.

(* a stored scratchpad always carries a valid owner signature and sits under its owner's name *)
Theorem scratchpad_always_valid : forall e ds k p,
  pad_at (serial_run e [] ds) k = Some p -> pad_valid p = true /\ k = owner_key (p_owner p).
Proof. exact scratchpad_always_valid_lemma. Qed.

(* --- transactions --- *)

Theorem tx_step_union : forall e st d k t,
  all_listed st ->
  (get st k = None \/ exists l, get st k = Some (STxs l)) ->
  (In t (txs_at (serial_step e st d) k) <-> In t (txs_at st k) \/ In t (tx_offer e st d k)).
Proof. exact tx_step_union_lemma. Qed.

(* the stored set only grows: it is what was stored plus every validly signed transaction offered *)
Theorem tx_is_union : forall e ds st k l t,
  all_listed st -> get st k = Some (STxs l) ->
  (In t (txs_at (serial_run e st ds) k) <-> In t l \/ In t (tx_offers e st ds k)).
Proof. exact tx_is_union_lemma. Qed.

(* independent of delivery order and duplication (replicated copies: the offer is store-independent) *)
Theorem tx_order_independent : forall e ds1 ds2 st k l t,
  all_listed st -> get st k = Some (STxs l) -> repl_only ds1 -> repl_only ds2 ->
  (forall d, In d ds1 <-> In d ds2) ->
  (In t (txs_at (serial_run e st ds1) k) <-> In t (txs_at (serial_run e st ds2) k)).
Proof. exact tx_order_independent_lemma. Qed.

(* entries with invalid signatures or belonging to another owner are never stored *)
Theorem txs_always_valid : forall e ds k l t,
  get (serial_run e [] ds) k = Some (STxs l) -> In t l -> tx_valid t = true /\ owner_key (t_owner t) = k.
Proof. exact txs_always_valid_lemma. Qed.

(* --- registers --- *)

Theorem register_step_union : forall e st d k o,
  all_listed st ->
  (get st k = None \/ exists r, get st k = Some (SReg r)) ->
  (In o (reg_ops_at (serial_step e st d) k) <-> In o (reg_ops_at st k) \/ In o (reg_offer e st d k)).
Proof. exact register_step_union_lemma. Qed.

Theorem register_is_union : forall e ds st k r o,
  all_listed st -> get st k = Some (SReg r) ->
  (exists r', get (serial_run e st ds) k = Some (SReg r') /\ g_base r' = g_base r) /\
  (In o (reg_ops_at (serial_run e st ds) k) <-> In o (g_ops r) \/ In o (reg_offers e st ds k)).
Proof. exact register_is_union_lemma. Qed.

(* --- updates to one key processed concurrently: refuted (F12, known class) --- *)

Theorem concurrent_lost_update_refuted :
  exists e st ds toks k,
    all_listed st /\ pad_at st k = Some (f12_pad 5) /\
    pad_offer e st (f12_delivery 7) k = Some (f12_pad 7) /\
    pad_offer e st (f12_delivery 6) k = Some (f12_pad 6) /\
    pad_at (fst (fold_left sched_step (firstn 5 toks) (st, map (dinit e) ds))) k = Some (f12_pad 7) /\
    pad_at (fst (sched_run e st ds toks)) k = Some (f12_pad 6) /\
    pad_at (serial_run e st ds) k = Some (f12_pad 7) /\
    pad_at (serial_run e st (rev ds)) k = Some (f12_pad 7).
Proof. exact concurrent_lost_update_refuted_lemma. Qed.

Theorem concurrent_lost_transaction_refuted :
  txs_at (fst (sched_run f12_env f12_tx_store [f12_tx_delivery 2; f12_tx_delivery 3] f12_schedule)) (owner_key 1)
    = [f12_tx 3; f12_tx 1] /\
  txs_at (serial_run f12_env f12_tx_store [f12_tx_delivery 2; f12_tx_delivery 3]) (owner_key 1)
    = [f12_tx 3; f12_tx 2; f12_tx 1].
Proof. exact concurrent_lost_transaction_refuted_lemma. Qed.

(* --- the put -> ack window: a register delivered again before its first write is acknowledged
       (serial deliveries; known class register-overwritten-before-ack, same root cause as F12) --- *)
Theorem register_overwritten_before_ack_refuted :
  reg_ops_at (fst (sched_run f12_env [] [win_delivery 2; win_delivery 3] (win_block 0 ++ win_block 1))) (reg_key 1 1)
    = [win_op 3] /\
  reg_ops_at (fst (sched_run f12_env [] [win_delivery 2; win_delivery 3] (win_block 0 ++ [TAck] ++ win_block 1))) (reg_key 1 1)
    = [win_op 2; win_op 3] /\
  reg_ops_at (serial_run f12_env [] [win_delivery 2; win_delivery 3]) (reg_key 1 1) = [win_op 2; win_op 3] /\
  (let '(st, ds) := fold_left sched_step (win_block 0) ([], map (dinit f12_env) [win_delivery 2; win_delivery 3]) in
   match ds with d0 :: _ => ds_phase d0 = DDone /\ ds_outbox d0 = [] /\ get st (reg_key 1 1) = Some (SReg (win_reg [win_op 2]))
                            /\ listed st (reg_key 1 1) = false
            | [] => False end).
Proof. exact register_overwritten_before_ack_refuted_lemma. Qed.


(* --- what the owner's signature covers (Transaction::bytes_to_sign, coverage re-read from the source) --- *)

Theorem tx_signed_bytes_injective : forall o ps c outs o' ps' c' outs',
  tx_msg o ps c outs = tx_msg o' ps' c' outs' -> o = o' /\ ps = ps' /\ c = c' /\ outs = outs'.
Proof. exact tx_signed_bytes_injective_lemma. Qed.

(* altering any field of a signed transaction -- owner, a parent, the content, an output's key or an output's
   content -- makes verification fail: two verifying transactions with the same signature are equal *)
Theorem tampered_tx_invalid : forall t t',
  tx_valid t = true -> tx_valid t' = true -> t_sig t' = t_sig t -> t' = t.
Proof. exact tampered_tx_invalid_lemma. Qed.
