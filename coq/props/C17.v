(* C17 -- parsers of untrusted text and bytes never crash; formatter output parses back.
   Only pinned statements, `exact <lemma>` and Print Assumptions live here.

   `outcome` has the three results Ok / Err / Panic; the model's primitives return Panic exactly
   where the Rust operation panics (slice indexing, expect, debug-build overflow).  Third-party
   decoders are universally quantified function arguments (total oracles). *)
From Coq Require Import List NArith String Ascii Bool.
From V Require Import lib.Strs lib.Dec gen.Consts model.Amount proofs.Amount model.Parsers proofs.Parsers
     model.BootCache proofs.BootCache.
Import ListNotations.
Open Scope N_scope.

(* ---- hex addresses *)
Theorem no_panic_reg_from_hex : forall pk_ok s, reg_from_hex pk_ok s <> Panic.
Proof. exact no_panic_reg_from_hex_lemma. Qed.

Theorem reg_from_hex_accepts_iff : forall pk_ok s a,
  reg_from_hex pk_ok s = Ok a <->
  exists bytes, unhex s = Some bytes /\ len bytes = 80 /\
                a = {| ra_meta := firstn 32 bytes; ra_owner := skipn 32 bytes |} /\
                pk_ok (skipn 32 bytes) = true.
Proof. exact reg_from_hex_spec. Qed.

Theorem reg_format_parse_roundtrip : forall pk_ok a,
  wf_reg_addr pk_ok a -> reg_from_hex pk_ok (reg_to_hex a) = Ok a.
Proof. exact reg_roundtrip_lemma. Qed.

Theorem no_panic_scratch_from_hex : forall pk_ok s, scratch_from_hex pk_ok s <> Panic.
Proof. exact no_panic_pk_from_hex_lemma. Qed.

Theorem scratch_format_parse_roundtrip : forall pk_ok owner,
  len owner = PK_SIZE -> wf_bytes owner = true -> pk_ok owner = true ->
  scratch_from_hex pk_ok (scratch_to_hex owner) = Ok owner.
Proof. exact scratch_roundtrip_lemma. Qed.

Theorem no_panic_str_to_addr : forall s, str_to_addr s <> Panic.
Proof. exact no_panic_str_to_addr_lemma. Qed.

Theorem addr_format_parse_roundtrip : forall x,
  len x = XOR_NAME_LEN -> wf_bytes x = true -> str_to_addr (addr_to_str x) = Ok x.
Proof. exact addr_roundtrip_lemma. Qed.

Theorem no_panic_datamap_from_hex : forall s, datamap_from_hex s <> Panic.
Proof. exact no_panic_datamap_lemma. Qed.

Theorem datamap_format_parse_roundtrip : forall d,
  wf_bytes d = true -> datamap_from_hex (datamap_to_hex d) = Ok d.
Proof. exact datamap_roundtrip_lemma. Qed.

(* ---- encrypted wallet keys (for every AEAD behaviour `open_`, every SALT/NONCE length in the source) *)
Theorem no_panic_decrypt_private_key : forall open_ data, decrypt open_ data <> Panic.
Proof. exact no_panic_decrypt_lemma. Qed.

Theorem decrypt_encrypt_roundtrip : forall seal open_ salt nonce key,
  len salt = SALT -> len nonce = NONCE ->
  wf_bytes salt = true -> wf_bytes nonce = true -> wf_bytes (seal salt nonce key) = true ->
  open_ salt nonce (seal salt nonce key) = Some key -> utf8_valid key = true ->
  decrypt open_ (encrypt seal salt nonce key) = Ok key.
Proof. exact decrypt_encrypt_roundtrip_lemma. Qed.

(* ---- ports *)
Theorem no_panic_port_parse : forall s, port_parse s <> Panic.
Proof. exact no_panic_port_parse_lemma. Qed.

Theorem no_panic_port_validate : forall r count, ports_u16 r -> port_validate r count <> Panic.
Proof. exact no_panic_port_validate_lemma. Qed.

Theorem no_panic_port_parse_validate : forall s count,
  bind (port_parse s) (fun r => port_validate r count) <> Panic.
Proof. exact no_panic_port_parse_validate_lemma. Qed.

Theorem port_format_parse_roundtrip : forall r,
  wf_port_range r = true -> port_parse (port_format r) = Ok r.
Proof. exact port_format_parse_roundtrip_lemma. Qed.

Theorem port_validate_accepts_iff : forall r count, wf_port_range r = true ->
  (port_validate r count = Ok tt <->
   count = match r with Single _ => 1 | Range a b => b - a + 1 end).
Proof. exact port_validate_spec. Qed.

(* the consumers of a parsed PortRange *)
Theorem no_panic_check_port_availability : forall r nodes, check_port_availability r nodes <> Panic.
Proof. exact no_panic_check_port_availability_lemma. Qed.

Theorem check_port_availability_refuses_iff : forall r nodes,
  check_port_availability r nodes = Err 1 <->
  exists p, In p (all_ports nodes) /\ match r with Single q => p = q | Range a b => a <= p <= b end.
Proof. exact check_port_availability_spec. Qed.

Theorem port_availability_exclusive_refuted :
  check_port_availability_exclusive Debug (Range 65530 65535) [(None, None, 65531)] = Panic /\
  check_port_availability_exclusive Release (Range 65530 65535) [(None, None, 65531)] = Ok tt /\
  check_port_availability (Range 65530 65535) [(None, None, 65531)] = Err 1.
Proof. exact port_availability_exclusive_refuted_lemma. Qed.

Theorem no_panic_increment_port : forall p, increment_port p <> Panic.
Proof. exact no_panic_increment_port_lemma. Qed.

(* ---- amounts (model/Amount.v, C16), multiaddresses, files, record bytes *)
Theorem no_panic_amount_from_str : forall s, amount_from_str s <> Panic.
Proof. exact no_panic_amount_lemma. Qed.

(* formatter -> parser for token amounts over the whole domain (C16's lemma, model/Amount.v read-only) *)
Theorem amount_format_parse_roundtrip : forall a, a < U256 -> amount_from_str (display a) = Ok a.
Proof. intros a H. unfold amount_from_str. rewrite (roundtrip_lemma a H). reflexivity. Qed.

Theorem no_panic_craft_from_str : forall parse s ignore_peer_id,
  craft_from_str parse s ignore_peer_id <> Panic.
Proof. exact no_panic_craft_from_str_lemma. Qed.

Theorem no_panic_load_cache : forall dec cfg now file, load_cache dec cfg now file <> Panic.
Proof. exact no_panic_load_cache_lemma. Qed.

(* the expiry test inside the clean-up uses duration_since (no panicking branch); written with
   `last_seen + expiry` it would panic on a last_seen near the largest SystemTime a cache file can hold *)
Theorem no_panic_expiry_test : forall later earlier, st_duration_since later earlier <> Panic.
Proof. exact st_duration_since_no_panic. Qed.

Theorem expiry_by_addition_refuted :
  exists cfg now r, a_seen r <= ST_MAX /\ unexpired_by_addition cfg now r = Panic /\ unexpired cfg now r = false.
Proof. exact expiry_by_addition_refuted_lemma. Qed.

(* str slicing obeys the char-boundary rule: a prefix-stripping variant of str_to_addr panics on a
   66-byte input with a two-byte character across offset 2 (the code returns an error) *)
Theorem str_slice_prefix_refuted :
  slen straddle66 = 66 /\ str_to_addr_prefix_tolerant straddle66 = Panic /\ str_to_addr straddle66 = Err 1.
Proof. exact str_slice_prefix_refuted_lemma. Qed.

(* merging the file's entry into the in-memory entry of the same address: saturating u32 sums (restarted at
   the maximum), so no counter value -- 0, 1, u32::MAX-1, u32::MAX -- can overflow; with plain `+=` it would *)
Theorem sync_counters_bounded : forall self other,
  a_s self <= U32MAX -> a_f self <= U32MAX ->
  a_s (arec_sync self other) <= U32MAX /\ a_f (arec_sync self other) <= U32MAX.
Proof. exact arec_sync_bounded_lemma. Qed.

Theorem sync_wrapping_refuted :
  let file := mk 1 1 pA 4294967295 0 10 in let mem := mk 1 1 pA 1 0 20 in
  arec_sync_unchecked Debug mem file = Panic /\
  (exists r, arec_sync_unchecked Release mem file = Ok r /\ a_s r = 0) /\
  arec_sync mem file = mk 1 1 pA 1 0 20.
Proof. exact sync_wrapping_refuted_lemma. Qed.

(* the cache file's formatter: write() replaces the file with the in-memory cache -- also with an EMPTY one
   (`first` wipes a previous network's cache), so loading after a write returns what was written *)
Theorem cache_write_then_read : forall st fs, fs_get (store_write st fs) (st_cache_path st) = Some (st_mem st).
Proof. exact write_then_read_lemma. Qed.

Theorem cache_write_empty_wipes : forall cfg now st fs,
  st_mem st = [] -> st_cache_path st = st_cfg_path st -> store_load cfg now st (store_write st fs) = Some [].
Proof. exact write_empty_wipes_lemma. Qed.

Theorem write_skip_empty_refuted :
  exists st fs, st_mem st = [] /\
    fs_get (store_write_skip_empty st fs) (st_cache_path st) <> Some [] /\
    fs_get (store_write st fs) (st_cache_path st) = Some [].
Proof. exact write_skip_empty_refuted_lemma. Qed.

Theorem no_panic_registry_load : forall (A : Type) (parse : string -> option A) f,
  registry_load parse f <> Panic.
Proof. exact @no_panic_registry_load_lemma. Qed.

(* the registry file: NodeRegistry::save replaces the whole content, so after any history of saves on one
   path (growing, shrinking, over any previous content) load returns the registry saved last *)
Theorem registry_save_load_roundtrip : forall (A : Type) (fmt : A -> string) (parse : string -> option A) init earlier r,
  parse (fmt r) = Some r -> fmt r <> EmptyString ->
  registry_load parse (saves init (map fmt earlier ++ [fmt r])) = Ok (RParsed r).
Proof. exact @registry_save_load_lemma. Qed.

Theorem write_without_truncate_refuted :
  exists (parse : string -> option nat) old new_,
    parse old = Some 1%nat /\ parse new_ = Some 2%nat /\
    registry_load parse (file_write (Text old) new_) = Ok (RParsed 2%nat) /\
    registry_load parse (file_write_no_truncate (Text old) new_) = Err 2.
Proof. exact write_without_truncate_refuted_lemma. Qed.

Theorem no_panic_header_from_record : forall decode value, header_from_record decode value <> Panic.
Proof. exact no_panic_header_from_record_lemma. Qed.

Theorem no_panic_record_payload : forall value, record_payload value <> Panic.
Proof. exact no_panic_record_payload_lemma. Qed.

Theorem no_panic_try_deserialize_record : forall (A : Type) (decode : list N -> option A) value,
  try_deserialize_record decode value <> Panic.
Proof. exact @no_panic_try_deserialize_record_lemma. Qed.

Theorem try_deserialize_record_refuses_short : forall (A : Type) (decode : list N -> option A) value,
  len value <= HEADER_SIZE -> try_deserialize_record decode value = Err 2.
Proof. exact @try_deserialize_record_short. Qed.

Theorem payload_slice_first_refuted :
  (forall (decode : list N -> option unit), try_deserialize_record_slice_first decode [] = Panic) /\
  (forall (decode : list N -> option unit), try_deserialize_record_slice_first decode [145] = Panic) /\
  (forall (decode : list N -> option unit), try_deserialize_record decode [145] = Err 2).
Proof. exact payload_slice_first_refuted_lemma. Qed.

(* ---- what failed before the repairs (F3, F4, F5, F22): the transcriptions of the old code panic *)
Theorem reg_from_hex_unfixed_refuted : exists s, forall pk_ok, reg_from_hex_unfixed pk_ok s = Panic.
Proof. exact reg_from_hex_unfixed_refuted_lemma. Qed.

Theorem decrypt_unfixed_refuted :
  (exists data, forall open_, decrypt_unfixed open_ data = Panic) /\
  (exists data open_ salt nonce ct pt, open_ salt nonce ct = Some pt /\ decrypt_unfixed open_ data = Panic).
Proof. exact decrypt_unfixed_refuted_lemma. Qed.

Theorem port_validate_unfixed_refuted :
  port_parse "0-65535" = Ok (Range 0 65535) /\
  port_validate_unfixed Debug (Range 0 65535) 1 = Panic /\
  port_validate_unfixed Release (Range 0 65535) 0 = Ok tt.
Proof. exact port_validate_unfixed_refuted_lemma. Qed.

Theorem increment_port_unfixed_refuted :
  increment_port_unfixed Debug (Some 65535) = Panic /\
  increment_port_unfixed Release (Some 65535) = Ok (Some 0).
Proof. exact increment_port_unfixed_refuted_lemma. Qed.

Theorem load_cache_unfixed_refuted :
  exists dec cfg now file,
    load_cache_unfixed Debug dec cfg now file = Panic /\
    exists c, load_cache dec cfg now file = Ok c /\ bounded_b cfg c = true.
Proof. exact load_cache_unfixed_refuted_lemma. Qed.
