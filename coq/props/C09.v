(* C09 -- records held by a node replicate to in-range neighbours and replicas converge.
   Only pinned statements, `exact <lemma>` (or a two-line wrapper) live here.
   H : the content hash used in record-type tags, ANY function (no collision-freedom needed).
   D : the distance between a node and a key, ANY function. *)
From Coq Require Import List NArith Bool.
From Coq Require Import Permutation.
From V Require Import model.Replication proofs.Replication.
Require V.model.Fetcher V.proofs.FetcherBridge V.proofs.FetcherBridgeRepl.
Import ListNotations.
Open Scope N_scope.

(* a node advertises every record it holds, with the type tag of the held version, and nothing else *)
Theorem advertises_everything_held : forall H n,
  (forall k c, lookup k (held n) = Some c -> In (k, type_of H c) (advert H n)) /\
  (forall k t, In (k, t) (advert H n) -> exists c, In (k, c) (held n) /\ t = type_of H c).
Proof. intros H n. split; [apply advert_complete | apply advert_sound]. Qed.

(* interval replication sends exactly that list, under the node's own name, to every replication
   target -- and sends nothing when the store is empty *)
Theorem advert_reaches_every_candidate : forall H n m,
  In m (replicate_msgs H n) <->
  held n <> [] /\ exists t, In t (cands n) /\ m = Replicate (self n) t (self n) (advert H n).
Proof. exact replicate_msgs_spec. Qed.

(* ... and the replication targets are computed from the routing table and the STORE's responsible range:
   with at least CLOSE_GROUP_SIZE table peers within the range, exactly the table peers at distance <= range
   -- a peer exactly ON the range is a target --; otherwise the CLOSE_GROUP_SIZE nearest; every target gets
   the list (advert_reaches_every_candidate) *)
Theorem replication_targets_are_peers_within_range : forall n,
  (forall r p, store_range n = Some r -> (N.to_nat CGS <= within n r)%nat ->
     (In p (cands n) <-> exists d, In (p, d) (table n) /\ d <= r)) /\
  (forall r p, store_range n = Some r -> (N.to_nat CGS <= within n r)%nat -> In (p, r) (table n) -> In p (cands n)) /\
  ((store_range n = None \/ exists r, store_range n = Some r /\ (within n r < N.to_nat CGS)%nat) ->
     cands n = map fst (firstn (N.to_nat CGS) (sort_by_dist (table n)))) /\
  CGS = 5.
Proof.
  intros n. split; [intros r p; apply cands_in_range|]. split.
  - intros r p Hr Hc Hin. apply (cands_in_range n r p Hr Hc). exists r. split; [exact Hin|apply N.le_refl].
  - split; [apply cands_fallback|exact repl_close_group_size_pinned].
Qed.

(* a list from a holder that is not among the K closest peers, or that names this node itself, is
   ignored: no state change, no fetch *)
Theorem acts_only_on_close_holders : forall D n h keys,
  mem h (closest n) = false \/ h = self n -> on_replicate D n h keys = (n, []).
Proof. exact far_holder_ignored. Qed.

(* ... where "the K closest" is the node itself plus the K_VALUE - 1 nearest routing-table peers, for every
   table (any size, distinct peers at distinct distances): a table peer at distance d is acted on exactly
   when fewer than K_VALUE - 1 table peers are strictly nearer (so the (K_VALUE-1)-th nearest is the last
   one accepted and the K_VALUE-th nearest the first one ignored); a holder outside the table never is *)
Theorem acts_only_on_k_closest : forall n h,
  (forall d, NoDup (map fst (table n)) -> NoDup (map snd (table n)) -> In (h, d) (table n) -> h <> self n ->
     (accepts_holder n h = true <-> (nearer n d < N.to_nat KVAL - 1)%nat)) /\
  (accepts_holder n h = true -> In h (map fst (table n)) /\ h <> self n) /\
  (forall D keys, accepts_holder n h = false -> on_replicate D n h keys = (n, [])) /\
  KVAL = 20.
Proof.
  intros n h. split; [intros d; apply accepts_holder_rank|]. split; [apply accepts_holder_in_table|].
  split; [|exact repl_k_value_pinned]. intros D keys Ha. unfold on_replicate. rewrite Ha. reflexivity.
Qed.

(* handling a list changes no stored record, and asks the holder only for advertised keys the node
   does not hold and is not already fetching *)
Theorem fetches_only_unheld : forall D n h keys n' out,
  on_replicate D n h keys = (n', out) ->
  held n' = held n /\ self n' = self n /\ table n' = table n /\ cands n' = cands n /\
  store_range n' = store_range n /\ fetch_range n' = fetch_range n /\
  forall m, In m out -> exists x, m = Fetch (self n) h (fst x) /\ In x keys /\
                                  lookup (fst x) (held n) = None /\ kt_mem x (inflight n) = false.
Proof. exact on_replicate_spec. Qed.

(* a chunk held by a is, after one exchange, held by the in-range neighbour b under the same key with
   the same content; nothing b held is touched *)
Theorem immutable_replicates_identically : forall H D a b k c,
  NoDup (map fst (held a)) -> accepts_holder b (self a) = true -> inflight b = [] ->
  lookup k (held a) = Some (CChunk c) -> lookup k (held b) = None -> in_range D b k = true ->
  lookup k (held (sync_from H D a b)) = Some (CChunk c) /\
  forall k' c', lookup k' (held b) = Some c' -> lookup k' (held (sync_from H D a b)) = Some c'.
Proof.
  intros H D a b k c Hnd Hacc Hif Ha Hb Hr. split.
  - apply sync_gets_missing; auto.
  - intros k' c'. apply sync_keeps_held.
Qed.

(* what a node holds after being handed a fetched record: the validation's merge at that key,
   every other key untouched *)
Theorem fetched_record_is_holders_or_merge : forall n k c,
  held (accept n k c) =
    match merge_in (lookup k (held n)) c with Some c' => update k c' (held n) | None => held n end /\
  forall k', k' <> k -> lookup k' (held (accept n k c)) = lookup k' (held n).
Proof. intros n k c. split; [apply accept_held | intros k'; apply accept_other]. Qed.

(* when both directions of a divergent register / transaction set ARE fetched, both sides end with
   the union *)
Theorem mutable_converges_if_fetched : forall na nb k,
  (forall b o1 o2, lookup k (held na) = Some (CReg b o1) -> lookup k (held nb) = Some (CReg b o2) ->
     exists x y, lookup k (held (accept na k (CReg b o2))) = Some (CReg b x) /\
                 lookup k (held (accept nb k (CReg b o1))) = Some (CReg b y) /\
                 forall e, mem e x = mem e y /\ (mem e x = true <-> mem e o1 = true \/ mem e o2 = true)) /\
  (forall t1 t2, lookup k (held na) = Some (CTxs t1) -> lookup k (held nb) = Some (CTxs t2) ->
     exists x y, lookup k (held (accept na k (CTxs t2))) = Some (CTxs x) /\
                 lookup k (held (accept nb k (CTxs t1))) = Some (CTxs y) /\
                 forall e, mem e x = mem e y /\ (mem e x = true <-> mem e t1 = true \/ mem e t2 = true)).
Proof.
  intros na nb k. split.
  - intros b o1 o2 Ha Hb.
    destruct (reg_merge_union na k b o1 o2 Ha) as [x [Ex Hx]].
    destruct (reg_merge_union nb k b o2 o1 Hb) as [y [Ey Hy]].
    exists x, y. split; [exact Ex|]. split; [exact Ey|]. intros e. split; [|apply Hx].
    destruct (mem e x) eqn:A, (mem e y) eqn:B; try reflexivity.
    + apply Hx in A. assert (mem e y = true) by (apply Hy; tauto). congruence.
    + apply Hy in B. assert (mem e x = true) by (apply Hx; tauto). congruence.
  - intros t1 t2 Ha Hb.
    destruct (txs_merge_union na k t1 t2 Ha) as [x [Ex Hx]].
    destruct (txs_merge_union nb k t2 t1 Hb) as [y [Ey Hy]].
    exists x, y. split; [exact Ex|]. split; [exact Ey|]. intros e. split; [|apply Hx].
    destruct (mem e x) eqn:A, (mem e y) eqn:B; try reflexivity.
    + apply Hx in A. assert (mem e y = true) by (apply Hy; tauto). congruence.
    + apply Hy in B. assert (mem e x = true) by (apply Hx; tauto). congruence.
Qed.

(* ... and the scratchpad with the higher counter: it replaces the lower one, and is not replaced by it;
   an invalidly signed pad never replaces anything *)
Theorem scratchpad_highest_counter_wins : forall na nb k o c1 d1 c2 d2,
  lookup k (held na) = Some (CPad o c1 d1 true) -> lookup k (held nb) = Some (CPad o c2 d2 true) ->
  c1 < c2 ->
  lookup k (held (accept na k (CPad o c2 d2 true))) = Some (CPad o c2 d2 true) /\
  accept nb k (CPad o c1 d1 true) = nb /\
  forall c d, accept na k (CPad o c d false) = na.
Proof.
  intros na nb k o c1 d1 c2 d2 Ha Hb Hlt. split; [apply (pad_higher_wins na k o c1 d1); assumption|].
  split; [apply (pad_lower_ignored nb k o c2 d2 true); [exact Hb|apply N.lt_le_incl; exact Hlt]|].
  intros c d. apply pad_invalid_ignored.
Qed.

(* one exchange brings b every valid record of a that b lacks (any kind) and that is within b's fetch
   range, leaves what b held, adds nothing a does not hold, and -- unless the list carries exactly one new
   key (the fast path of C08's F15) -- adds nothing beyond b's fetch range *)
Theorem sync_replicates_missing : forall H D a b,
  NoDup (map fst (held a)) -> accepts_holder b (self a) = true -> inflight b = [] ->
  (forall k c, lookup k (held a) = Some c -> content_valid c = true -> lookup k (held b) = None ->
     in_range D b k = true -> lookup k (held (sync_from H D a b)) = Some c) /\
  (forall k c, lookup k (held b) = Some c -> lookup k (held (sync_from H D a b)) = Some c) /\
  (forall k, lookup k (held a) = None -> lookup k (held b) = None ->
     lookup k (held (sync_from H D a b)) = None) /\
  (forall k, lookup k (held b) = None -> in_range D b k = false ->
     length (unheld b (advert H a)) <> 1%nat -> lookup k (held (sync_from H D a b)) = None).
Proof.
  intros H D a b Hnd Hacc Hif. split; [|split; [|split]].
  - intros k c Ha Hv Hb Hr. apply sync_gets_missing; auto.
  - intros k c. apply sync_keeps_held.
  - intros k. apply sync_absent.
  - intros k. apply sync_out_of_range_absent.
Qed.

(* periodic replication converges -- outside the known class (F16): two neighbours that hold no key
   in different versions hold, after one round, the same content under every key: all of a's
   records, and b's for the keys a lacked *)
Theorem periodic_replication_converges_outside_known : forall H D a b,
  NoDup (map fst (held a)) -> NoDup (map fst (held b)) ->
  accepts_holder b (self a) = true -> accepts_holder a (self b) = true ->
  inflight a = [] -> inflight b = [] -> all_valid a -> all_valid b ->
  covers D b a -> covers D a b ->
  ~ KnownOtherVersion a b ->
  forall k, lookup k (held (fst (round H D (a, b)))) = lookup k (held (snd (round H D (a, b)))) /\
            lookup k (held (snd (round H D (a, b)))) =
              match lookup k (held a) with Some c => Some c | None => lookup k (held b) end.
Proof. exact round_converges. Qed.

(* the unrestricted statement is refuted (F16): two neighbours holding different operation sets of
   one register satisfy every other premise (each is within the other's range: no range is set), and no
   number of rounds changes either store *)
Theorem periodic_replication_converges_refuted : forall H D,
  exists a b,
    (NoDup (map fst (held a)) /\ NoDup (map fst (held b)) /\
     accepts_holder b (self a) = true /\ accepts_holder a (self b) = true /\
     inflight a = [] /\ inflight b = [] /\ all_valid a /\ all_valid b /\
     covers D b a /\ covers D a b) /\
    KnownOtherVersion a b /\
    (forall n, Nat.iter n (round H D) (a, b) = (a, b)) /\
    lookup 1 (held a) <> lookup 1 (held b).
Proof.
  intros H D. exists f16_a, f16_b. split; [exact (f16_premises D)|]. split; [exact f16_is_known|].
  split; [exact (f16_never_converges H D)|]. cbn. discriminate.
Qed.

(* ---- the responsible range ----
   (i) wherever a record is put (LocalSwarmCmd::PutLocalRecord) the fetcher's range becomes exactly the
   store's current range, whatever it was before -- an assignment: a larger range REPLACES a smaller one;
   without a put the fetcher keeps its range (the lag), and handling a list never changes either *)
Theorem range_sync_is_assignment : forall n k c r,
  (store_range n = Some r -> puts (lookup k (held n)) c = true ->
     fetch_range (accept n k c) = Some r /\ store_range (accept n k c) = Some r) /\
  (puts (lookup k (held n)) c = false -> accept n k c = n) /\
  (forall r', fetch_range (set_store_range n r') = fetch_range n) /\
  (forall D h keys, fetch_range (fst (on_replicate D n h keys)) = fetch_range n /\
                    store_range (fst (on_replicate D n h keys)) = store_range n).
Proof.
  intros n k c r. split; [apply accept_syncs|]. split; [apply accept_no_put|].
  split; [reflexivity|]. intros D h keys. apply on_replicate_ranges.
Qed.

(* ... at the level of histories: after ANY sequence of range settings at node p followed by a stored
   record, the fetcher of p works with the LAST value set *)
Theorem range_history_last_wins : forall H D s p n rs r k c,
  get_node p (nodes s) = Some n -> puts (lookup k (held n)) c = true ->
  exists n', get_node p (nodes (run H D s (map (OSetRange p) (rs ++ [r]) ++ [OSeed p k c true]))) = Some n' /\
             fetch_range n' = Some r /\ store_range n' = Some r.
Proof. exact range_history_last_wins_lemma. Qed.

(* (ii) every advertised entry from an accepted holder whose key is not held and lies within the fetcher's
   range is in flight once the list has been handled (inside the parallel-fetch envelope the model works
   in): it already was, or a fetch for it goes out to the advertising holder *)
Theorem in_range_advert_is_fetched : forall D n h keys k t,
  accepts_holder n h = true -> In (k, t) keys -> lookup k (held n) = None -> in_range D n k = true ->
  kt_mem (k, t) (inflight (fst (on_replicate D n h keys))) = true /\
  (kt_mem (k, t) (inflight n) = true \/ In (Fetch (self n) h k) (snd (on_replicate D n h keys))).
Proof. exact in_range_is_fetched. Qed.

(* the irrelevant-record clean-up removes stored records only: it leaves the fetcher (range, in-flight set)
   alone, so afterwards every advertised unheld key within the fetch range is still taken up -- however far
   it is from the records that remain *)
Theorem cleanup_does_not_narrow_fetching : forall D n h keys k t,
  (fetch_range (cleanup D n) = fetch_range n /\ store_range (cleanup D n) = store_range n /\
   inflight (cleanup D n) = inflight n) /\
  (accepts_holder n h = true -> In (k, t) keys -> lookup k (held n) = None -> in_range D n k = true ->
   kt_mem (k, t) (inflight (fst (on_replicate D (cleanup D n) h keys))) = true).
Proof.
  intros D n h keys k t. split; [|apply after_cleanup_in_range_is_fetched].
  destruct (cleanup_keeps_fetcher D n) as (A & B & C & _). auto.
Qed.

(* (iii) from a list that does not have exactly one new key, nothing beyond the fetcher's range is fetched
   or put in flight (the single-new-key list is C08's known class F15: regrow_example shows it) *)
Theorem out_of_range_not_fetched : forall D n h keys,
  length (unheld n keys) <> 1%nat ->
  (forall k, In (Fetch (self n) h k) (snd (on_replicate D n h keys)) -> in_range D n k = true) /\
  (forall x, In x (inflight (fst (on_replicate D n h keys))) -> In x (inflight n) \/ in_range D n (fst x) = true).
Proof. exact out_of_range_not_fetched_lemma. Qed.

(* fetches of different keys may complete in any order: the resulting store is the same map *)
Theorem delivery_order_irrelevant_for_missing : forall n k1 c1 k2 c2, k1 <> k2 -> forall k,
  lookup k (held (accept (accept n k1 c1) k2 c2)) = lookup k (held (accept (accept n k2 c2) k1 c1)).
Proof. exact accept_commute. Qed.

(* Composition with C08: inside the envelope, the full transcription of ReplicationFetcher::add_keys
   (model/Fetcher.v, any hash-map iteration order) started from an idle queue WITH NO RANGE SET fetches
   exactly `wanted n [] keys` -- what `on_replicate` fetches when the node's fetcher has no range
   (on_replicate_without_range below) -- from the advertising holder, reports no event and leaves queued
   only what the bridge calls `lingering` (advertised entries already in flight). dist is any distance
   function, H any content hash.  With a range set, the filter of `on_replicate` is tied to the code by the
   lock-step run, and C08 proves the range filter of the full transcription (multi_key_in_range). *)
Theorem on_replicate_without_range : forall D n h keys,
  fetch_range n = None ->
  on_replicate D n h keys =
  if accepts_holder n h
  then (set_inflight n (inflight n ++ wanted n [] keys), map (fun x => Fetch (self n) h (fst x)) (wanted n [] keys))
  else (n, []).
Proof. exact on_replicate_no_range. Qed.

Module F := V.model.Fetcher.
Module B := V.proofs.FetcherBridgeRepl.
Theorem on_replicate_matches_fetcher_model :
  forall (dist : N -> N) (H : content -> N) (iter : list F.tbf_entry -> list F.tbf_entry)
         (n : node) (s : F.state) (h : F.peer) (keys : list (key * rtype)),
    (forall l, Permutation (iter l) l) ->
    F.tbf s = [] -> F.range s = None -> F.farthest s = None ->
    B.inflight_rel dist n s -> NoDup keys ->
    (forall e, In e (F.ongoing s) -> ~ F.expired s e) ->
    (length (inflight n) + length (wanted n [] keys) <= F.MAXn)%nat ->
    let st := F.step_code iter s (F.AddKeys h (map (B.tkt dist) keys) (B.theld dist H n)) in
    Permutation (F.ret (snd st)) (map (fun x => (h, B.tk dist (fst x))) (wanted n [] keys)) /\
    Permutation (map fst (F.ongoing (fst st)))
      (map fst (V.proofs.FetcherBridge.kept s (B.theld dist H n)) ++ map (B.tkt dist) (wanted n [] keys)) /\
    F.events (snd st) = [] /\
    F.tbf (fst st) = V.proofs.FetcherBridge.lingering s h (B.theld dist H n) (map (B.tkt dist) keys) /\
    F.range (fst st) = None /\ F.farthest (fst st) = None /\ F.now (fst st) = F.now s.
Proof. exact B.on_replicate_matches_add_keys_lemma. Qed.
