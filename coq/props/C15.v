(* C15 -- client reads are authenticated against the requested address.
   Only pinned statements, `exact <lemma>` and short wrappers live here.  All theorems quantify over
   every reply an adversarial or faulty holder set can make the network layer hand to the client:
   an arbitrary Ok(record) / Err(GetRecordError), including SplitRecord maps in any iteration order. *)
From Coq Require Import List NArith Bool.
From V Require Import lib.Strs gen.Consts model.ClientRead proofs.ClientRead model.SelfEnc proofs.SelfEncRead proofs.InjHash.
Import ListNotations.
Open Scope N_scope.

(* the RecordKind wire tags the read paths test, as regenerated from header.rs *)
Theorem client_kind_tags : KIND_CHUNK = 1 /\ KIND_SCRATCHPAD = 5 /\ KIND_CHUNK <> KIND_SCRATCHPAD.
Proof. exact kind_tags_pinned. Qed.

(* A reply is any Ok(record) / Err(..): the record's own key (r_key) is part of it and universally
   quantified everywhere below -- the holders choose it; `a`, `addr`, `pk` are what was REQUESTED. *)

(* content returned for an address hashes to the requested address, whatever the holders replied *)
Theorem chunk_get_authentic : forall (H : bytes -> N) rp a c, chunk_get H rp a = inl c -> H c = a.
Proof. exact chunk_get_authentic_lemma. Qed.

(* ... and the requested chunk, honestly served, is returned (whatever key the record carries) *)
Theorem chunk_get_honest_accepted : forall (H : bytes -> N) k c, chunk_get H (ROk (chunk_record k c)) (H c) = inl c.
Proof. exact chunk_get_honest. Qed.

(* "validly signed": the pad carries a signature made by its owner over exactly its counter and
   its encrypted data *)
Theorem validly_signed_meaning : forall p,
  is_valid p = true <->
  exists s, p_sig p = Some s /\ s_by s = p_owner p /\ s_counter s = p_counter p /\ s_ct s = p_ct p.
Proof. exact is_valid_iff. Qed.

(* a vault pad handed to its owner is owned by the requested key and validly signed by it *)
Theorem vault_signed_by_owner : forall key rp pk p,
  get_vault key rp pk = inl p -> p_owner p = pk /\ is_valid p = true.
Proof. exact vault_signed_by_owner_lemma. Qed.

(* ... and no scratchpad version received that the requested key owns and signed has a higher counter *)
Theorem vault_highest_valid_counter : forall key rp pk p,
  get_vault key rp pk = inl p ->
  forall q, In q (received rp) -> authentic pk q = true -> p_counter q <= p_counter p.
Proof. exact vault_highest_lemma. Qed.

(* when nothing received is authentic (whatever record it hides in) the read fails *)
Theorem vault_fails_without_authentic : forall key rp pk,
  (forall q, In q (all_pads rp) -> authentic pk q = false) ->
  (exists e, get_vault key rp pk = inr e) /\ (exists e, fetch_and_decrypt_vault key rp pk = VErr e).
Proof. intros key rp pk N. split; [exact (vault_fails_lemma key rp pk N)|exact (fetch_fails_lemma key rp pk N)]. Qed.

(* a record carried inside an error reply (NotEnoughCopies { record, .. }, RecordDoesNotMatch(record))
   is never handed to the caller, whatever it contains *)
Theorem error_carried_record_never_returned : forall key r pk,
  get_vault key (RErr (GNotEnoughCopies r)) pk = inr (VNet (GNotEnoughCopies r)) /\
  get_vault key (RErr (GDoesNotMatch r)) pk = inr (VNet (GDoesNotMatch r)) /\
  fetch_and_decrypt_vault key (RErr (GNotEnoughCopies r)) pk = VErr (VNet (GNotEnoughCopies r)) /\
  fetch_and_decrypt_vault key (RErr (GDoesNotMatch r)) pk = VErr (VNet (GDoesNotMatch r)) /\
  forall H a, chunk_get H (RErr (GNotEnoughCopies r)) a = inr (CNet (GNotEnoughCopies r)) /\
              chunk_get H (RErr (GDoesNotMatch r)) a = inr (CNet (GDoesNotMatch r)).
Proof. exact error_carried_record_ignored. Qed.

(* honest holders are still served: one authentic version ... *)
Theorem vault_honest_accepted : forall key k pk p,
  authentic pk p = true -> get_vault key (ROk (pad_record k p)) pk = inl p.
Proof. exact get_vault_honest. Qed.

(* ... or a split made only of well-formed authentic versions (any number, any order) *)
Theorem vault_split_complete : forall key pk m q,
  Forall (fun r => r_hdr r = Some KIND_SCRATCHPAD /\ exists p, parse_pad r = Some p /\ authentic pk p = true) m ->
  In q (pads_of m) -> exists p, get_vault key (RErr (GSplit m)) pk = inl p.
Proof. exact get_vault_split_complete. Qed.

(* what fetch_and_decrypt_vault returns was encrypted to the requested key inside a pad that key
   owns and signed, the newest such version received *)
Theorem fetch_and_decrypt_authentic : forall key rp sk m e,
  fetch_and_decrypt_vault key rp sk = VOk m e ->
  exists p, In p (all_pads rp) /\ authentic sk p = true /\ c_to (p_ct p) = Some sk /\
            c_plain (p_ct p) = m /\ p_encoding p = e /\
            forall q, In q (received rp) -> authentic sk q = true -> p_counter q <= p_counter p.
Proof. exact fetch_decrypt_lemma. Qed.

(* whole-data reads: whatever two holder sets answer (under the same completion schedule), two
   successful public reads of one address return the same bytes -- nothing can be substituted for
   the data map or for any chunk below it.  "Hashes to that address" is read through the premise
   that the content hash has no collisions (an injective hash exists in the model: inj_hash). *)
Theorem data_get_public_unforgeable : forall (C : codec),
  (forall x y, cH C x = cH C y -> x = y) ->
  forall n1 n2 sched fuel addr d1 d2,
  data_get_public C n1 sched fuel addr = inl d1 -> data_get_public C n2 sched fuel addr = inl d2 -> d1 = d2.
Proof. exact data_get_public_unforgeable_lemma. Qed.

Theorem injective_hash_exists : forall x y, inj_hash x = inj_hash y -> x = y.
Proof. exact inj_hash_inj. Qed.

(* comparing the recomputed address with the key carried by the returned record, instead of with the
   requested address, would be unsound (the holders choose that key) *)
Theorem chunk_get_vs_record_key_unsound :
  exists (H : bytes -> N) rp a c, chunk_get_vs_record_key H rp a = inl c /\ H c <> a.
Proof. exact chunk_get_vs_record_key_refuted. Qed.
