(* C19 -- service lifecycle state matches the managed processes, even under faults.
   Only pinned statements, `exact <lemma>` and short wrappers live here.

   Vocabulary (coq/model/SvcLifecycle.v): `run F ops` is the world after the operation list `ops`
   (add / start / stop / remove / upgrade / refresh / a process dying on its own) under the fault
   plan F = the set of indices of ServiceControl / RPC calls that fail.  `expand cs` is the
   operation list of a sequence of antctl commands (each manager command refreshes the registry
   first, as cmd/node.rs does).  `elied` is a ghost flag: some faulted get_process_pid call hid a
   live process (the real probe cannot do that: its only error is "not found"). *)
From Coq Require Import List NArith String Bool.
From V Require Import lib.Strs lib.Dec gen.Consts model.SvcLifecycle proofs.SvcLifecycle.
Import ListNotations.
Open Scope N_scope.

(* a service recorded as running has the recorded PID, and that process is alive -- or it died on
   its own after the manager last looked.  Every history, every fault plan (lying probes included). *)
Theorem running_has_live_pid : forall F ops s, In s (reg (run F ops)) ->
  (st s = Running -> exists p, pid s = Some p /\
     (live (eos (wenv (run F ops))) (number s) = Some p \/ In p (ekilled (wenv (run F ops))))) /\
  (st s <> Running -> pid s = None).
Proof. intros F ops s H. split; [apply running_lemma|apply (not_running_no_pid F ops)]; exact H. Qed.

(* after a refresh, record and OS agree exactly *)
Theorem refresh_syncs : forall F ops s,
  let w := run F (ops ++ [ORefresh]) in
  elied (wenv w) = false -> In s (reg w) ->
  match live (eos (wenv w)) (number s) with
  | Some p => st s = Running /\ pid s = Some p
  | None => st s <> Running /\ pid s = None
  end.
Proof. exact refresh_syncs_lemma. Qed.

(* a successful stop leaves no process and no recorded PID *)
Theorem stop_leaves_nothing : forall F ops i,
  let w := run F (ops ++ [ORefresh]) in
  forall w' s', step F w (OStop i) = (w', C_OK) -> elied (wenv w') = false ->
  nth_error (reg w') i = Some s' ->
  pid s' = None /\ live (eos (wenv w')) (number s') = None.
Proof. exact stop_lemma. Qed.

(* a successful removal leaves no process, no recorded PID and no service definition *)
Theorem remove_leaves_nothing : forall F ops i keep,
  let w := run F (ops ++ [ORefresh]) in
  forall w' s', step F w (ORemove i keep) = (w', C_OK) -> elied (wenv w') = false ->
  nth_error (reg w') i = Some s' ->
  st s' = Removed /\ pid s' = None /\ live (eos (wenv w')) (number s') = None /\
  is_installed (eos (wenv w')) (number s') = false.
Proof. exact remove_lemma. Qed.

(* a removed service stays removed, whatever commands and faults follow *)
Theorem removed_stays_removed : forall F cs1 cs2,
  let w1 := run F (expand cs1) in
  let w2 := run F (expand (cs1 ++ cs2)) in
  elied (wenv w2) = false ->
  forall i s, nth_error (reg w1) i = Some s -> st s = Removed ->
  exists s', nth_error (reg w2) i = Some s' /\ st s' = Removed /\ number s' = number s.
Proof. exact removed_stays_lemma. Qed.

(* a failed operation never newly records a service as running: any state, any step, any plan *)
Theorem failed_op_never_newly_running : forall F w o w' c, step F w o = (w', c) -> is_ok c = false ->
  forall i s', nth_error (reg w') i = Some s' -> st s' = Running ->
  exists s, nth_error (reg w) i = Some s /\ st s = Running.
Proof. exact failed_op_lemma. Qed.

(* a requested port that a recorded service already holds is refused, and nothing changes: same registry, no
   call made, OS untouched (the environment is the old one with the registry file holding that registry) *)
Theorem port_conflict_refused : forall F w a q w' c, In q (all_ports (reg w)) -> requests a q ->
  step F w (OAdd a) = (w', c) ->
  is_ok c = false /\ reg w' = reg w /\ wenv w' = set_disk (wenv w) (reg w).
Proof. exact port_conflict_lemma. Qed.

(* an added service never receives a number, name or data directory already on record
   (name = antnode<number>, data directory = <base>/antnode<number>) *)
Theorem names_and_dirs_unique : forall F ops,
  NoDup (map number (reg (run F ops))) /\ NoDup (map (fun s => sname (number s)) (reg (run F ops))).
Proof. exact names_unique_lemma. Qed.

(* the saved registry loads back to the same state (the model's field encoding; the real file is
   reloaded and compared after every step of every correspondence history) *)
Theorem save_load_identity : forall F ops, load (save (reg (run F ops))) = Some (reg (run F ops)).
Proof. intros. apply save_load_lemma. Qed.

(* DESIGN Appendix A shape: the per-service invariants of every antctl command history *)
Theorem lifecycle_invariants : forall F cs, let w := run F (expand cs) in
  elied (wenv w) = false ->
  forall s, In s (reg w) ->
    (st s = Running -> exists p, pid s = Some p /\
       (live (eos (wenv w)) (number s) = Some p \/ In p (ekilled (wenv w)))) /\
    (st s = Removed -> live (eos (wenv w)) (number s) = None /\ is_installed (eos (wenv w)) (number s) = false /\
       forall cs2, elied (wenv (run F (expand (cs ++ cs2)))) = false ->
         forall i, nth_error (reg w) i = Some s ->
           exists s', nth_error (reg (run F (expand (cs ++ cs2)))) i = Some s' /\ st s' = Removed /\ number s' = number s).
Proof.
  intros F cs w L s Hs. split; [apply running_lemma; exact Hs|]. intros R.
  destruct (removed_clean_lemma F cs s L Hs R) as (A & B). split; [exact A|]. split; [exact B|].
  intros cs2 L2 i Hi. exact (removed_stays_lemma F cs cs2 L2 i s Hi R).
Qed.

(* what the model takes from the source text: the status names written to the registry file, the
   service-name prefix, and that start/stop/remove/upgrade in cmd/node.rs refresh the registry first *)
Theorem lifecycle_constants :
  map status_str [Added; Running; Stopped; Removed] = Consts.svc_status_names /\
  (forall n, sname n = (Consts.svc_name_prefix ++ dec n)%string) /\
  Consts.antctl_cmds_refresh_first = true.
Proof. exact lifecycle_constants_ok. Qed.

(* whatever came before and whatever was made to fail: a stop, a removal, or an upgrade without start that
   REPORTS success leaves the record without a pid and not Running (removal: Removed, definition gone).
   (That no process is left either needs the refresh-first discipline and an un-lied-to probe:
   stop_leaves_nothing / remove_leaves_nothing; the two ways it fails otherwise are the known classes
   `untracked-process-survives` and `probe-error-treated-as-stopped`, witnessed by
   stop_without_refresh_refuted and stop_under_probe_fault_refuted.) *)
Theorem ok_clears_record : forall F ops i w' c s' o,
  step F (run F ops) o = (w', c) -> nth_error (reg w') i = Some s' ->
  match o with
  | OStop j => j = i /\ c = C_OK
  | ORemove j _ => j = i /\ c = C_OK
  | OUpgrade j _ start _ _ _ => j = i /\ start = false /\ (c = C_UPGRADED \/ c = C_FORCED)
  | _ => False
  end ->
  pid s' = None /\ st s' <> Running /\
  (match o with ORemove _ _ => st s' = Removed /\ is_installed (eos (wenv w')) (number s') = false | _ => True end).
Proof. exact ok_clears_record_lemma. Qed.

(* add_node saves the registry after every service it records: whatever call fails, and wherever the batch is
   cut short (a failing get_available_port for a LATER service returns early), the registry file it leaves is the
   in-memory registry -- so the next command, which starts from the file, sees every installed service *)
Theorem add_saves_every_recorded_service : forall F w a w' c,
  step F w (OAdd a) = (w', c) -> edisk (wenv w') = reg w'.
Proof. exact add_saves_lemma. Qed.

(* the registry file round trip for ANY list of service records and ANY field values: in particular
   connected_peers = Some [] (a running node with no peer yet), Some [ids] and None are written differently and
   read back as themselves.  The custom (de)serialisers present on NodeServiceData and their element-wise shape
   are re-read from the source (fails closed); serde_json itself is exercised by the correspondence run, which
   compares every field of every record of the reloaded file with the in-memory struct after every step. *)
Theorem save_load_all_values : forall rg, load (save rg) = Some rg.
Proof. exact save_load_lemma. Qed.

Theorem connected_peers_encoding_injective : forall a b, jconn a = jconn b -> a = b.
Proof. exact jconn_injective. Qed.

Theorem registry_serde_as_in_source :
  Consts.registry_custom_serde =
    ["connected_peers"; "serialize_connected_peers"; "deserialize_connected_peers";
     "peer_id"; "serialize_peer_id"; "deserialize_peer_id"]%string /\
  Consts.connected_peers_serde_is_elementwise = true.
Proof. exact registry_serde_constants. Qed.
