(* Strings and byte lists used by every model and by the generated case files. *)
From Coq Require Import List NArith String Ascii Bool.
Import ListNotations.
Open Scope N_scope.

Definition of_codes (l : list N) : string :=
  fold_right (fun c s => String (ascii_of_N c) s) EmptyString l.

Fixpoint codes (s : string) : list N :=
  match s with
  | EmptyString => []
  | String c r => N_of_ascii c :: codes r
  end.

Definition hexval (c : ascii) : option N :=
  let n := N_of_ascii c in
  if (48 <=? n) && (n <=? 57) then Some (n - 48)
  else if (97 <=? n) && (n <=? 102) then Some (n - 87)
  else if (65 <=? n) && (n <=? 70) then Some (n - 55)
  else None.

(* hex text -> bytes; None on odd length or a non-hex character (as the `hex` crate decides) *)
Fixpoint unhex (s : string) : option (list N) :=
  match s with
  | EmptyString => Some []
  | String a (String b r) =>
      match hexval a, hexval b, unhex r with
      | Some x, Some y, Some l => Some (16 * x + y :: l)
      | _, _, _ => None
      end
  | String _ EmptyString => None
  end.

(* reader used by generated case files: malformed text cannot occur there *)
Definition hx (s : string) : list N := match unhex s with Some l => l | None => [] end.

Definition hexdigit (n : N) : ascii :=
  if n <? 10 then ascii_of_N (48 + n) else ascii_of_N (87 + n).

Fixpoint tohex (l : list N) : string :=
  match l with
  | [] => EmptyString
  | b :: r => String (hexdigit (b / 16)) (String (hexdigit (b mod 16)) (tohex r))
  end.

Definition is_byte (n : N) : bool := n <? 256.
Definition wf_bytes (l : list N) : bool := forallb is_byte l.

Fixpoint list_eqb {A} (eqb : A -> A -> bool) (a b : list A) : bool :=
  match a, b with
  | [], [] => true
  | x :: a', y :: b' => eqb x y && list_eqb eqb a' b'
  | _, _ => false
  end.

Definition bytes_eqb := list_eqb N.eqb.

Definition option_eqb {A} (eqb : A -> A -> bool) (a b : option A) : bool :=
  match a, b with
  | None, None => true
  | Some x, Some y => eqb x y
  | _, _ => false
  end.

Definition slen (s : string) : N := N.of_nat (String.length s).
