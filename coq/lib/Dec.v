(* Decimal text <-> N, with the lemmas the amount / distance models need.
   Own small definitions (rather than Numbers.DecimalString) so that length, append,
   zero-padding and zero-trimming facts are short structural inductions. *)
From Coq Require Import List NArith ZArith String Ascii Bool Lia Arith ZifyBool ZifyNat ZifyN.
From V Require Import lib.Strs.
Import ListNotations.
Open Scope N_scope.
Ltac Zify.zify_post_hook ::= Z.div_mod_to_equations.

Definition is_digit (c : ascii) : bool :=
  let n := N_of_ascii c in (48 <=? n) && (n <=? 57).

Fixpoint all_digits (s : string) : bool :=
  match s with EmptyString => true | String c r => is_digit c && all_digits r end.

Definition digit_val (c : ascii) : N := N_of_ascii c - 48.
Definition digit_char (d : N) : ascii := ascii_of_N (48 + d).

(* value of a digit string read left to right, starting from accumulator a *)
Fixpoint val_acc (a : N) (s : string) : N :=
  match s with
  | EmptyString => a
  | String c r => val_acc (a * 10 + digit_val c) r
  end.
Definition val (s : string) : N := val_acc 0 s.

(* printing: digits are produced least significant first and pushed in front of acc *)
Fixpoint dec_fuel (fuel : nat) (n : N) (acc : string) : string :=
  match fuel with
  | O => acc
  | S f =>
      let acc' := String (digit_char (n mod 10)) acc in
      if n / 10 =? 0 then acc' else dec_fuel f (n / 10) acc'
  end.
Definition dec (n : N) : string := dec_fuel (S (N.to_nat (N.size n))) n EmptyString.

Fixpoint zeros (n : nat) : string :=
  match n with O => EmptyString | S k => String "0"%char (zeros k) end.

(* `{:0w}` left-pads with zeros up to width w and never truncates *)
Definition pad_left (w : N) (s : string) : string :=
  append (zeros (N.to_nat w - String.length s)) s.

(* str::trim_end_matches('0') *)
Fixpoint trim0 (s : string) : string :=
  match s with
  | EmptyString => EmptyString
  | String c r =>
      match trim0 r with
      | EmptyString => if Ascii.eqb c "0"%char then EmptyString else String c EmptyString
      | r' => String c r'
      end
  end.

(* ---------------------------------------------------------------- lemmas *)

Lemma digit_val_char d : d < 10 -> digit_val (digit_char d) = d.
Proof.
  intros H. unfold digit_val, digit_char.
  rewrite N_ascii_embedding by lia. lia.
Qed.

Lemma is_digit_char d : d < 10 -> is_digit (digit_char d) = true.
Proof.
  intros H. unfold is_digit, digit_char. rewrite N_ascii_embedding by lia.
  apply andb_true_intro; split; apply N.leb_le; lia.
Qed.

Lemma is_digit_range c : is_digit c = true -> digit_val c < 10.
Proof.
  unfold is_digit, digit_val. intros H. apply andb_prop in H as [H1 H2].
  apply N.leb_le in H1, H2. lia.
Qed.

Lemma is_digit_not_dot c : is_digit c = true -> Ascii.eqb c "."%char = false.
Proof.
  intros H. destruct (Ascii.eqb_spec c "."%char) as [->|]; [|reflexivity].
  vm_compute in H. discriminate.
Qed.

Lemma val_acc_app a s1 s2 : val_acc a (s1 ++ s2) = val_acc (val_acc a s1) s2.
Proof. revert a; induction s1 as [|c r IH]; intros a; cbn; [reflexivity|apply IH]. Qed.

Lemma val_acc_shift a s : val_acc a s = a * 10 ^ slen s + val s.
Proof.
  unfold val. revert a. induction s as [|c r IH]; intros a.
  - cbn. lia.
  - cbn [val_acc]. rewrite IH. rewrite (IH (0 * 10 + digit_val c)).
    unfold slen. cbn [String.length]. rewrite Nat2N.inj_succ, N.pow_succ_r'. unfold slen in *. lia.
Qed.

Lemma val_app s1 s2 : val (s1 ++ s2) = val s1 * 10 ^ slen s2 + val s2.
Proof. unfold val at 1. rewrite val_acc_app. fold (val s1). apply val_acc_shift. Qed.

Lemma val_zeros k : val (zeros k) = 0.
Proof.
  unfold val. induction k as [|k IH]; cbn; [reflexivity|].
  change (digit_val "0") with 0. cbn. exact IH.
Qed.

Lemma val_zeros_app k s : val (zeros k ++ s) = val s.
Proof. rewrite val_app, val_zeros. lia. Qed.

Lemma all_digits_app s1 s2 : all_digits (s1 ++ s2) = all_digits s1 && all_digits s2.
Proof. induction s1 as [|c r IH]; cbn; [reflexivity|]. rewrite IH, andb_assoc. reflexivity. Qed.

Lemma all_digits_zeros k : all_digits (zeros k) = true.
Proof. induction k; cbn; auto. Qed.

Lemma length_zeros k : String.length (zeros k) = k.
Proof. induction k; cbn; auto. Qed.

Lemma length_app s1 s2 : String.length (s1 ++ s2) = (String.length s1 + String.length s2)%nat.
Proof. induction s1; cbn; auto. Qed.

Lemma val_acc_bound a s : all_digits s = true -> val_acc a s < (a + 1) * 10 ^ slen s.
Proof.
  revert a; induction s as [|c r IH]; intros a H.
  - cbn. lia.
  - cbn in H. apply andb_prop in H as [Hc Hr]. cbn [val_acc].
    specialize (IH (a * 10 + digit_val c) Hr). apply is_digit_range in Hc.
    unfold slen in *. cbn [String.length]. rewrite Nat2N.inj_succ, N.pow_succ_r'.
    nia.
Qed.

Lemma val_bound s : all_digits s = true -> val s < 10 ^ slen s.
Proof. intros H. pose proof (val_acc_bound 0 s H). unfold val. lia. Qed.

(* --- dec --- *)

Lemma append_assoc' (a b c : string) : ((a ++ b) ++ c = a ++ (b ++ c))%string.
Proof. induction a; cbn; congruence. Qed.

Lemma dec_fuel_acc f : forall n acc, dec_fuel f n acc = (dec_fuel f n EmptyString ++ acc)%string.
Proof.
  induction f as [|f IH]; intros n acc; cbn [dec_fuel]; [reflexivity|].
  destruct (n / 10 =? 0); [reflexivity|].
  rewrite IH. rewrite (IH _ (String _ EmptyString)). rewrite append_assoc'. reflexivity.
Qed.

Lemma dec_fuel_val f : forall n, n < 2 ^ N.of_nat f -> (0 < f)%nat ->
  val (dec_fuel f n EmptyString) = n.
Proof.
  induction f as [|f IH]; intros n Hn Hf; [lia|].
  cbn [dec_fuel]. assert (Hd : n mod 10 < 10) by (apply N.mod_lt; lia).
  destruct (N.eqb_spec (n / 10) 0) as [Hz|Hz].
  - unfold val. cbn [val_acc]. rewrite digit_val_char by assumption.
    pose proof (N.div_mod n 10 ltac:(lia)). lia.
  - rewrite dec_fuel_acc, val_app.
    assert (Hlt : n / 10 < 2 ^ N.of_nat f).
    { rewrite Nat2N.inj_succ, N.pow_succ_r' in Hn.
      remember (2 ^ N.of_nat f) as P. apply N.div_lt_upper_bound; lia. }
    destruct f as [|f']; [change (2 ^ N.of_nat 0) with 1 in Hlt; exfalso; clear - Hlt Hz; lia|].
    rewrite IH by (try lia; assumption).
    change (slen (String (digit_char (n mod 10)) EmptyString)) with 1.
    unfold val. cbn [val_acc]. rewrite digit_val_char by assumption.
    pose proof (N.div_mod n 10 ltac:(lia)). lia.
Qed.

Lemma size_fuel n : n < 2 ^ N.of_nat (S (N.to_nat (N.size n))).
Proof.
  rewrite Nat2N.inj_succ, N2Nat.id, N.pow_succ_r'.
  destruct n as [|p]; [cbn; lia|].
  pose proof (N.size_gt (N.pos p)). lia.
Qed.

Lemma val_dec n : val (dec n) = n.
Proof. unfold dec. apply dec_fuel_val; [apply size_fuel|lia]. Qed.

Lemma dec_fuel_digits f : forall n acc, all_digits acc = true -> all_digits (dec_fuel f n acc) = true.
Proof.
  induction f as [|f IH]; intros n acc H; cbn [dec_fuel]; [assumption|].
  assert (Hd : n mod 10 < 10) by (apply N.mod_lt; lia).
  assert (H' : all_digits (String (digit_char (n mod 10)) acc) = true).
  { cbn. rewrite is_digit_char by assumption. assumption. }
  destruct (n / 10 =? 0); [assumption|apply IH; assumption].
Qed.

Lemma dec_digits n : all_digits (dec n) = true.
Proof. apply dec_fuel_digits. reflexivity. Qed.

Lemma dec_fuel_len f : forall n acc, (0 < f)%nat ->
  (String.length acc < String.length (dec_fuel f n acc))%nat.
Proof.
  induction f as [|f IH]; intros n acc Hf; [lia|]. cbn [dec_fuel].
  destruct (n / 10 =? 0); [cbn [String.length]; lia|].
  destruct f as [|f']; [cbn [dec_fuel String.length]; lia|].
  specialize (IH (n / 10) (String (digit_char (n mod 10)) acc) ltac:(lia)).
  cbn [String.length] in IH. lia.
Qed.

Lemma dec_nonempty n : dec n <> EmptyString.
Proof.
  unfold dec. intros H.
  pose proof (dec_fuel_len (S (N.to_nat (N.size n))) n EmptyString ltac:(lia)) as L.
  rewrite H in L. cbn in L. lia.
Qed.

Lemma dec_fuel_len_bound f : forall n acc k, n < 10 ^ N.of_nat (S k) ->
  (String.length (dec_fuel f n acc) <= S k + String.length acc)%nat.
Proof.
  induction f as [|f IH]; intros n acc k Hn; cbn [dec_fuel]; [lia|].
  destruct (N.eqb_spec (n / 10) 0) as [Hz|Hz]; [cbn [String.length]; lia|].
  destruct k as [|k].
  - exfalso. change (10 ^ N.of_nat 1) with 10 in Hn. apply Hz. apply N.div_small. assumption.
  - assert (Hlt : n / 10 < 10 ^ N.of_nat (S k)).
    { rewrite (Nat2N.inj_succ (S k)), N.pow_succ_r' in Hn.
      remember (10 ^ N.of_nat (S k)) as P. apply N.div_lt_upper_bound; lia. }
    specialize (IH (n / 10) (String (digit_char (n mod 10)) acc) k Hlt).
    cbn [String.length] in IH. lia.
Qed.

Lemma dec_len_bound n k : (0 < k)%nat -> n < 10 ^ N.of_nat k -> (String.length (dec n) <= k)%nat.
Proof.
  intros Hk Hn. destruct k as [|k]; [lia|].
  pose proof (dec_fuel_len_bound (S (N.to_nat (N.size n))) n EmptyString k Hn) as L.
  cbn [String.length] in L. unfold dec. lia.
Qed.

(* --- pad_left --- *)

Lemma pad_left_val w s : val (pad_left w s) = val s.
Proof. unfold pad_left. apply val_zeros_app. Qed.

Lemma pad_left_digits w s : all_digits s = true -> all_digits (pad_left w s) = true.
Proof. intros H. unfold pad_left. rewrite all_digits_app, all_digits_zeros, H. reflexivity. Qed.

Lemma pad_left_len w s : (String.length s <= N.to_nat w)%nat ->
  String.length (pad_left w s) = N.to_nat w.
Proof. intros H. unfold pad_left. rewrite length_app, length_zeros. lia. Qed.

(* --- trim0 --- *)

Lemma trim0_split s : exists k, s = (trim0 s ++ zeros k)%string.
Proof.
  induction s as [|c r [k IH]]; [exists O; reflexivity|].
  cbn [trim0]. destruct (trim0 r) as [|c' r'] eqn:E.
  - destruct (Ascii.eqb_spec c "0"%char) as [->|Hc].
    + exists (S k). cbn. cbn in IH. rewrite <- IH. reflexivity.
    + exists k. cbn. cbn in IH. rewrite <- IH. reflexivity.
  - exists k. cbn. cbn in IH. rewrite <- IH. reflexivity.
Qed.

Lemma trim0_digits s : all_digits s = true -> all_digits (trim0 s) = true.
Proof.
  intros H. destruct (trim0_split s) as [k E]. rewrite E in H.
  rewrite all_digits_app in H. apply andb_prop in H. tauto.
Qed.

Lemma trim0_len s : (String.length (trim0 s) <= String.length s)%nat.
Proof.
  destruct (trim0_split s) as [k E]. rewrite E at 2. rewrite length_app. lia.
Qed.

Lemma slen_app s1 s2 : slen (s1 ++ s2) = slen s1 + slen s2.
Proof. unfold slen. rewrite length_app. lia. Qed.

Lemma slen_zeros k : slen (zeros k) = N.of_nat k.
Proof. unfold slen. rewrite length_zeros. reflexivity. Qed.

(* the value of a digit string = value of its zero-trimmed form scaled back up *)
Lemma trim0_val s : val s = val (trim0 s) * 10 ^ (slen s - slen (trim0 s)).
Proof.
  destruct (trim0_split s) as [k E]. remember (trim0 s) as t eqn:Et. clear Et. subst s.
  rewrite val_app, val_zeros, slen_app, slen_zeros.
  replace (slen t + N.of_nat k - slen t) with (N.of_nat k) by lia. lia.
Qed.

(* trimming is idempotent on the text level: the trimmed string does not end in '0' *)
Lemma trim0_zeros_app s k : trim0 (s ++ zeros k) = trim0 s.
Proof.
  induction s as [|c r IH].
  - cbn. induction k as [|k IHk]; [reflexivity|]. cbn. rewrite IHk. reflexivity.
  - cbn [append trim0]. rewrite IH. reflexivity.
Qed.

Lemma trim0_idem s : trim0 (trim0 s) = trim0 s.
Proof.
  destruct (trim0_split s) as [k E]. remember (trim0 s) as t eqn:Et.
  rewrite E in Et. rewrite trim0_zeros_app in Et. congruence.
Qed.
