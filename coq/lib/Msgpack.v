(* MessagePack as rmp-serde 1.3 writes it in its default (compact) configuration, and a typed
   decoder for it.

   Encoder (`mp_encode`), from rmp-serde-1.3.0/src/encode.rs + rmp-0.8.14/src/encode:
     bool -> c2/c3;  every unsigned width -> write_uint (smallest of fixint, cc, cd, ce, cf);
     every signed width -> write_sint (smallest format, non-negative values in the unsigned formats);
     f32/f64 -> ca/cb + big-endian bits;  str/char -> fixstr/d9/da/db;  bytes -> c4/c5/c6;
     none, unit -> c0;  some v -> v;  unit variant -> the variant NAME as str;
     newtype/tuple/struct variant -> 81, name as str, payload;  seq, tuple, struct -> array (9x/dc/dd)
     of the fields in order (no field names);  map -> 8x/de/df.
   Decoder (`mp_decode_as`), from decode.rs: integers are read leniently exactly as `any_num` +
   serde's primitive visitors do (any integer format whose value fits the target type), lengths in
   any of their formats; otherwise only the canonical form is accepted (the real decoders accept
   more, e.g. a str where bytes are expected; see notes/C12.md). *)
From Coq Require Import List NArith ZArith Bool.
From V Require Import lib.Strs lib.Serde.
Import ListNotations.
Open Scope N_scope.

(* ---------- fixed-width integers ---------- *)
Fixpoint le_bytes (k : nat) (n : N) : list N :=
  match k with O => [] | S k' => n mod 256 :: le_bytes k' (n / 256) end.
Definition be_bytes (k : nat) (n : N) : list N := rev (le_bytes k n).

Fixpoint le_val (l : list N) : N :=
  match l with [] => 0 | b :: r => b + 256 * le_val r end.

Definition take (k : nat) (bs : list N) : option (list N * list N) :=
  if Nat.ltb (length bs) k then None else Some (firstn k bs, skipn k bs).

Definition read_be (k : nat) (bs : list N) : option (N * list N) :=
  match take k bs with
  | Some (h, r) => Some (le_val (rev h), r)
  | None => None
  end.

(* two's complement reading of a k-byte big-endian field *)
Definition read_be_signed (k : nat) (bs : list N) : option (Z * list N) :=
  match read_be k bs with
  | Some (u, r) =>
      let m := 2 ^ (8 * N.of_nat k) in
      Some (if u <? m / 2 then Z.of_N u else (Z.of_N u - Z.of_N m)%Z, r)
  | None => None
  end.

(* ---------- integers ---------- *)
Definition enc_uint (n : N) : list N :=
  if n <? 128 then [n]
  else if n <? 256 then [204; n]                              (* cc *)
  else if n <? 65536 then 205 :: be_bytes 2 n                 (* cd *)
  else if n <? 4294967296 then 206 :: be_bytes 4 n            (* ce *)
  else 207 :: be_bytes 8 n.                                   (* cf *)

Definition enc_sint (z : Z) : list N :=
  if Z.leb 0 z then enc_uint (Z.to_N z)
  else if Z.leb (-32) z then [Z.to_N (256 + z)]                                  (* negative fixint *)
  else if Z.leb (-128) z then [208; Z.to_N (256 + z)]                            (* d0 *)
  else if Z.leb (-32768) z then 209 :: be_bytes 2 (Z.to_N (65536 + z))           (* d1 *)
  else if Z.leb (-2147483648) z then 210 :: be_bytes 4 (Z.to_N (4294967296 + z)) (* d2 *)
  else 211 :: be_bytes 8 (Z.to_N (18446744073709551616 + z)).                    (* d3 *)

(* rmp-serde `any_num`: any integer marker, value as a mathematical integer *)
Definition dec_int (bs : list N) : option (Z * list N) :=
  match bs with
  | [] => None
  | b :: r =>
      if b <? 128 then Some (Z.of_N b, r)
      else if 224 <=? b then (if b <? 256 then Some ((Z.of_N b - 256)%Z, r) else None)
      else if b =? 204 then match read_be 1 r with Some (u, r') => Some (Z.of_N u, r') | None => None end
      else if b =? 205 then match read_be 2 r with Some (u, r') => Some (Z.of_N u, r') | None => None end
      else if b =? 206 then match read_be 4 r with Some (u, r') => Some (Z.of_N u, r') | None => None end
      else if b =? 207 then match read_be 8 r with Some (u, r') => Some (Z.of_N u, r') | None => None end
      else if b =? 208 then read_be_signed 1 r
      else if b =? 209 then read_be_signed 2 r
      else if b =? 210 then read_be_signed 4 r
      else if b =? 211 then read_be_signed 8 r
      else None
  end.

(* ---------- length prefixes ---------- *)
Record lenfmt := { fix_base : N; fix_cap : N; m8 : option N; m16 : N; m32 : N }.

Definition STR := {| fix_base := 160; fix_cap := 32; m8 := Some 217; m16 := 218; m32 := 219 |}.
Definition BIN := {| fix_base := 0;   fix_cap := 0;  m8 := Some 196; m16 := 197; m32 := 198 |}.
Definition ARR := {| fix_base := 144; fix_cap := 16; m8 := None;     m16 := 220; m32 := 221 |}.
Definition MAP := {| fix_base := 128; fix_cap := 16; m8 := None;     m16 := 222; m32 := 223 |}.

Definition enc_len (F : lenfmt) (n : N) : list N :=
  if n <? fix_cap F then [fix_base F + n]
  else match m8 F with
       | Some m => if n <? 256 then [m; n]
                   else if n <? 65536 then m16 F :: be_bytes 2 n else m32 F :: be_bytes 4 n
       | None => if n <? 65536 then m16 F :: be_bytes 2 n else m32 F :: be_bytes 4 n
       end.

Definition dec_len (F : lenfmt) (bs : list N) : option (N * list N) :=
  match bs with
  | [] => None
  | b :: r =>
      if (fix_base F <=? b) && (b <? fix_base F + fix_cap F) then Some (b - fix_base F, r)
      else if match m8 F with Some m => b =? m | None => false end then read_be 1 r
      else if b =? m16 F then read_be 2 r
      else if b =? m32 F then read_be 4 r
      else None
  end.

(* read n raw bytes, n as decoded from the stream (never builds a nat larger than the input) *)
Definition take_n (n : N) (bs : list N) : option (list N * list N) :=
  if len bs <? n then None else take (N.to_nat n) bs.

(* ---------- the encoder ---------- *)
Fixpoint mp_encode (v : sval) : list N :=
  match v with
  | VBool b => [if b then 195 else 194]
  | VU _ n => enc_uint n
  | VI _ z => enc_sint z
  | VF32 x => 202 :: be_bytes 4 x
  | VF64 x => 203 :: be_bytes 8 x
  | VStr s => enc_len STR (len s) ++ s
  | VBytes b => enc_len BIN (len b) ++ b
  | VNone => [192]
  | VSome v' => mp_encode v'
  | VUnit => [192]
  | VUnitVariant n => enc_len STR (len n) ++ n
  | VVariant n v' => 129 :: (enc_len STR (len n) ++ n) ++ mp_encode v'
  | VSeq l => enc_len ARR (len l) ++ flat_map mp_encode l
  | VTuple l => enc_len ARR (len l) ++ flat_map mp_encode l
  | VMap l => enc_len MAP (len l / 2) ++ flat_map mp_encode l
  end.

(* `Some x` is written as x itself, so an x whose encoding starts with nil reads back as `None`:
   such trees are excluded from the round-trip statement (rmp-serde documents this loss) *)
Definition starts_nil (v : sval) : bool :=
  match mp_encode v with [] => true | b :: _ => b =? 192 end.

Fixpoint wf (v : sval) : bool :=
  match v with
  | VBool _ => true
  | VU w n => in_u w n
  | VI w z => in_i w z
  | VF32 x => x <? 2 ^ 32
  | VF64 x => x <? 2 ^ 64
  | VStr s => bytes_ok s && utf8_valid s
  | VBytes b => bytes_ok b
  | VNone => true
  | VSome v' => wf v' && negb (starts_nil v')
  | VUnit => true
  | VUnitVariant n => bytes_ok n
  | VVariant n v' => bytes_ok n && wf v'
  | VSeq l => (len l <? LEN_MAX) && forallb wf l
  | VTuple l => (len l <? LEN_MAX) && forallb wf l
  | VMap l => (len l / 2 <? LEN_MAX) && forallb wf l
  end.

(* ---------- the typed decoder ---------- *)
Definition expect_name (n : list N) (bs : list N) : option (list N) :=
  match dec_len STR bs with
  | Some (k, r) =>
      match take_n k r with
      | Some (s, r') => if bytes_eqb s n then Some r' else None
      | None => None
      end
  | None => None
  end.

Definition decoder := list N -> option (sval * list N).

(* k values by the same decoder *)
Fixpoint dec_many (f : decoder) (k : nat) (r : list N) : option (list sval * list N) :=
  match k with
  | O => Some ([], r)
  | S k' =>
      match f r with
      | Some (v, r1) =>
          match dec_many f k' r1 with
          | Some (l, r2) => Some (v :: l, r2)
          | None => None
          end
      | None => None
      end
  end.

(* k (key, value) pairs *)
Fixpoint dec_many2 (f g : decoder) (k : nat) (r : list N) : option (list sval * list N) :=
  match k with
  | O => Some ([], r)
  | S k' =>
      match f r with
      | Some (a, r1) =>
          match g r1 with
          | Some (b, r2) =>
              match dec_many2 f g k' r2 with
              | Some (l, r3) => Some (a :: b :: l, r3)
              | None => None
              end
          | None => None
          end
      | None => None
      end
  end.

(* one value per decoder, in order *)
Fixpoint dec_each (fs : list decoder) (r : list N) : option (list sval * list N) :=
  match fs with
  | [] => Some ([], r)
  | f :: fs' =>
      match f r with
      | Some (v, r1) =>
          match dec_each fs' r1 with
          | Some (l, r2) => Some (v :: l, r2)
          | None => None
          end
      | None => None
      end
  end.

(* first alternative that accepts *)
Fixpoint dec_alt (fs : list decoder) (bs : list N) : option (sval * list N) :=
  match fs with
  | [] => None
  | f :: fs' => match f bs with Some res => Some res | None => dec_alt fs' bs end
  end.

Fixpoint mp_decode_as (s : shape) (bs : list N) {struct s} : option (sval * list N) :=
  match s with
  | SBool =>
      match bs with
      | b :: r => if b =? 194 then Some (VBool false, r)
                  else if b =? 195 then Some (VBool true, r) else None
      | [] => None
      end
  | SU w =>
      match dec_int bs with
      | Some (z, r) => if (0 <=? z)%Z && in_u w (Z.to_N z) then Some (VU w (Z.to_N z), r) else None
      | None => None
      end
  | SI w =>
      match dec_int bs with
      | Some (z, r) => if in_i w z then Some (VI w z, r) else None
      | None => None
      end
  | SF32 =>
      match bs with
      | b :: r => if b =? 202 then
                    match read_be 4 r with Some (x, r') => Some (VF32 x, r') | None => None end
                  else None
      | [] => None
      end
  | SF64 =>
      match bs with
      | b :: r => if b =? 203 then
                    match read_be 8 r with Some (x, r') => Some (VF64 x, r') | None => None end
                  else None
      | [] => None
      end
  | SStr =>
      match dec_len STR bs with
      | Some (k, r) =>
          match take_n k r with
          | Some (x, r') => if utf8_valid x then Some (VStr x, r') else None
          | None => None
          end
      | None => None
      end
  | SBytes =>
      match dec_len BIN bs with
      | Some (k, r) =>
          match take_n k r with
          | Some (x, r') => Some (VBytes x, r')
          | None => None
          end
      | None => None
      end
  | SOption s' =>
      match bs with
      | b :: r =>
          if b =? 192 then Some (VNone, r)
          else match mp_decode_as s' bs with Some (v, r') => Some (VSome v, r') | None => None end
      | [] => None
      end
  | SUnit =>
      match bs with
      | b :: r => if b =? 192 then Some (VUnit, r) else None
      | [] => None
      end
  | SSeq s' =>
      match dec_len ARR bs with
      | Some (n, r) =>
          if len r <? n then None      (* every element takes at least one byte *)
          else match dec_many (mp_decode_as s') (N.to_nat n) r with
               | Some (l, r') => Some (VSeq l, r')
               | None => None
               end
      | None => None
      end
  | STuple ss =>
      match dec_len ARR bs with
      | Some (n, r) =>
          if negb (n =? len ss) then None
          else match dec_each (map mp_decode_as ss) r with
               | Some (l, r') => Some (VTuple l, r')
               | None => None
               end
      | None => None
      end
  | SUnitVariant n =>
      match expect_name n bs with
      | Some r => Some (VUnitVariant n, r)
      | None => None
      end
  | SVariant n s' =>
      match dec_len MAP bs with
      | Some (k, r) =>
          if negb (k =? 1) then None
          else match expect_name n r with
               | Some r1 =>
                   match mp_decode_as s' r1 with
                   | Some (v, r2) => Some (VVariant n v, r2)
                   | None => None
                   end
               | None => None
               end
      | None => None
      end
  | SEnum vs => dec_alt (map mp_decode_as vs) bs
  | SMap sk sv =>
      match dec_len MAP bs with
      | Some (n, r) =>
          if len r <? 2 * n then None
          else match dec_many2 (mp_decode_as sk) (mp_decode_as sv) (N.to_nat n) r with
               | Some (l, r') => Some (VMap l, r')
               | None => None
               end
      | None => None
      end
  end.

(* whole-buffer decoding as `rmp_serde::from_slice` does it: trailing bytes are not inspected *)
Definition mp_from_slice (s : shape) (bs : list N) : option sval :=
  match mp_decode_as s bs with Some (v, _) => Some v | None => None end.

(* ---------- agreement helpers for the generated case files ---------- *)
Definition agree_encode (v : sval) (impl : list N) : bool := bytes_eqb (mp_encode v) impl.

(* `impl`: what the Rust decoder returned (None = Err), as a recorded tree.
   exact = true : the model and the implementation must agree on acceptance and on the value;
   exact = false: the real decoder may accept more, and may reject on semantic grounds (curve
                  points, ...): only "both accept => same value" is required. *)
Definition agree_decode (exact : bool) (s : shape) (bs : list N) (impl : option sval) : bool :=
  match mp_from_slice s bs, impl with
  | Some v, Some v' => if exact then sval_eqb v v' else sval_sim v v'
  | None, None => true
  | _, _ => negb exact
  end.
