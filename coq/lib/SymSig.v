(* Symbolic (Dolev-Yao) signatures.  A byte string presented as a signature is either the
   signature some key made over some message, or junk; `interp` (supplied by the environment) says
   which.  Verification succeeds exactly on `Sig pk msg`.  This idealises EUF-CMA security of
   ed25519 / BLS (plus: one signature string is valid for at most one (key, message) pair); it is
   the stated cryptographic assumption of every "altering a signed field makes verification fail"
   theorem.  Keys are identified by numbers. *)
From Coq Require Import List NArith Bool.
From V Require Import lib.Strs.
Import ListNotations.
Open Scope N_scope.

Inductive sig := Sig (pk : N) (msg : list N) | Junk (n : N).

Definition sig_verify (pk : N) (msg : list N) (s : sig) : bool :=
  match s with
  | Sig pk' m' => (pk =? pk') && bytes_eqb msg m'
  | Junk _ => false
  end.

Definition sig_eqb (a b : sig) : bool :=
  match a, b with
  | Sig p m, Sig p' m' => (p =? p') && bytes_eqb m m'
  | Junk x, Junk y => x =? y
  | _, _ => false
  end.

(* association-list lookups used to build the per-case key system from what the harness reports *)
Fixpoint assoc_bytes {A} (k : list N) (l : list (list N * A)) : option A :=
  match l with
  | [] => None
  | (k', v) :: r => if bytes_eqb k k' then Some v else assoc_bytes k r
  end.

Fixpoint assoc_N {A} (k : N) (l : list (N * A)) : option A :=
  match l with
  | [] => None
  | (k', v) :: r => if k =? k' then Some v else assoc_N k r
  end.
