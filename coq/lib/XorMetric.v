(* The XOR metric over digests, and the ordering facts every closeness decision relies on:
   a stable insertion sort by an N-valued key (Rust's `sort_by` / `sort_by_key` are stable, and a
   sorted + stable arrangement of a list is unique), prefixes of sorted lists, range filters.
   The digest `H` is an argument with the law `forall x, H x < 2^256`; it is never an axiom and
   collision-freedom is never assumed.  Shared library; owner: C11. *)
From Coq Require Import List NArith Bool Lia Permutation Sorted.
Import ListNotations.
Open Scope N_scope.

(* ------------------------------------------------------------------ xor on bounded numbers *)

Lemma lxor_lt_pow2 a b n : a < 2 ^ n -> b < 2 ^ n -> N.lxor a b < 2 ^ n.
Proof.
  intros Ha Hb.
  destruct (N.eq_dec (N.lxor a b) 0) as [E|NE].
  - rewrite E. apply N.neq_0_lt_0. apply N.pow_nonzero. discriminate.
  - apply N.log2_lt_pow2; [apply N.neq_0_lt_0; exact NE|].
    eapply N.le_lt_trans; [apply N.log2_lxor|].
    assert (La : a <> 0 -> N.log2 a < n) by (intros; apply N.log2_lt_pow2; [apply N.neq_0_lt_0|]; assumption).
    assert (Lb : b <> 0 -> N.log2 b < n) by (intros; apply N.log2_lt_pow2; [apply N.neq_0_lt_0|]; assumption).
    destruct (N.eq_dec a 0) as [->|Na]; destruct (N.eq_dec b 0) as [->|Nb].
    + exfalso. apply NE. reflexivity.
    + change (N.log2 0) with 0. rewrite N.max_r by apply N.le_0_l. auto.
    + change (N.log2 0) with 0. rewrite N.max_l by apply N.le_0_l. auto.
    + apply N.max_lub_lt; auto.
Qed.

Lemma lxor_zero_iff a b : N.lxor a b = 0 <-> a = b.
Proof. apply N.lxor_eq_0_iff. Qed.

(* xor never exceeds the sum, hence the triangle inequality *)
Ltac bitwise :=
  apply N.bits_inj; intros ?n;
  repeat first [rewrite N.lxor_spec | rewrite N.land_spec | rewrite N.lor_spec | rewrite N.ldiff_spec
               | rewrite N.bits_0];
  repeat match goal with |- context [N.testbit ?x ?n] => destruct (N.testbit x n) end; reflexivity.

Lemma lxor_le_lor a b : N.lxor a b <= N.lor a b.
Proof.
  assert (D : N.land (N.lxor a b) (N.land a b) = 0) by bitwise.
  pose proof (N.add_nocarry_lxor _ _ D) as S.
  assert (E : N.lxor (N.lxor a b) (N.land a b) = N.lor a b) by bitwise.
  lia.
Qed.

Lemma lor_le_add a b : N.lor a b <= a + b.
Proof.
  assert (D1 : N.land a (N.ldiff b a) = 0) by bitwise.
  pose proof (N.add_nocarry_lxor _ _ D1) as S1.
  assert (E1 : N.lxor a (N.ldiff b a) = N.lor a b) by bitwise.
  assert (D2 : N.land (N.ldiff b a) (N.land b a) = 0) by bitwise.
  pose proof (N.add_nocarry_lxor _ _ D2) as S2.
  assert (E2 : N.lxor (N.ldiff b a) (N.land b a) = b) by bitwise.
  lia.
Qed.

Lemma lxor_le_add a b : N.lxor a b <= a + b.
Proof. pose proof (lxor_le_lor a b). pose proof (lor_le_add a b). lia. Qed.

Section Metric.
  Variable T : Type.
  Variable H : T -> N.
  Hypothesis H_bound : forall x, H x < 2 ^ 256.

  Definition xdist (a b : T) : N := N.lxor (H a) (H b).

  Lemma xdist_sym a b : xdist a b = xdist b a.
  Proof. apply N.lxor_comm. Qed.

  Lemma xdist_zero_iff a b : xdist a b = 0 <-> H a = H b.
  Proof. apply lxor_zero_iff. Qed.

  Lemma xdist_lt a b : xdist a b < 2 ^ 256.
  Proof. apply lxor_lt_pow2; apply H_bound. Qed.

  Lemma xdist_triangle a b c : xdist a c <= xdist a b + xdist b c.
  Proof.
    unfold xdist.
    replace (N.lxor (H a) (H c)) with (N.lxor (N.lxor (H a) (H b)) (N.lxor (H b) (H c))).
    - apply lxor_le_add.
    - rewrite N.lxor_assoc, <- (N.lxor_assoc (H b)), N.lxor_nilpotent, N.lxor_0_l. reflexivity.
  Qed.

  (* unidirectionality: for a given point and distance there is exactly one digest *)
  Lemma xdist_unique a b c : xdist a b = xdist a c -> H b = H c.
  Proof.
    unfold xdist. intros E.
    assert (E' : N.lxor (H a) (N.lxor (H a) (H b)) = N.lxor (H a) (N.lxor (H a) (H c))) by congruence.
    rewrite <- !N.lxor_assoc, N.lxor_nilpotent, !N.lxor_0_l in E'. exact E'.
  Qed.
End Metric.

(* ------------------------------------------------------------------ stable sort by an N key *)

Section Sort.
  Context {A : Type}.
  Variable key : A -> N.

  Fixpoint insert_by (x : A) (l : list A) : list A :=
    match l with
    | [] => [x]
    | y :: r => if key x <=? key y then x :: l else y :: insert_by x r
    end.

  (* insertion sort; an element is placed before the first strictly greater-or-equal one coming
     later in the input, i.e. equal keys keep their input order (stable) *)
  Definition sort_by (l : list A) : list A := fold_right insert_by [] l.

  Definition key_le (a b : A) : Prop := key a <= key b.
  Definition sorted_by (l : list A) : Prop := StronglySorted key_le l.
  Definition keyed (d : N) (l : list A) : list A := filter (fun x => key x =? d) l.

  Lemma insert_by_perm x l : Permutation (insert_by x l) (x :: l).
  Proof.
    induction l as [|y r IH]; cbn [insert_by]; [reflexivity|].
    destruct (key x <=? key y); [reflexivity|].
    rewrite IH. apply perm_swap.
  Qed.

  Lemma sort_by_perm l : Permutation (sort_by l) l.
  Proof.
    induction l as [|x r IH]; cbn [sort_by fold_right]; [reflexivity|].
    fold (sort_by r). rewrite insert_by_perm. constructor. exact IH.
  Qed.

  Lemma insert_by_sorted x l : sorted_by l -> sorted_by (insert_by x l).
  Proof.
    intros Hs. induction Hs as [|y r Hr IH Hy]; cbn [insert_by].
    - constructor; constructor.
    - destruct (N.leb_spec (key x) (key y)) as [Hle|Hgt].
      + constructor; [constructor; assumption|].
        constructor; [exact Hle|].
        rewrite Forall_forall in *. intros z Hz. specialize (Hy z Hz). unfold key_le in *. lia.
      + constructor; [exact IH|].
        rewrite Forall_forall in *. intros z Hz.
        apply (Permutation_in _ (insert_by_perm x r)) in Hz. destruct Hz as [<-|Hz].
        * unfold key_le. lia.
        * apply Hy. exact Hz.
  Qed.

  Lemma sort_by_sorted l : sorted_by (sort_by l).
  Proof.
    induction l as [|x r IH]; cbn [sort_by fold_right]; [constructor|].
    apply insert_by_sorted. exact IH.
  Qed.

  Lemma keyed_insert_by d x l : sorted_by l ->
    keyed d (insert_by x l) = keyed d (x :: l).
  Proof.
    intros Hs. induction Hs as [|y r Hr IH Hy]; cbn [insert_by]; [reflexivity|].
    destruct (N.leb_spec (key x) (key y)) as [Hle|Hgt]; [reflexivity|].
    unfold keyed in *. cbn [filter] in *. rewrite IH.
    destruct (N.eqb_spec (key x) d) as [Ex|Nx]; destruct (N.eqb_spec (key y) d) as [Ey|Ny];
      try reflexivity.
    exfalso. lia.
  Qed.

  (* stability: the elements with any given key appear in their input order *)
  Lemma sort_by_stable d l : keyed d (sort_by l) = keyed d l.
  Proof.
    induction l as [|x r IH]; cbn [sort_by fold_right]; [reflexivity|].
    fold (sort_by r). rewrite keyed_insert_by by apply sort_by_sorted.
    unfold keyed in *. cbn [filter]. rewrite IH. reflexivity.
  Qed.

  Lemma keyed_in d x l : In x (keyed d l) <-> In x l /\ key x = d.
  Proof. unfold keyed. rewrite filter_In, N.eqb_eq. reflexivity. Qed.

  (* a sorted list is determined by its per-key subsequences: any two stable sorts agree *)
  Lemma sorted_stable_unique l1 : forall l2, sorted_by l1 -> sorted_by l2 ->
    (forall d, keyed d l1 = keyed d l2) -> l1 = l2.
  Proof.
    induction l1 as [|x r1 IH]; intros l2 H1 H2 E.
    - destruct l2 as [|y r2]; [reflexivity|].
      specialize (E (key y)). unfold keyed in E. cbn [filter] in E.
      rewrite N.eqb_refl in E. discriminate.
    - destruct l2 as [|y r2].
      + specialize (E (key x)). unfold keyed in E. cbn [filter] in E.
        rewrite N.eqb_refl in E. discriminate.
      + inversion H1 as [|? ? Hr1 Hx]; subst. inversion H2 as [|? ? Hr2 Hy]; subst.
        rewrite Forall_forall in Hx, Hy.
        assert (Kxy : key x = key y).
        { assert (Ix : In x (keyed (key x) (y :: r2))).
          { rewrite <- E. apply keyed_in. split; [left; reflexivity|reflexivity]. }
          assert (Iy : In y (keyed (key y) (x :: r1))).
          { rewrite E. apply keyed_in. split; [left; reflexivity|reflexivity]. }
          apply keyed_in in Ix as [Ix _]. apply keyed_in in Iy as [Iy _].
          assert (key y <= key x) by (destruct Ix as [->|Ix]; [lia|apply (Hy _ Ix)]).
          assert (key x <= key y) by (destruct Iy as [->|Iy]; [lia|apply (Hx _ Iy)]).
          lia. }
        pose proof (E (key x)) as E0. unfold keyed in E0. cbn [filter] in E0.
        rewrite N.eqb_refl in E0. rewrite <- Kxy, N.eqb_refl in E0.
        injection E0 as Exy Etl. subst y. f_equal.
        apply IH; [assumption|assumption|].
        intros d. specialize (E d). unfold keyed in *. cbn [filter] in E.
        destruct (key x =? d); [injection E as E; exact E|exact E].
  Qed.

  Theorem sort_by_unique l l' : sorted_by l' -> (forall d, keyed d l' = keyed d l) ->
    l' = sort_by l.
  Proof.
    intros Hs He. apply sorted_stable_unique; [exact Hs|apply sort_by_sorted|].
    intros d. rewrite He, sort_by_stable. reflexivity.
  Qed.

  Lemma sort_by_length l : length (sort_by l) = length l.
  Proof. apply Permutation_length, sort_by_perm. Qed.

  Lemma sort_by_in x l : In x (sort_by l) <-> In x l.
  Proof.
    split; intros Hi.
    - eapply Permutation_in; [apply sort_by_perm|exact Hi].
    - eapply Permutation_in; [apply Permutation_sym, sort_by_perm|exact Hi].
  Qed.

  (* ---- the same sort with every key computed once (decorate, sort, undecorate): this is what
     the executable models run, and how sort_peers_by_key itself is written *)
  Definition decorate (x : A) : N * A := (key x, x).
  Fixpoint insert_dec (kx : N * A) (l : list (N * A)) : list (N * A) :=
    match l with
    | [] => [kx]
    | ky :: r => if fst kx <=? fst ky then kx :: l else ky :: insert_dec kx r
    end.
  Definition sort_on (l : list A) : list A :=
    map snd (fold_right insert_dec [] (map decorate l)).

  Lemma insert_dec_undecorate x L :
    map snd (insert_dec (decorate x) (map decorate L)) = insert_by x L.
  Proof.
    induction L as [|y r IH]; cbn [map insert_dec insert_by decorate fst snd]; [reflexivity|].
    destruct (key x <=? key y); cbn [map snd]; [|f_equal; exact IH].
    f_equal. f_equal. clear. induction r as [|z r IH]; cbn [map decorate snd]; [reflexivity|]. f_equal. exact IH.
  Qed.

  Lemma insert_dec_decorated x L :
    insert_dec (decorate x) (map decorate L) = map decorate (insert_by x L).
  Proof.
    induction L as [|y r IH]; cbn [map insert_dec insert_by decorate fst snd]; [reflexivity|].
    destruct (key x <=? key y); cbn [map decorate]; [reflexivity|]. f_equal. exact IH.
  Qed.

  Lemma sort_on_eq l : sort_on l = sort_by l.
  Proof.
    unfold sort_on.
    assert (G : fold_right insert_dec [] (map decorate l) = map decorate (sort_by l)).
    { induction l as [|x r IH]; cbn [map fold_right sort_by]; [reflexivity|].
      fold (sort_by r). rewrite IH. apply insert_dec_decorated. }
    rewrite G. rewrite map_map. cbn [decorate snd]. apply map_id.
  Qed.

  (* ---- prefixes of sorted lists *)

  Lemma sorted_by_app l1 l2 : sorted_by (l1 ++ l2) ->
    sorted_by l1 /\ sorted_by l2 /\ forall x y, In x l1 -> In y l2 -> key x <= key y.
  Proof.
    induction l1 as [|a r IH]; cbn [app]; intros Hs.
    - split; [constructor|]. split; [exact Hs|]. intros x y [].
    - inversion Hs as [|? ? Hr Ha]; subst. destruct (IH Hr) as (S1 & S2 & C).
      rewrite Forall_forall in Ha.
      split.
      + constructor; [exact S1|]. rewrite Forall_forall. intros z Hz. apply Ha. apply in_or_app. left. exact Hz.
      + split; [exact S2|]. intros x y [<-|Hx] Hy.
        * apply Ha. apply in_or_app. right. exact Hy.
        * apply C; assumption.
  Qed.

  Lemma sorted_firstn n l : sorted_by l -> sorted_by (firstn n l).
  Proof. intros Hs. rewrite <- (firstn_skipn n l) in Hs. apply sorted_by_app in Hs. tauto. Qed.

  Lemma sorted_firstn_le_skipn n l : sorted_by l ->
    forall x y, In x (firstn n l) -> In y (skipn n l) -> key x <= key y.
  Proof. intros Hs. rewrite <- (firstn_skipn n l) in Hs. apply sorted_by_app in Hs. tauto. Qed.

  (* ---- range filters *)

  Lemma filter_le_spec (r : N) l x :
    In x (filter (fun p => key p <=? r) l) <-> In x l /\ key x <= r.
  Proof. rewrite filter_In, N.leb_le. reflexivity. Qed.

  Lemma filter_lt_spec (r : N) l x :
    In x (filter (fun p => key p <? r) l) <-> In x l /\ key x < r.
  Proof. rewrite filter_In, N.ltb_lt. reflexivity. Qed.

  (* a filter keeps the input order: it is the subsequence of the elements satisfying the test *)
  Lemma filter_sorted (f : A -> bool) l : sorted_by l -> sorted_by (filter f l).
  Proof.
    intros Hs. induction Hs as [|y r Hr IH Hy]; cbn [filter]; [constructor|].
    destruct (f y); [|exact IH]. constructor; [exact IH|].
    rewrite Forall_forall in *. intros z Hz. apply filter_In in Hz. apply Hy. tauto.
  Qed.
End Sort.
