(* Helpers for the generated case files: the correspondence check evaluates, for every case the
   implementation ran, a boolean "model agrees with what the implementation returned". *)
From Coq Require Import List NArith Bool.
Import ListNotations.
Open Scope N_scope.

Fixpoint bad_from (i : N) (l : list bool) : list N :=
  match l with
  | [] => []
  | true :: r => bad_from (i + 1) r
  | false :: r => i :: bad_from (i + 1) r
  end.

Definition bad_indices (l : list bool) : list N := bad_from 0 l.
