(* CBOR as cbor4ii 0.3's serde serializer writes the serde data model (this is what libp2p's
   request_response::cbor codec puts on the wire for Request / Response), and a typed decoder.

   Encoder (`cbor_encode`), from cbor4ii-0.3.3/src/serde/ser.rs + core/enc.rs.  Every item starts
   with a head: major type (3 bits) and an argument written in the shortest of the forms
   inline (0..23), 1, 2, 4 or 8 following bytes.
     unsigned of every width -> major 0;  signed -> major 0 if >= 0, else major 1 with -1 - n;
     bytes -> major 2;  str / char -> major 3;  seq, tuple, tuple struct -> major 4 (definite length);
     map -> major 5;  STRUCT -> major 5 with the FIELD NAMES as text keys, in declaration order;
     unit variant -> the variant name as text;  newtype / tuple / struct variant -> a one-entry map
     { name : payload } (payload: the value / an array / a map of named fields);
     bool -> f4 / f5;  none -> f6 (null);  some v -> v;  unit and unit struct -> 80 (empty array);
     f32 -> fa + 4 bytes;  f64 -> fb + 8 bytes.
   Trees are recorded in "named" mode (harness rec::tree_named): a struct is VMap [VStr f1; v1; ...].

   Decoder (`cbor_decode_as`): heads are read in any of their forms (the real decoder accepts
   non-shortest heads too); otherwise only the canonical form: struct fields in declaration order,
   definite lengths. *)
From Coq Require Import List NArith ZArith Bool.
From V Require Import lib.Strs lib.Serde lib.Msgpack.
Import ListNotations.
Open Scope N_scope.

(* ---------- heads ---------- *)
Definition head (major n : N) : list N :=
  if n <? 24 then [major * 32 + n]
  else if n <? 256 then [major * 32 + 24; n]
  else if n <? 65536 then (major * 32 + 25) :: be_bytes 2 n
  else if n <? 4294967296 then (major * 32 + 26) :: be_bytes 4 n
  else (major * 32 + 27) :: be_bytes 8 n.

(* (major, argument, rest) *)
Definition dec_head (bs : list N) : option (N * N * list N) :=
  match bs with
  | [] => None
  | b :: r =>
      if 256 <=? b then None else
      let m := b / 32 in
      let i := b mod 32 in
      if i <? 24 then Some (m, i, r)
      else if i =? 24 then match read_be 1 r with Some (n, r') => Some (m, n, r') | None => None end
      else if i =? 25 then match read_be 2 r with Some (n, r') => Some (m, n, r') | None => None end
      else if i =? 26 then match read_be 4 r with Some (n, r') => Some (m, n, r') | None => None end
      else if i =? 27 then match read_be 8 r with Some (n, r') => Some (m, n, r') | None => None end
      else None                      (* 28..30 reserved, 31 indefinite length / break *)
  end.

(* a head of the expected major type *)
Definition dec_major (major : N) (bs : list N) : option (N * list N) :=
  match dec_head bs with
  | Some (m, n, r) => if m =? major then Some (n, r) else None
  | None => None
  end.

(* ---------- the encoder ---------- *)
Fixpoint cbor_encode (v : sval) : list N :=
  match v with
  | VBool b => [if b then 245 else 244]
  | VU _ n => head 0 n
  | VI _ z => if Z.leb 0 z then head 0 (Z.to_N z) else head 1 (Z.to_N (-1 - z))
  | VF32 x => 250 :: be_bytes 4 x
  | VF64 x => 251 :: be_bytes 8 x
  | VStr s => head 3 (len s) ++ s
  | VBytes b => head 2 (len b) ++ b
  | VNone => [246]
  | VSome v' => cbor_encode v'
  | VUnit => [128]
  | VUnitVariant n => head 3 (len n) ++ n
  | VVariant n v' => 161 :: (head 3 (len n) ++ n) ++ cbor_encode v'
  | VSeq l => head 4 (len l) ++ flat_map cbor_encode l
  | VTuple l => head 4 (len l) ++ flat_map cbor_encode l
  | VMap l => head 5 (len l / 2) ++ flat_map cbor_encode l
  end.

(* ---------- shapes (structs carry their field names) ---------- *)
Inductive cshape :=
| CBool
| CU (w : iw)
| CI (w : iw)
| CF32
| CF64
| CStr
| CBytes
| COption (s : cshape)
| CUnit
| CSeq (s : cshape)
| CTuple (l : list cshape)
| CStruct (names : list (list N)) (l : list cshape)
| CUnitVariant (name : list N)
| CVariant (name : list N) (s : cshape)
| CEnum (vs : list cshape)
| CMap (k v : cshape).

Section cshape_ind_nested.
  Variable P : cshape -> Prop.
  Hypothesis HBool : P CBool.
  Hypothesis HU : forall w, P (CU w).
  Hypothesis HI : forall w, P (CI w).
  Hypothesis HF32 : P CF32.
  Hypothesis HF64 : P CF64.
  Hypothesis HStr : P CStr.
  Hypothesis HBytes : P CBytes.
  Hypothesis HOption : forall s, P s -> P (COption s).
  Hypothesis HUnit : P CUnit.
  Hypothesis HSeq : forall s, P s -> P (CSeq s).
  Hypothesis HTuple : forall l, Forall P l -> P (CTuple l).
  Hypothesis HStruct : forall ns l, Forall P l -> P (CStruct ns l).
  Hypothesis HUnitVariant : forall n, P (CUnitVariant n).
  Hypothesis HVariant : forall n s, P s -> P (CVariant n s).
  Hypothesis HEnum : forall vs, Forall P vs -> P (CEnum vs).
  Hypothesis HMap : forall k v, P k -> P v -> P (CMap k v).

  Fixpoint cshape_ind_nested (s : cshape) : P s :=
    let go := fix go (l : list cshape) : Forall P l :=
                match l with
                | [] => Forall_nil P
                | x :: l' => Forall_cons x (cshape_ind_nested x) (go l')
                end in
    match s with
    | CBool => HBool
    | CU w => HU w
    | CI w => HI w
    | CF32 => HF32
    | CF64 => HF64
    | CStr => HStr
    | CBytes => HBytes
    | COption s' => HOption s' (cshape_ind_nested s')
    | CUnit => HUnit
    | CSeq s' => HSeq s' (cshape_ind_nested s')
    | CTuple l => HTuple l (go l)
    | CStruct ns l => HStruct ns l (go l)
    | CUnitVariant n => HUnitVariant n
    | CVariant n s' => HVariant n s' (cshape_ind_nested s')
    | CEnum vs => HEnum vs (go vs)
    | CMap k v => HMap k v (cshape_ind_nested k) (cshape_ind_nested v)
    end.
End cshape_ind_nested.

(* ---------- conformance ---------- *)
Definition cvariant_head (s : cshape) (v : sval) : option bool :=
  match s with
  | CUnitVariant n => Some (match v with VUnitVariant m => bytes_eqb n m | _ => false end)
  | CVariant n _ => Some (match v with VVariant m _ => bytes_eqb n m | _ => false end)
  | _ => None
  end.

(* fields of a struct value: VStr name_i, value_i alternating, names and order as declared *)
Fixpoint struct_ok (names : list (list N)) (fs : list (sval -> bool)) (l : list sval) : bool :=
  match names, fs, l with
  | [], [], [] => true
  | n :: names', f :: fs', VStr m :: x :: l' => bytes_eqb n m && f x && struct_ok names' fs' l'
  | _, _, _ => false
  end.

Fixpoint conforms (s : cshape) (v : sval) {struct s} : bool :=
  match s with
  | CBool => match v with VBool _ => true | _ => false end
  | CU w => match v with VU w' _ => iw_eqb w w' | _ => false end
  | CI w => match v with VI w' _ => iw_eqb w w' | _ => false end
  | CF32 => match v with VF32 _ => true | _ => false end
  | CF64 => match v with VF64 _ => true | _ => false end
  | CStr => match v with VStr _ => true | _ => false end
  | CBytes => match v with VBytes _ => true | _ => false end
  | COption s' => match v with VNone => true | VSome v' => conforms s' v' | _ => false end
  | CUnit => match v with VUnit => true | _ => false end
  | CSeq s' => match v with VSeq l => forallb (conforms s') l | _ => false end
  | CTuple ss => match v with VTuple l => all2b (map conforms ss) l | _ => false end
  | CStruct names ss => match v with VMap l => struct_ok names (map conforms ss) l | _ => false end
  | CUnitVariant n => match v with VUnitVariant m => bytes_eqb n m | _ => false end
  | CVariant n s' => match v with VVariant m v' => bytes_eqb n m && conforms s' v' | _ => false end
  | CEnum vs => first_match (map (fun s1 => (cvariant_head s1 v, conforms s1 v)) vs)
  | CMap sk sv => match v with VMap l => alt_all (conforms sk) (conforms sv) l | _ => false end
  end.

(* ---------- well-formed trees ---------- *)
Definition cbytes_ok (l : list N) : bool := wf_bytes l && (len l <? 2 ^ 64).

(* `Some x` is written as x: an x whose encoding starts with null reads back as `None` *)
Definition starts_null (v : sval) : bool :=
  match cbor_encode v with [] => true | b :: _ => b =? 246 end.

Fixpoint cwf (v : sval) : bool :=
  match v with
  | VBool _ => true
  | VU w n => in_u w n
  | VI w z => in_i w z
  | VF32 x => x <? 2 ^ 32
  | VF64 x => x <? 2 ^ 64
  | VStr s => cbytes_ok s && utf8_valid s
  | VBytes b => cbytes_ok b
  | VNone => true
  | VSome v' => cwf v' && negb (starts_null v')
  | VUnit => true
  | VUnitVariant n => cbytes_ok n
  | VVariant n v' => cbytes_ok n && cwf v'
  | VSeq l => (len l <? 2 ^ 64) && forallb cwf l
  | VTuple l => (len l <? 2 ^ 64) && forallb cwf l
  | VMap l => (len l / 2 <? 2 ^ 64) && forallb cwf l
  end.

(* ---------- the typed decoder ---------- *)
Definition expect_text (n : list N) (bs : list N) : option (list N) :=
  match dec_major 3 bs with
  | Some (k, r) =>
      match take_n k r with
      | Some (s, r') => if bytes_eqb s n then Some r' else None
      | None => None
      end
  | None => None
  end.

(* struct fields in declaration order: key then value; yields VStr name :: value :: ... *)
Fixpoint dec_fields (names : list (list N)) (ds : list decoder) (r : list N) : option (list sval * list N) :=
  match names, ds with
  | [], [] => Some ([], r)
  | n :: names', d :: ds' =>
      match expect_text n r with
      | Some r1 =>
          match d r1 with
          | Some (v, r2) =>
              match dec_fields names' ds' r2 with
              | Some (l, r3) => Some (VStr n :: v :: l, r3)
              | None => None
              end
          | None => None
          end
      | None => None
      end
  | _, _ => None
  end.

Fixpoint cbor_decode_as (s : cshape) (bs : list N) {struct s} : option (sval * list N) :=
  match s with
  | CBool =>
      match bs with
      | b :: r => if b =? 244 then Some (VBool false, r)
                  else if b =? 245 then Some (VBool true, r) else None
      | [] => None
      end
  | CU w =>
      match dec_major 0 bs with
      | Some (n, r) => if in_u w n then Some (VU w n, r) else None
      | None => None
      end
  | CI w =>
      match dec_head bs with
      | Some (m, n, r) =>
          if m =? 0 then (if in_i w (Z.of_N n) then Some (VI w (Z.of_N n), r) else None)
          else if m =? 1 then (if in_i w (-1 - Z.of_N n)%Z then Some (VI w (-1 - Z.of_N n)%Z, r) else None)
          else None
      | None => None
      end
  | CF32 =>
      match bs with
      | b :: r => if b =? 250 then
                    match read_be 4 r with Some (x, r') => Some (VF32 x, r') | None => None end
                  else None
      | [] => None
      end
  | CF64 =>
      match bs with
      | b :: r => if b =? 251 then
                    match read_be 8 r with Some (x, r') => Some (VF64 x, r') | None => None end
                  else None
      | [] => None
      end
  | CStr =>
      match dec_major 3 bs with
      | Some (k, r) =>
          match take_n k r with
          | Some (x, r') => if utf8_valid x then Some (VStr x, r') else None
          | None => None
          end
      | None => None
      end
  | CBytes =>
      match dec_major 2 bs with
      | Some (k, r) =>
          match take_n k r with
          | Some (x, r') => Some (VBytes x, r')
          | None => None
          end
      | None => None
      end
  | COption s' =>
      match bs with
      | b :: r =>
          if b =? 246 then Some (VNone, r)
          else match cbor_decode_as s' bs with Some (v, r') => Some (VSome v, r') | None => None end
      | [] => None
      end
  | CUnit =>
      match bs with
      | b :: r => if b =? 128 then Some (VUnit, r) else None
      | [] => None
      end
  | CSeq s' =>
      match dec_major 4 bs with
      | Some (n, r) =>
          if len r <? n then None
          else match dec_many (cbor_decode_as s') (N.to_nat n) r with
               | Some (l, r') => Some (VSeq l, r')
               | None => None
               end
      | None => None
      end
  | CTuple ss =>
      match dec_major 4 bs with
      | Some (n, r) =>
          if negb (n =? len ss) then None
          else match dec_each (map cbor_decode_as ss) r with
               | Some (l, r') => Some (VTuple l, r')
               | None => None
               end
      | None => None
      end
  | CStruct names ss =>
      match dec_major 5 bs with
      | Some (n, r) =>
          if negb (n =? len ss) then None
          else match dec_fields names (map cbor_decode_as ss) r with
               | Some (l, r') => Some (VMap l, r')
               | None => None
               end
      | None => None
      end
  | CUnitVariant n =>
      match expect_text n bs with
      | Some r => Some (VUnitVariant n, r)
      | None => None
      end
  | CVariant n s' =>
      match dec_major 5 bs with
      | Some (k, r) =>
          if negb (k =? 1) then None
          else match expect_text n r with
               | Some r1 =>
                   match cbor_decode_as s' r1 with
                   | Some (v, r2) => Some (VVariant n v, r2)
                   | None => None
                   end
               | None => None
               end
      | None => None
      end
  | CEnum vs => dec_alt (map cbor_decode_as vs) bs
  | CMap sk sv =>
      match dec_major 5 bs with
      | Some (n, r) =>
          if len r <? 2 * n then None
          else match dec_many2 (cbor_decode_as sk) (cbor_decode_as sv) (N.to_nat n) r with
               | Some (l, r') => Some (VMap l, r')
               | None => None
               end
      | None => None
      end
  end.

(* whole-buffer decoding; cbor4ii::serde::from_slice does not inspect trailing bytes either *)
Definition cbor_from_slice (s : cshape) (bs : list N) : option sval :=
  match cbor_decode_as s bs with Some (v, _) => Some v | None => None end.

(* ---------- names on the wire (for the tables regenerated from the source) ---------- *)
Fixpoint variant_names (vs : list cshape) : list (list N) :=
  match vs with
  | [] => []
  | CUnitVariant n :: r => n :: variant_names r
  | CVariant n _ :: r => n :: variant_names r
  | _ :: r => variant_names r
  end.

Definition enum_names (s : cshape) : list (list N) :=
  match s with CEnum vs => variant_names vs | _ => [] end.

(* field names of a struct shape, or of the struct payload of variant `v` of an enum shape *)
Definition struct_names (s : cshape) : list (list N) :=
  match s with CStruct ns _ => ns | _ => [] end.

Fixpoint variant_payload (v : list N) (vs : list cshape) : cshape :=
  match vs with
  | [] => CUnit
  | CVariant n s :: r => if bytes_eqb n v then s else variant_payload v r
  | _ :: r => variant_payload v r
  end.

Definition variant_fields (s : cshape) (v : list N) : list (list N) :=
  match s with CEnum vs => struct_names (variant_payload v vs) | _ => [] end.

(* ---------- agreement helper ---------- *)
Definition agree_cbor (s : cshape) (v : sval) (impl : list N) : bool :=
  conforms s v && cwf v && bytes_eqb (cbor_encode v) impl &&
  match cbor_decode_as s impl with
  | Some (v', r) => sval_eqb v v' && match r with [] => true | _ => false end
  | None => false
  end.
