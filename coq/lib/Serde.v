(* The serde data model as a tree (`sval`), the shapes a typed decoder is driven by (`shape`),
   conformance `has_shape`, and well-formedness `wf` (numeric ranges, byte ranges, lengths that fit
   the 32-bit length prefixes, UTF-8 text).

   The Rust harness records, for a Rust value x, the calls x's `Serialize` impl makes on a
   `serde::Serializer` (crate harness/crates/c12, module `rec`).  The recorded tree is normalised
   exactly as rmp-serde's compact mode cannot tell apart anyway:
     serialize_newtype_struct n v          -> the tree of v
     serialize_tuple / tuple_struct / struct / unit_struct -> VTuple fields   (unit_struct = VTuple [])
     serialize_tuple_variant / struct_variant n fields     -> VVariant n (VTuple fields)
     serialize_char c                      -> VStr (utf-8 of c)
     serialize_map                         -> VMap [k1; v1; k2; v2; ...]
   Everything else is one constructor per serde call. *)
From Coq Require Import List NArith ZArith Bool.
From V Require Import lib.Strs.
Import ListNotations.
Open Scope N_scope.

Inductive iw := W8 | W16 | W32 | W64.

Definition iw_bits (w : iw) : N := match w with W8 => 8 | W16 => 16 | W32 => 32 | W64 => 64 end.
Definition iw_eqb (a b : iw) : bool :=
  match a, b with W8, W8 | W16, W16 | W32, W32 | W64, W64 => true | _, _ => false end.

Inductive sval :=
| VBool (b : bool)
| VU (w : iw) (n : N)              (* serialize_u8 .. serialize_u64 *)
| VI (w : iw) (z : Z)              (* serialize_i8 .. serialize_i64 *)
| VF32 (bits : N)                  (* IEEE bit pattern *)
| VF64 (bits : N)
| VStr (s : list N)                (* UTF-8 bytes *)
| VBytes (b : list N)
| VNone
| VSome (v : sval)
| VUnit
| VUnitVariant (name : list N)
| VVariant (name : list N) (v : sval)     (* newtype / tuple / struct variant *)
| VSeq (l : list sval)
| VTuple (l : list sval)
| VMap (l : list sval).                   (* alternating keys and values *)

Inductive shape :=
| SBool
| SU (w : iw)
| SI (w : iw)
| SF32
| SF64
| SStr
| SBytes
| SOption (s : shape)
| SUnit
| SSeq (s : shape)
| STuple (l : list shape)
| SUnitVariant (name : list N)
| SVariant (name : list N) (s : shape)
| SEnum (vs : list shape)                 (* alternatives: SUnitVariant / SVariant only *)
| SMap (k v : shape).

(* ---- induction principles that reach through the nested lists ---- *)
Section shape_rect_nested.
  Variable P : shape -> Prop.
  Hypothesis HBool : P SBool.
  Hypothesis HU : forall w, P (SU w).
  Hypothesis HI : forall w, P (SI w).
  Hypothesis HF32 : P SF32.
  Hypothesis HF64 : P SF64.
  Hypothesis HStr : P SStr.
  Hypothesis HBytes : P SBytes.
  Hypothesis HOption : forall s, P s -> P (SOption s).
  Hypothesis HUnit : P SUnit.
  Hypothesis HSeq : forall s, P s -> P (SSeq s).
  Hypothesis HTuple : forall l, Forall P l -> P (STuple l).
  Hypothesis HUnitVariant : forall n, P (SUnitVariant n).
  Hypothesis HVariant : forall n s, P s -> P (SVariant n s).
  Hypothesis HEnum : forall vs, Forall P vs -> P (SEnum vs).
  Hypothesis HMap : forall k v, P k -> P v -> P (SMap k v).

  Fixpoint shape_ind_nested (s : shape) : P s :=
    match s with
    | SBool => HBool
    | SU w => HU w
    | SI w => HI w
    | SF32 => HF32
    | SF64 => HF64
    | SStr => HStr
    | SBytes => HBytes
    | SOption s' => HOption s' (shape_ind_nested s')
    | SUnit => HUnit
    | SSeq s' => HSeq s' (shape_ind_nested s')
    | STuple l =>
        HTuple l ((fix go (l : list shape) : Forall P l :=
                     match l with
                     | [] => Forall_nil P
                     | x :: l' => Forall_cons x (shape_ind_nested x) (go l')
                     end) l)
    | SUnitVariant n => HUnitVariant n
    | SVariant n s' => HVariant n s' (shape_ind_nested s')
    | SEnum vs =>
        HEnum vs ((fix go (l : list shape) : Forall P l :=
                     match l with
                     | [] => Forall_nil P
                     | x :: l' => Forall_cons x (shape_ind_nested x) (go l')
                     end) vs)
    | SMap k v => HMap k v (shape_ind_nested k) (shape_ind_nested v)
    end.
End shape_rect_nested.

Section sval_rect_nested.
  Variable P : sval -> Prop.
  Hypothesis HBool : forall b, P (VBool b).
  Hypothesis HU : forall w n, P (VU w n).
  Hypothesis HI : forall w z, P (VI w z).
  Hypothesis HF32 : forall x, P (VF32 x).
  Hypothesis HF64 : forall x, P (VF64 x).
  Hypothesis HStr : forall s, P (VStr s).
  Hypothesis HBytes : forall s, P (VBytes s).
  Hypothesis HNone : P VNone.
  Hypothesis HSome : forall v, P v -> P (VSome v).
  Hypothesis HUnit : P VUnit.
  Hypothesis HUnitVariant : forall n, P (VUnitVariant n).
  Hypothesis HVariant : forall n v, P v -> P (VVariant n v).
  Hypothesis HSeq : forall l, Forall P l -> P (VSeq l).
  Hypothesis HTuple : forall l, Forall P l -> P (VTuple l).
  Hypothesis HMap : forall l, Forall P l -> P (VMap l).

  Fixpoint sval_ind_nested (v : sval) : P v :=
    let go := fix go (l : list sval) : Forall P l :=
                match l with
                | [] => Forall_nil P
                | x :: l' => Forall_cons x (sval_ind_nested x) (go l')
                end in
    match v with
    | VBool b => HBool b
    | VU w n => HU w n
    | VI w z => HI w z
    | VF32 x => HF32 x
    | VF64 x => HF64 x
    | VStr s => HStr s
    | VBytes s => HBytes s
    | VNone => HNone
    | VSome v' => HSome v' (sval_ind_nested v')
    | VUnit => HUnit
    | VUnitVariant n => HUnitVariant n
    | VVariant n v' => HVariant n v' (sval_ind_nested v')
    | VSeq l => HSeq l (go l)
    | VTuple l => HTuple l (go l)
    | VMap l => HMap l (go l)
    end.
End sval_rect_nested.

(* ---- decidable equality on trees (used by the agreement terms) ---- *)
Fixpoint sval_eqb (a b : sval) {struct a} : bool :=
  match a, b with
  | VBool x, VBool y => Bool.eqb x y
  | VU w x, VU w' y => iw_eqb w w' && (x =? y)
  | VI w x, VI w' y => iw_eqb w w' && Z.eqb x y
  | VF32 x, VF32 y => x =? y
  | VF64 x, VF64 y => x =? y
  | VStr x, VStr y => bytes_eqb x y
  | VBytes x, VBytes y => bytes_eqb x y
  | VNone, VNone => true
  | VSome x, VSome y => sval_eqb x y
  | VUnit, VUnit => true
  | VUnitVariant n, VUnitVariant m => bytes_eqb n m
  | VVariant n x, VVariant m y => bytes_eqb n m && sval_eqb x y
  | VSeq l, VSeq l' =>
      (fix go (l l' : list sval) : bool :=
         match l, l' with
         | [], [] => true
         | x :: r, y :: r' => sval_eqb x y && go r r'
         | _, _ => false
         end) l l'
  | VTuple l, VTuple l' =>
      (fix go (l l' : list sval) : bool :=
         match l, l' with
         | [], [] => true
         | x :: r, y :: r' => sval_eqb x y && go r r'
         | _, _ => false
         end) l l'
  | VMap l, VMap l' =>
      (fix go (l l' : list sval) : bool :=
         match l, l' with
         | [], [] => true
         | x :: r, y :: r' => sval_eqb x y && go r r'
         | _, _ => false
         end) l l'
  | _, _ => false
  end.

(* equality up to order and multiplicity inside sequences: a decoder that collects a sequence into
   an ordered set (BTreeSet) hands back the same elements sorted and de-duplicated *)
Fixpoint sval_sim (a b : sval) {struct a} : bool :=
  match a, b with
  | VSome x, VSome y => sval_sim x y
  | VVariant n x, VVariant m y => bytes_eqb n m && sval_sim x y
  | VSeq l, VSeq l' =>
      forallb (fun x => existsb (fun y => sval_sim x y) l') l &&
      forallb (fun y => existsb (fun x => sval_sim x y) l) l'
  | VTuple l, VTuple l' =>
      (fix go (l l' : list sval) : bool :=
         match l, l' with
         | [], [] => true
         | x :: r, y :: r' => sval_sim x y && go r r'
         | _, _ => false
         end) l l'
  | VMap l, VMap l' =>
      (fix go (l l' : list sval) : bool :=
         match l, l' with
         | [], [] => true
         | x :: r, y :: r' => sval_sim x y && go r r'
         | _, _ => false
         end) l l'
  | _, _ => sval_eqb a b
  end.

(* ---- UTF-8 validity as `core::str::from_utf8` decides it (no overlong forms, no surrogates,
        nothing above U+10FFFF) ---- *)
Definition is_cont (b : N) : bool := (128 <=? b) && (b <=? 191).

Fixpoint utf8_fuel (fuel : nat) (l : list N) : bool :=
  match fuel with
  | O => match l with [] => true | _ => false end
  | S f =>
      match l with
      | [] => true
      | b0 :: r =>
          if b0 <? 128 then utf8_fuel f r
          else if (194 <=? b0) && (b0 <=? 223) then
            match r with b1 :: r' => is_cont b1 && utf8_fuel f r' | _ => false end
          else if (224 <=? b0) && (b0 <=? 239) then
            match r with
            | b1 :: b2 :: r' =>
                (if b0 =? 224 then (160 <=? b1) && (b1 <=? 191)
                 else if b0 =? 237 then (128 <=? b1) && (b1 <=? 159)
                 else is_cont b1) && is_cont b2 && utf8_fuel f r'
            | _ => false
            end
          else if (240 <=? b0) && (b0 <=? 244) then
            match r with
            | b1 :: b2 :: b3 :: r' =>
                (if b0 =? 240 then (144 <=? b1) && (b1 <=? 191)
                 else if b0 =? 244 then (128 <=? b1) && (b1 <=? 143)
                 else is_cont b1) && is_cont b2 && is_cont b3 && utf8_fuel f r'
            | _ => false
            end
          else false
      end
  end.
Definition utf8_valid (l : list N) : bool := utf8_fuel (length l) l.

(* ---- lengths as N without building big nats on the way ---- *)
Definition len {A} (l : list A) : N := N.of_nat (length l).

Definition LEN_MAX : N := 2 ^ 32.           (* rmp writes lengths as u32 *)

Definition in_u (w : iw) (n : N) : bool := n <? 2 ^ iw_bits w.
Definition in_i (w : iw) (z : Z) : bool :=
  (Z.leb (- 2 ^ (Z.of_N (iw_bits w) - 1)) z && Z.ltb z (2 ^ (Z.of_N (iw_bits w) - 1)))%Z.

(* ---- conformance of a tree to a shape ---- *)
Definition variant_head (s : shape) (v : sval) : option bool :=
  (* Some true: same variant kind and name; Some false: a variant shape of another name/kind;
     None: s is not a variant shape *)
  match s with
  | SUnitVariant n =>
      Some (match v with VUnitVariant m => bytes_eqb n m | _ => false end)
  | SVariant n _ =>
      Some (match v with VVariant m _ => bytes_eqb n m | _ => false end)
  | _ => None
  end.

Fixpoint all2b (fs : list (sval -> bool)) (l : list sval) : bool :=
  match fs, l with
  | [], [] => true
  | f :: fs', x :: l' => f x && all2b fs' l'
  | _, _ => false
  end.

Fixpoint alt_all (f g : sval -> bool) (l : list sval) : bool :=
  match l with
  | [] => true
  | k :: x :: l' => f k && g x && alt_all f g l'
  | _ => false
  end.

(* alternatives of an enum: the first one whose kind and name match decides *)
Fixpoint first_match (l : list (option bool * bool)) : bool :=
  match l with
  | [] => false
  | (None, _) :: _ => false
  | (Some true, r) :: _ => r
  | (Some false, _) :: l' => first_match l'
  end.

Fixpoint has_shape (s : shape) (v : sval) {struct s} : bool :=
  match s with
  | SBool => match v with VBool _ => true | _ => false end
  | SU w => match v with VU w' _ => iw_eqb w w' | _ => false end
  | SI w => match v with VI w' _ => iw_eqb w w' | _ => false end
  | SF32 => match v with VF32 _ => true | _ => false end
  | SF64 => match v with VF64 _ => true | _ => false end
  | SStr => match v with VStr _ => true | _ => false end
  | SBytes => match v with VBytes _ => true | _ => false end
  | SOption s' => match v with VNone => true | VSome v' => has_shape s' v' | _ => false end
  | SUnit => match v with VUnit => true | _ => false end
  | SSeq s' => match v with VSeq l => forallb (has_shape s') l | _ => false end
  | STuple ss => match v with VTuple l => all2b (map has_shape ss) l | _ => false end
  | SUnitVariant n => match v with VUnitVariant m => bytes_eqb n m | _ => false end
  | SVariant n s' => match v with VVariant m v' => bytes_eqb n m && has_shape s' v' | _ => false end
  | SEnum vs => first_match (map (fun s1 => (variant_head s1 v, has_shape s1 v)) vs)
  | SMap sk sv => match v with VMap l => alt_all (has_shape sk) (has_shape sv) l | _ => false end
  end.

(* ---- well-formed trees: what a Rust value of the corresponding type can produce ---- *)
Definition bytes_ok (l : list N) : bool := wf_bytes l && (len l <? LEN_MAX).
