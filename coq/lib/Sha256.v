(* Executable SHA-256 (FIPS 180-4) over byte lists (`list N`, each < 256), digest as one N
   (the 32 digest bytes read big-endian).  Independent of the Rust `sha2` crate: validated against
   the FIPS example vectors below (vm_compute) and against Python's hashlib on every check run.
   Shared library; owner: C11. *)
From Coq Require Import List NArith Lia.
Import ListNotations.
Open Scope N_scope.

Definition M32 : N := 4294967295.
Definition add32 (a b : N) : N := N.land (a + b) M32.
Definition rotr (n x : N) : N := N.lor (N.shiftr x n) (N.land (N.shiftl x (32 - n)) M32).
Definition not32 (x : N) : N := N.lxor x M32.

Definition ch (x y z : N) : N := N.lxor (N.land x y) (N.land (not32 x) z).
Definition maj (x y z : N) : N := N.lxor (N.lxor (N.land x y) (N.land x z)) (N.land y z).
Definition bsig0 (x : N) : N := N.lxor (N.lxor (rotr 2 x) (rotr 13 x)) (rotr 22 x).
Definition bsig1 (x : N) : N := N.lxor (N.lxor (rotr 6 x) (rotr 11 x)) (rotr 25 x).
Definition ssig0 (x : N) : N := N.lxor (N.lxor (rotr 7 x) (rotr 18 x)) (N.shiftr x 3).
Definition ssig1 (x : N) : N := N.lxor (N.lxor (rotr 17 x) (rotr 19 x)) (N.shiftr x 10).

Definition K256 : list N :=
  [1116352408; 1899447441; 3049323471; 3921009573; 961987163; 1508970993; 2453635748; 2870763221;
   3624381080; 310598401; 607225278; 1426881987; 1925078388; 2162078206; 2614888103; 3248222580;
   3835390401; 4022224774; 264347078; 604807628; 770255983; 1249150122; 1555081692; 1996064986;
   2554220882; 2821834349; 2952996808; 3210313671; 3336571891; 3584528711; 113926993; 338241895;
   666307205; 773529912; 1294757372; 1396182291; 1695183700; 1986661051; 2177026350; 2456956037;
   2730485921; 2820302411; 3259730800; 3345764771; 3516065817; 3600352804; 4094571909; 275423344;
   430227734; 506948616; 659060556; 883997877; 958139571; 1322822218; 1537002063; 1747873779;
   1955562222; 2024104815; 2227730452; 2361852424; 2428436474; 2756734187; 3204031479; 3329325298].

Record st := St { sa : N; sb : N; sc : N; sd : N; se : N; sf : N; sg : N; sh : N }.

Definition IV : st :=
  St 1779033703 3144134277 1013904242 2773480762 1359893119 2600822924 528734635 1541459225.

Definition round (s : st) (k w : N) : st :=
  let t1 := add32 (add32 (add32 (sh s) (bsig1 (se s))) (ch (se s) (sf s) (sg s))) (add32 k w) in
  let t2 := add32 (bsig0 (sa s)) (maj (sa s) (sb s) (sc s)) in
  St (add32 t1 t2) (sa s) (sb s) (sc s) (add32 (sd s) t1) (se s) (sf s) (sg s).

(* ws is the sliding window W[t..t+15] of the message schedule *)
Fixpoint rounds (ks ws : list N) (s : st) : st :=
  match ks with
  | [] => s
  | k :: ks' =>
      match ws with
      | [] => s
      | w0 :: tl =>
          let wn := add32 (add32 (ssig1 (nth 13 tl 0)) (nth 8 tl 0)) (add32 (ssig0 (nth 0 tl 0)) w0) in
          rounds ks' (tl ++ [wn]) (round s k w0)
      end
  end.

Definition st_add (x y : st) : st :=
  St (add32 (sa x) (sa y)) (add32 (sb x) (sb y)) (add32 (sc x) (sc y)) (add32 (sd x) (sd y))
     (add32 (se x) (se y)) (add32 (sf x) (sf y)) (add32 (sg x) (sg y)) (add32 (sh x) (sh y)).

(* one 16-word block *)
Definition compress (s : st) (block : list N) : st := st_add s (rounds K256 block s).

Fixpoint be_words (bs : list N) : list N :=
  match bs with
  | b0 :: b1 :: b2 :: b3 :: r => (((b0 * 256 + b1) * 256 + b2) * 256 + b3) :: be_words r
  | _ => []
  end.

Fixpoint process (fuel : nat) (ws : list N) (s : st) : st :=
  match fuel with
  | O => s
  | S f =>
      match ws with
      | [] => s
      | _ => process f (skipn 16 ws) (compress s (firstn 16 ws))
      end
  end.

Definition be64 (n : N) : list N :=
  map (fun i => N.land (N.shiftr n (8 * i)) 255) [7; 6; 5; 4; 3; 2; 1; 0].

Definition pad (msg : list N) : list N :=
  let len := N.of_nat (length msg) in
  let k := (64 - (len + 9) mod 64) mod 64 in
  msg ++ 128 :: repeat 0 (N.to_nat k) ++ be64 (8 * len).

Definition digest_of (s : st) : N :=
  fold_left (fun acc w => acc * 4294967296 + w)
            [sa s; sb s; sc s; sd s; se s; sf s; sg s; sh s] 0.

Definition sha256_state (msg : list N) : st :=
  let ws := be_words (pad msg) in process (S (Nat.div (length ws) 16)) ws IV.

(* the digest as a 256-bit big-endian integer *)
Definition sha256 (msg : list N) : N := digest_of (sha256_state msg).

(* big-endian value of a byte string, and the 32 digest bytes *)
Definition be_val (bs : list N) : N := fold_left (fun acc b => acc * 256 + b) bs 0.
Definition be_bytes32 (n : N) : list N :=
  map (fun i => N.land (N.shiftr n (8 * N.of_nat i)) 255) (rev (seq 0 32)).
Definition sha256_bytes (msg : list N) : list N := be_bytes32 (sha256 msg).

(* ------------------------------------------------------------------ validation vectors *)


(* FIPS 180-4 / NIST example: "abc" *)
Example sha256_abc :
  sha256 [97; 98; 99] = 0xba7816bf8f01cfea414140de5dae2223b00361a396177a9cb410ff61f20015ad.
Proof. vm_compute. reflexivity. Qed.

(* the empty message *)
Example sha256_empty :
  sha256 [] = 0xe3b0c44298fc1c149afbf4c8996fb92427ae41e4649b934ca495991b7852b855.
Proof. vm_compute. reflexivity. Qed.

(* NIST two-block example: "abcdbcdecdefdefgefghfghighijhijkijkljklmklmnlmnomnopnopq" (448 bits) *)
Example sha256_448 :
  sha256 [97;98;99;100; 98;99;100;101; 99;100;101;102; 100;101;102;103; 101;102;103;104;
          102;103;104;105; 103;104;105;106; 104;105;106;107; 105;106;107;108; 106;107;108;109;
          107;108;109;110; 108;109;110;111; 109;110;111;112; 110;111;112;113]
  = 0x248d6a61d20638b8e5c026930c3e6039a33ce45964ff2167f6ecedd419db06c1.
Proof. vm_compute. reflexivity. Qed.

(* NIST 896-bit example:
   "abcdefghbcdefghicdefghijdefghijkefghijklfghijklmghijklmnhijklmnoijklmnopjklmnopqklmnopqrlmnopqrsmnopqrstnopqrstu" *)
Example sha256_896 :
  sha256 (flat_map (fun i => map (fun j => 97 + i + j) [0;1;2;3;4;5;6;7])
                   [0;1;2;3;4;5;6;7;8;9;10;11;12;13])
  = 0xcf5b16a778af8380036ce59e7b0492370b249b11e8f07a51afac45037afee9d1.
Proof. vm_compute. reflexivity. Qed.

(* padding boundaries: 55, 56 and 64 bytes of 'a' *)
Example sha256_a55 :
  sha256 (repeat 97 55) = 0x9f4390f8d30c2dd92ec9f095b65e2b9ae9b0a925a5258e241c9f1e910f734318.
Proof. vm_compute. reflexivity. Qed.
Example sha256_a56 :
  sha256 (repeat 97 56) = 0xb35439a4ac6f0948b6d6f9e3c6af0f5f590ce20f1bde7090ef7970686ec6738a.
Proof. vm_compute. reflexivity. Qed.
Example sha256_a64 :
  sha256 (repeat 97 64) = 0xffe054fe7ae0cb6dc65c3af9b61d5209f439851db43d0ba5997337df154668eb.
Proof. vm_compute. reflexivity. Qed.

(* ------------------------------------------------------------------ the digest fits 256 bits *)

Lemma add32_lt a b : add32 a b < 4294967296.
Proof.
  unfold add32, M32. change 4294967295 with (N.ones 32). rewrite N.land_ones.
  apply N.mod_lt. discriminate.
Qed.

Definition wf_st (s : st) : Prop :=
  sa s < 4294967296 /\ sb s < 4294967296 /\ sc s < 4294967296 /\ sd s < 4294967296 /\
  se s < 4294967296 /\ sf s < 4294967296 /\ sg s < 4294967296 /\ sh s < 4294967296.

Lemma wf_compress s b : wf_st (compress s b).
Proof. unfold compress, st_add, wf_st; cbn [sa sb sc sd se sf sg sh]. repeat split; apply add32_lt. Qed.

Lemma wf_IV : wf_st IV.
Proof. unfold wf_st, IV; cbn [sa sb sc sd se sf sg sh]. repeat split; reflexivity. Qed.

Lemma wf_process fuel : forall ws s, wf_st s -> wf_st (process fuel ws s).
Proof.
  induction fuel as [|f IH]; intros ws s Hs; cbn [process]; [assumption|].
  destruct ws as [|w r]; [assumption|]. apply IH. apply wf_compress.
Qed.

Lemma digest_of_lt s : wf_st s -> digest_of s < 2 ^ 256.
Proof.
  unfold wf_st, digest_of. cbn [fold_left]. intros (Ha & Hb & Hc & Hd & He & Hf & Hg & Hh).
  change (2 ^ 256) with
    (4294967296 * (4294967296 * (4294967296 * (4294967296 * (4294967296 * (4294967296 * (4294967296 * 4294967296))))))).
  remember 4294967296 as P eqn:EP.
  assert (HP : 0 < P) by (subst P; reflexivity).
  assert (step : forall acc w B, acc < B -> w < P -> acc * P + w < B * P) by (intros; nia).
  rewrite N.mul_0_l, N.add_0_l.
  repeat rewrite (N.mul_comm P).
  repeat (apply step; [|assumption]). assumption.
Qed.

Theorem sha256_lt : forall msg, sha256 msg < 2 ^ 256.
Proof. intros msg. apply digest_of_lt. apply wf_process. apply wf_IV. Qed.
