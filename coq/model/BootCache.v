(* C18 (and the cache-file part of C17) -- model of ant-bootstrap: cache_store.rs, lib.rs, config.rs.

   peers      : association list  peer id  |->  list of address records (the HashMap of the code; its
                iteration order is never relied upon: where the code's result depends on it -- ties in
                try_remove_oldest_peers -- there is an acceptor next to the function)
   time       : an explicit clock `now`, nanoseconds since the epoch (SystemTime in the code)
   addresses  : protocol lists (model/Parsers.v), made by craft_valid_multiaddr
   files      : the JSON codec is a pair of functions (enc, dec) passed as arguments (oracle)
   arithmetic : u32 counters; failure_rate's `success + failure` is modelled with the debug-build
                overflow in `rate_key_unfixed` (F22) and widened in `rate_key` (after the fix). *)
From Coq Require Import List NArith String Ascii Bool.
From V Require Import lib.Strs gen.Consts model.Parsers.
Import ListNotations.
Open Scope N_scope.

Definition addr := list proto.
Definition addr_eqb : addr -> addr -> bool := list_eqb proto_eqb.

Record arec := { a_addr : addr; a_s : N; a_f : N; a_seen : N }.
Definition arec_eqb (x y : arec) : bool :=
  addr_eqb (a_addr x) (a_addr y) && (a_s x =? a_s y) && (a_f x =? a_f y) && (a_seen x =? a_seen y).
Definition peer := string.
Definition cache := list (peer * list arec).

Record config := { max_peers : N; max_addrs : N; expiry : N (* ns *) }.
Definition default_config : config :=
  {| max_peers := Consts.boot_max_peers; max_addrs := Consts.boot_max_addrs_per_peer;
     expiry := Consts.boot_addr_expiry_secs * 1000000000 |}.

Definition U32MAX : N := 4294967295.

(* ------------------------------------------------------------------ BootstrapAddr *)
Definition fresh (a : addr) (now : N) : arec := {| a_addr := a; a_s := 0; a_f := 0; a_seen := now |}.
Definition with_seen (r : arec) (t : N) : arec :=
  {| a_addr := a_addr r; a_s := a_s r; a_f := a_f r; a_seen := t |}.

(* update_status: checked_add with reset *)
Definition update_status (success : bool) (now : N) (r : arec) : arec :=
  if success then
    if a_s r + 1 <=? U32MAX then {| a_addr := a_addr r; a_s := a_s r + 1; a_f := a_f r; a_seen := now |}
    else {| a_addr := a_addr r; a_s := 1; a_f := 0; a_seen := now |}
  else
    if a_f r + 1 <=? U32MAX then {| a_addr := a_addr r; a_s := a_s r; a_f := a_f r + 1; a_seen := now |}
    else {| a_addr := a_addr r; a_s := 0; a_f := 1; a_seen := now |}.

Definition reliable (r : arec) : bool := a_f r <=? a_s r.

Definition sat_add (a b : N) : N := N.min (a + b) U32MAX.

(* BootstrapAddr::sync: equal last_seen => nothing; saturating add, reset at the maximum *)
Definition arec_sync (self other : arec) : arec :=
  if a_seen self =? a_seen other then self else
  let s := sat_add (a_s self) (a_s other) in
  let f := sat_add (a_f self) (a_f other) in
  let sf := if s =? U32MAX then (1, 0) else if f =? U32MAX then (0, 1) else (s, f) in
  {| a_addr := a_addr self; a_s := fst sf; a_f := snd sf; a_seen := N.max (a_seen self) (a_seen other) |}.

(* NOT the code: the same merge with plain `+=` on the u32 counters -- kept only for `sync_wrapping_refuted`:
   the debug build panics, the release build wraps, when a counter of the file entry is near u32::MAX *)
Definition arec_sync_unchecked (m : arith_mode) (self other : arec) : outcome arec :=
  if a_seen self =? a_seen other then Ok self else
  bind (add_w m U32 (a_s self) (a_s other)) (fun s =>
  bind (add_w m U32 (a_f self) (a_f other)) (fun f =>
  let sf := if s =? U32MAX then (1, 0) else if f =? U32MAX then (0, 1) else (s, f) in
  Ok {| a_addr := a_addr self; a_s := fst sf; a_f := snd sf; a_seen := N.max (a_seen self) (a_seen other) |})).

(* failure_rate() as u64, used as sort key.
   unfixed: `self.success_count + self.failure_count` in u32 *)
Definition rate_key_unfixed (m : arith_mode) (r : arec) : outcome N :=
  bind (add_w m U32 (a_s r) (a_f r)) (fun t => if t =? 0 then Ok 0 else Ok (a_f r / t)).
(* fixed: the sum is taken in u64, so the rate is f/(s+f) in [0,1]; the cast truncates: 1 only when
   every attempt failed *)
Definition rate_key (r : arec) : N :=
  if a_s r + a_f r =? 0 then 0 else a_f r / (a_s r + a_f r).

(* ------------------------------------------------------------------ BootstrapAddresses *)
Definition has (l : list arec) (a : addr) : bool := existsb (fun r => addr_eqb (a_addr r) a) l.
Definition get_addr (l : list arec) (a : addr) : option arec := find (fun r => addr_eqb (a_addr r) a) l.

(* apply f to the first record with address a (get_addr_mut + mutation) *)
Fixpoint upd_first (f : arec -> arec) (a : addr) (l : list arec) : list arec :=
  match l with
  | [] => []
  | r :: t => if addr_eqb (a_addr r) a then f r :: t else r :: upd_first f a t
  end.

Fixpoint remove_first (a : addr) (l : list arec) : list arec :=
  match l with
  | [] => []
  | r :: t => if addr_eqb (a_addr r) a then t else r :: remove_first a t
  end.

Definition insert_addr (l : list arec) (x : arec) : list arec :=
  if has l (a_addr x) then upd_first (fun r => arec_sync r x) (a_addr x) l else l ++ [x].

Definition addrs_sync (self other : list arec) : list arec := fold_left insert_addr other self.

(* ------------------------------------------------------------------ CacheData *)
Fixpoint lookup (c : cache) (p : peer) : option (list arec) :=
  match c with
  | [] => None
  | (q, l) :: t => if String.eqb q p then Some l else lookup t p
  end.

Fixpoint set_peer (c : cache) (p : peer) (l : list arec) : cache :=
  match c with
  | [] => [(p, l)]
  | (q, l0) :: t => if String.eqb q p then (q, l) :: t else (q, l0) :: set_peer t p l
  end.

Definition cache_insert (c : cache) (p : peer) (x : arec) : cache :=
  match lookup c p with
  | Some l => set_peer c p (insert_addr l x)
  | None => set_peer c p [x]
  end.

(* CacheData::sync: entry(peer).or_insert(other.clone()), then sync with other *)
Definition sync_peer (acc : cache) (po : peer * list arec) : cache :=
  let (p, oa) := po in
  match lookup acc p with
  | Some sa => set_peer acc p (addrs_sync sa oa)
  | None => set_peer acc p (addrs_sync oa oa)
  end.
Definition cache_sync (self other : cache) : cache := fold_left sync_peer other self.

(* ---- perform_cleanup *)
(* `now.duration_since(last_seen)`: Err for a last_seen in the future (=> expired), never a panic;
   no SystemTime addition is involved, so a last_seen near the largest representable time is harmless *)
Definition unexpired (cfg : config) (now : N) (r : arec) : bool :=
  match st_duration_since now (a_seen r) with
  | Ok d => d <? expiry cfg
  | _ => false
  end.

(* NOT the code: the same test written with an addition (`last_seen + expiry`), which panics near the end
   of the representable time -- kept only for `expiry_by_addition_refuted` *)
Definition unexpired_by_addition (cfg : config) (now : N) (r : arec) : outcome bool :=
  bind (st_add (a_seen r) (expiry cfg)) (fun expires_at => Ok ((a_seen r <=? now) && (now <? expires_at))).
Definition keep (cfg : config) (now : N) (r : arec) : bool := reliable r && unexpired cfg now r.

(* stable insertion sort by key (slice::sort_by_key is stable) *)
Fixpoint insert_by {A} (key : A -> N) (x : A) (l : list A) : list A :=
  match l with
  | [] => [x]
  | y :: t => if key y <=? key x then y :: insert_by key x t else x :: y :: t
  end.
(* elements are inserted left to right and each goes after the already placed elements with a key
   <= its own, so equal keys keep their original order *)
Definition stable_sort_by_key {A} (key : A -> N) (l : list A) : list A :=
  fold_left (fun acc x => insert_by key x acc) l [].

Definition truncate_addrs (cfg : config) (l : list arec) : list arec :=
  if max_addrs cfg <? len l then firstn (N.to_nat (max_addrs cfg)) (stable_sort_by_key rate_key l) else l.

Definition truncate_addrs_unfixed (m : arith_mode) (cfg : config) (l : list arec) : outcome (list arec) :=
  if max_addrs cfg <? len l then
    (* the keys are computed for every element; any overflow aborts the whole call *)
    if existsb (fun r => is_panic (rate_key_unfixed m r)) l then Panic
    else Ok (firstn (N.to_nat (max_addrs cfg))
               (stable_sort_by_key (fun r => match rate_key_unfixed m r with Ok k => k | _ => 0 end) l))
  else Ok l.

(* age of a peer as try_remove_oldest_peers computes it: the smallest elapsed time over its addresses
   whose last_seen is not in the future; Duration::from_secs(u64::MAX) when there is none *)
Definition AGE_INF : N := 18446744073709551615 * 1000000000.
Definition peer_age (now : N) (l : list arec) : N :=
  fold_left (fun acc r => match st_duration_since now (a_seen r) with      (* last_seen.elapsed() *)
                          | Ok d => N.min acc d
                          | _ => acc
                          end) l AGE_INF.

(* Iterator::max_by_key returns the last of equal maxima: the peer removed in one round of the loop is
   the last one (in iteration order) whose age equals the maximum age *)
Definition max_age (now : N) (c : cache) : N :=
  fold_right (fun pl m => N.max (peer_age now (snd pl)) m) 0 c.

Fixpoint remove_last_where {A} (f : A -> bool) (l : list A) : list A :=
  match l with
  | [] => []
  | x :: t => if existsb f t then x :: remove_last_where f t else if f x then t else x :: t
  end.

Definition remove_one_oldest (now : N) (c : cache) : cache :=
  remove_last_where (fun pl => peer_age now (snd pl) =? max_age now c) c.

Fixpoint remove_oldest_n (now : N) (k : nat) (c : cache) : cache :=
  match k with
  | O => c
  | S k' => remove_oldest_n now k' (remove_one_oldest now c)
  end.

(* try_remove_oldest_peers, for the iteration order given by the list *)
Definition try_remove_oldest (cfg : config) (now : N) (c : cache) : cache :=
  if max_peers cfg <? len c then remove_oldest_n now (List.length c - N.to_nat (max_peers cfg)) c else c.

(* acceptor for any iteration order: `post` keeps a sub-list of `pre` of the right size and nothing
   kept is older than something removed *)
Definition kept_in (pre post : cache) : bool :=
  forallb (fun pl => existsb (fun ql => String.eqb (fst pl) (fst ql) &&
                                        list_eqb arec_eqb (snd pl) (snd ql)) pre) post.
Definition removed_of (pre post : cache) : cache :=
  filter (fun pl => negb (existsb (fun ql => String.eqb (fst pl) (fst ql)) post)) pre.
(* `tol`: the code reads the clock once per address, so ages that differ by less than the time the
   loop takes can compare either way; 0 for constructed times *)
Definition remove_oldest_ok (cfg : config) (now tol : N) (pre post : cache) : bool :=
  kept_in pre post &&
  (len post =? N.min (len pre) (max_peers cfg)) &&
  forallb (fun rm => forallb (fun kp => peer_age now (snd kp) <=? peer_age now (snd rm) + tol) post)
          (removed_of pre post).

Definition clean_peers (cfg : config) (now : N) (c : cache) : cache :=
  filter (fun pl => negb (match snd pl with [] => true | _ => false end))
         (map (fun pl => (fst pl, filter (keep cfg now) (snd pl))) c).

Definition perform_cleanup (cfg : config) (now : N) (c : cache) : cache :=
  try_remove_oldest cfg now
    (map (fun pl => (fst pl, truncate_addrs cfg (snd pl))) (clean_peers cfg now c)).

Fixpoint map_outcome {A B} (f : A -> outcome B) (l : list A) : outcome (list B) :=
  match l with
  | [] => Ok []
  | x :: t => bind (f x) (fun y => bind (map_outcome f t) (fun ys => Ok (y :: ys)))
  end.

Definition perform_cleanup_unfixed (m : arith_mode) (cfg : config) (now : N) (c : cache) : outcome cache :=
  bind (map_outcome (fun pl => bind (truncate_addrs_unfixed m cfg (snd pl)) (fun l => Ok (fst pl, l)))
                    (clean_peers cfg now c))
       (fun c' => Ok (try_remove_oldest cfg now c')).

(* ------------------------------------------------------------------ BootstrapCacheStore *)
Definition peer_of (a : addr) : option peer :=
  match find is_p2p a with Some (P2p id) => Some id | _ => None end.

(* add_addr up to the point where it either returns or runs the clean-up (second component) *)
Definition add_addr_core (now : N) (c : cache) (raw : addr) : cache * bool :=
  match craft raw false with
  | None => (c, false)
  | Some a =>
      match peer_of a with
      | None => (c, false)
      | Some p =>
          match lookup c p with
          | Some l =>
              if has l a then (set_peer c p (upd_first (fun r => with_seen r now) a l), false)   (* touch, no clean-up *)
              else (set_peer c p (insert_addr l {| a_addr := a; a_s := 1; a_f := 0; a_seen := now |}), true)
          | None => (set_peer c p [{| a_addr := a; a_s := 1; a_f := 0; a_seen := now |}], true)
          end
      end
  end.

Definition add_addr (cfg : config) (now : N) (c : cache) (raw : addr) : cache :=
  let r := add_addr_core now c raw in
  if snd r then perform_cleanup cfg now (fst r) else fst r.

Definition update_addr_status (now : N) (c : cache) (a : addr) (success : bool) : cache :=
  match peer_of a with
  | None => c
  | Some p =>
      match lookup c p with
      | Some l => set_peer c p (upd_first (update_status success now) a l)
      | None => c
      end
  end.

Definition remove_addr (c : cache) (a : addr) : cache :=
  match peer_of a with
  | None => c
  | Some p => match lookup c p with Some l => set_peer c p (remove_first a l) | None => c end
  end.

(* ---- histories: every operation carries the clock value at which it runs *)
Inductive op :=
| OpAdd (raw : addr) | OpStatus (a : addr) (ok : bool) | OpRemove (a : addr)
| OpSync (other : cache) | OpCleanup.

Definition step (cfg : config) (c : cache) (t : N * op) : cache :=
  match snd t with
  | OpAdd raw => add_addr cfg (fst t) c raw
  | OpStatus a ok => update_addr_status (fst t) c a ok
  | OpRemove a => remove_addr c a
  | OpSync other => cache_sync c other
  | OpCleanup => perform_cleanup cfg (fst t) c
  end.
Definition run (cfg : config) (ops : list (N * op)) (c : cache) : cache := fold_left (step cfg) ops c.

Definition is_sync (o : op) : bool := match o with OpSync _ => true | _ => false end.

(* NOT the code: a parse-failure log line that shows the first 64 bytes of the file by slicing the text --
   kept only for `log_head_slice_refuted` (str slicing panics off a char boundary) *)
Definition log_head (contents : string) : outcome string := str_slice contents 0 (N.min (slen contents) 64).

(* ---- persistence.  file = None: no file (or unreadable); dec t = None: not a cache file *)
Definition load_cache (dec : string -> option cache) (cfg : config) (now : N) (file : option string)
  : outcome cache :=
  match file with
  | None => Err 1
  | Some t => match dec t with None => Err 2 | Some c => Ok (perform_cleanup cfg now c) end
  end.

Definition load_cache_unfixed (m : arith_mode) (dec : string -> option cache) (cfg : config) (now : N)
           (file : option string) : outcome cache :=
  match file with
  | None => Err 1
  | Some t => match dec t with None => Err 2 | Some c => perform_cleanup_unfixed m cfg now c end
  end.

(* sync_and_flush_to_disk(with_cleanup): returns the in-memory cache afterwards and the new file *)
Definition sync_and_flush (enc : cache -> string) (dec : string -> option cache) (cfg : config) (now : N)
           (with_cleanup : bool) (mem : cache) (file : option string) : cache * option string :=
  let merged := match load_cache dec cfg now file with Ok d => cache_sync mem d | _ => mem end in
  let out := if with_cleanup
             then try_remove_oldest cfg now (perform_cleanup cfg now merged) else merged in
  ([], Some (enc out)).

(* ---- the store object and its constructors.  The store keeps the cache file's path twice: `cache_path`
   (copied from the config in `new`, used by write()) and `config.cache_file_path` (used by load / merge). *)
Record store := { st_cache_path : string; st_cfg_path : string; st_disable : bool; st_mem : cache }.
Definition files := list (string * cache).          (* path |-> what the file decodes to *)

Fixpoint fs_get (fs : files) (p : string) : option cache :=
  match fs with [] => None | (q, c) :: t => if String.eqb q p then Some c else fs_get t p end.
Fixpoint fs_set (fs : files) (p : string) (c : cache) : files :=
  match fs with
  | [] => [(p, c)]
  | (q, c0) :: t => if String.eqb q p then (q, c) :: t else (q, c0) :: fs_set t p c
  end.

(* BootstrapCacheStore::new(config) *)
Definition store_new (cfg_path : string) : store :=
  {| st_cache_path := cfg_path; st_cfg_path := cfg_path; st_disable := false; st_mem := [] |}.

(* PeersArgs as far as the constructor reads them; pa_dir: the cache file inside bootstrap_cache_dir *)
Record peers_args := { pa_first : bool; pa_local : bool; pa_dir : option string }.

(* BootstrapCacheStore::new_from_peers_args(peers_args, config): the directory override is applied to the
   config BEFORE the store is constructed; `first` writes an empty cache; `local` disables writing *)
Definition store_from_peers_args (default_path : string) (config_path : option string) (pa : peers_args)
           (fs : files) : store * files :=
  let p0 := match config_path with Some p => p | None => default_path end in
  let p := match pa_dir pa with Some d => d | None => p0 end in
  let st := store_new p in
  let fs' := if pa_first pa then fs_set fs (st_cache_path st) [] else fs in
  ({| st_cache_path := st_cache_path st; st_cfg_path := st_cfg_path st; st_disable := pa_local pa; st_mem := [] |}, fs').

(* NOT the code: the override applied to the store's config after construction -- kept only for
   `late_override_refuted`: write() keeps using the path copied earlier *)
Definition store_from_peers_args_late (default_path : string) (config_path : option string) (pa : peers_args)
           (fs : files) : store * files :=
  let p0 := match config_path with Some p => p | None => default_path end in
  let st := store_new p0 in
  let cfgp := match pa_dir pa with Some d => d | None => p0 end in
  let fs' := if pa_first pa then fs_set fs (st_cache_path st) [] else fs in
  ({| st_cache_path := st_cache_path st; st_cfg_path := cfgp; st_disable := pa_local pa; st_mem := [] |}, fs').

Definition store_add (cfg : config) (now : N) (st : store) (raw : addr) : store :=
  {| st_cache_path := st_cache_path st; st_cfg_path := st_cfg_path st; st_disable := st_disable st;
     st_mem := add_addr cfg now (st_mem st) raw |}.

(* write(): the file at cache_path is replaced by the in-memory cache, whatever it held and also when the
   in-memory cache is empty (that is how `first` wipes the cache of a previous network) *)
Definition store_write (st : store) (fs : files) : files := fs_set fs (st_cache_path st) (st_mem st).

(* NOT the code: a write() that leaves an existing file alone when there is nothing in memory -- kept only for
   `write_skip_empty_refuted` *)
Definition store_write_skip_empty (st : store) (fs : files) : files :=
  match st_mem st, fs_get fs (st_cache_path st) with
  | [], Some _ => fs
  | _, _ => fs_set fs (st_cache_path st) (st_mem st)
  end.

(* sync_and_flush_to_disk(true) on the store: reads config.cache_file_path, writes cache_path *)
Definition store_flush (cfg : config) (now : N) (st : store) (fs : files) : store * files :=
  if st_disable st then (st, fs) else
  let merged := match fs_get fs (st_cfg_path st) with
                | Some d => cache_sync (st_mem st) (perform_cleanup cfg now d)
                | None => st_mem st
                end in
  let out := try_remove_oldest cfg now (perform_cleanup cfg now merged) in
  ({| st_cache_path := st_cache_path st; st_cfg_path := st_cfg_path st; st_disable := st_disable st; st_mem := [] |},
   fs_set fs (st_cache_path st) out).

(* load_cache_data(store.config()) *)
Definition store_load (cfg : config) (now : N) (st : store) (fs : files) : option cache :=
  match fs_get fs (st_cfg_path st) with Some d => Some (perform_cleanup cfg now d) | None => None end.

(* ---- the file system step semantics used for `atomic_replace`:
   a writer streams its text into a private temporary file and then renames it over the target;
   rename replaces the target in one step (the stated premise: POSIX rename atomicity, distinct
   temporary names per writer as AtomicWriteFile provides) *)
Inductive fs_step := WriteChunk (w : nat) (chunk : string) | Commit (w : nat).
Record fs := { target : option string; temps : list (nat * string) }.

Fixpoint temp_of (ts : list (nat * string)) (w : nat) : string :=
  match ts with
  | [] => EmptyString
  | (v, s) :: t => if Nat.eqb v w then s else temp_of t w
  end.
Fixpoint set_temp (ts : list (nat * string)) (w : nat) (s : string) : list (nat * string) :=
  match ts with
  | [] => [(w, s)]
  | (v, s0) :: t => if Nat.eqb v w then (v, s) :: t else (v, s0) :: set_temp t w s
  end.

Definition fs_do (st : fs) (s : fs_step) : fs :=
  match s with
  | WriteChunk w chunk => {| target := target st; temps := set_temp (temps st) w (append (temp_of (temps st) w) chunk) |}
  | Commit w => {| target := Some (temp_of (temps st) w); temps := set_temp (temps st) w EmptyString |}
  end.

(* the same writers without the temporary file: chunks go straight into the target (what a plain
   File::create + write would do) -- used only for the contrast lemma *)
Definition fs_do_inplace (st : fs) (s : fs_step) : fs :=
  match s with
  | WriteChunk w chunk =>
      {| target := Some (append (match target st with Some t => t | None => EmptyString end) chunk);
         temps := temps st |}
  | Commit _ => st
  end.

Definition run_fs (st : fs) (steps : list fs_step) : fs := fold_left fs_do steps st.

(* what writer w has streamed since its last commit (a property of the writers' own programs, not of
   the interleaving) *)
Fixpoint pending_acc (w : nat) (acc : string) (steps : list fs_step) : string :=
  match steps with
  | [] => acc
  | WriteChunk v ch :: t => pending_acc w (if Nat.eqb v w then append acc ch else acc) t
  | Commit v :: t => pending_acc w (if Nat.eqb v w then EmptyString else acc) t
  end.
Definition pending (w : nat) (steps : list fs_step) : string := pending_acc w EmptyString steps.

(* ------------------------------------------------------------------ agreement helpers *)
(* map equality against an implementation dump (peers sorted by the harness, per-peer order kept) *)
Definition cache_sub (a b : cache) : bool :=
  forallb (fun pl => match lookup b (fst pl) with
                     | Some l => list_eqb arec_eqb (snd pl) l
                     | None => false
                     end) a.
Definition cache_eqb (a b : cache) : bool := (len a =? len b) && cache_sub a b && cache_sub b a.

(* the store's dump (get_all_addrs) cannot show a peer whose last address was removed *)
Definition drop_empty (c : cache) : cache :=
  filter (fun pl => negb (match snd pl with [] => true | _ => false end)) c.
Definition mem_eqb (a b : cache) : bool := cache_eqb (drop_empty a) (drop_empty b).

Definition all_wf_b (c : cache) : bool :=
  forallb (fun pl => forallb (fun r => wf_addr (a_addr r)) (snd pl)) c.

Definition bounded_b (cfg : config) (c : cache) : bool :=
  (len c <=? max_peers cfg) && forallb (fun pl => len (snd pl) <=? max_addrs cfg) c.

(* perform_cleanup against an implementation dump: exact when no peer had to be evicted, otherwise the
   implementation's choice is checked with the acceptor *)
Definition cleanup_agree (cfg : config) (now tol : N) (c impl : cache) : bool :=
  let pre := map (fun pl => (fst pl, truncate_addrs cfg (snd pl))) (clean_peers cfg now c) in
  remove_oldest_ok cfg now tol pre impl &&
  (if len pre <=? max_peers cfg then cache_eqb pre impl else true).

(* load_cache_data on a file whose decoding is `data` (None: serde rejected it).
   kind: 0 Ok, 1 Err, 2 Panic.  `Unfixed m`: the clean-up with the u32 sum in failure_rate under debug
   (panic) or release (wrap: the sort keys, hence the truncation, can differ) arithmetic. *)
Definition agree_load (v : variant) (cfg : config) (now : N) (present : bool) (data : option cache)
           (kind : N) (impl : cache) : bool :=
  match present, data with
  | true, Some c =>
      match v with
      | Fixed => (kind =? 0) && cleanup_agree cfg now 0 c impl
      | Unfixed m =>
          match map_outcome (fun pl => bind (truncate_addrs_unfixed m cfg (snd pl)) (fun l => Ok (fst pl, l)))
                            (clean_peers cfg now c) with
          | Panic => kind =? 2
          | Err _ => false
          | Ok pre => (kind =? 0) && remove_oldest_ok cfg now 0 pre impl &&
                      (if len pre <=? max_peers cfg then cache_eqb pre impl else true)
          end
      end
  | _, _ => kind =? 1
  end.

(* ---- histories on CacheData values (constructed times; one clock for the whole case).
   Lock-step: the state a step starts from is the implementation's dump after the previous step. *)
Inductive dstep :=
| DInsert (slot : nat) (p : peer) (r : arec) | DSync (slot other : nat)
| DCleanup (slot : nat) | DRemoveOldest (slot : nat).

Fixpoint set_nth {A} (n : nat) (x : A) (l : list A) : list A :=
  match l, n with
  | [], _ => []
  | _ :: t, O => x :: t
  | y :: t, S k => y :: set_nth k x t
  end.

Definition dstep_slot (s : dstep) : nat :=
  match s with DInsert i _ _ => i | DSync i _ => i | DCleanup i => i | DRemoveOldest i => i end.

Definition dstep_ok (cfg : config) (now : N) (slots : list cache) (s : dstep) (post : cache) : bool :=
  match s with
  | DInsert i p r => cache_eqb (cache_insert (nth i slots []) p r) post
  | DSync i j => cache_eqb (cache_sync (nth i slots []) (nth j slots [])) post
  | DCleanup i => cleanup_agree cfg now 0 (nth i slots []) post
  | DRemoveOldest i =>
      remove_oldest_ok cfg now 0 (nth i slots []) post &&
      (if len (nth i slots []) <=? max_peers cfg then cache_eqb (nth i slots []) post else true)
  end.

Fixpoint agree_dtrace (cfg : config) (now : N) (slots : list cache) (tr : list (dstep * cache)) : bool :=
  match tr with
  | [] => true
  | (s, post) :: rest =>
      dstep_ok cfg now slots s post && agree_dtrace cfg now (set_nth (dstep_slot s) post slots) rest
  end.

(* ---- histories on the store with a cache file (real clock: every step carries its own `now`) *)
Inductive fstate := FAbsent | FCorrupt | FCache (c : cache).
Inductive sstep :=
| SAdd (raw : option addr)                 (* None: the text did not parse as a multiaddress *)
| SStatus (a : option addr) (ok : bool) | SRemove (a : option addr) | SCleanup
| SSetFile (f : fstate)                    (* another process / a foreign file replaces the cache file *)
| SFlush (with_cleanup : bool) | SLoad | SNop.

(* what the implementation showed after the step: the store, the file (after writes), the load result *)
Record sobs := { o_mem : cache; o_file : fstate; o_loaded : option cache }.

Definition file_load (cfg : config) (now : N) (f : fstate) : outcome cache :=
  match f with
  | FAbsent => load_cache (fun _ => None) cfg now None
  | FCorrupt => load_cache (fun _ => None) cfg now (Some EmptyString)
  | FCache c => load_cache (fun _ => Some c) cfg now (Some EmptyString)
  end.

Definition fstate_cache (f : fstate) : cache := match f with FCache c => c | _ => [] end.
Definition is_fcache (f : fstate) : bool := match f with FCache _ => true | _ => false end.

Definition sstep_ok (cfg : config) (tol : N) (mem : cache) (file : fstate) (t : N * sstep) (o : sobs) : bool :=
  let now := fst t in
  match snd t with
  | SAdd None => mem_eqb mem (o_mem o)
  | SAdd (Some raw) =>
      let r := add_addr_core now mem raw in
      if snd r then cleanup_agree cfg now tol (fst r) (o_mem o) else mem_eqb (fst r) (o_mem o)
  | SStatus None _ | SRemove None | SNop => mem_eqb mem (o_mem o)
  | SStatus (Some a) ok => mem_eqb (update_addr_status now mem a ok) (o_mem o)
  | SRemove (Some a) => mem_eqb (remove_addr mem a) (o_mem o)
  | SCleanup => cleanup_agree cfg now tol mem (o_mem o)
  | SSetFile _ => mem_eqb mem (o_mem o)
  | SFlush wc =>
      let merged := match file_load cfg now file with Ok d => cache_sync mem d | _ => mem end in
      cache_eqb [] (o_mem o) && is_fcache (o_file o) &&
      (if wc then cleanup_agree cfg now tol merged (fstate_cache (o_file o))
       else mem_eqb merged (fstate_cache (o_file o)))     (* an emptied peer is written with no address *)
  | SLoad =>
      mem_eqb mem (o_mem o) &&
      match file, o_loaded o with
      | FCache c, Some l => cleanup_agree cfg now tol c l
      | FCache _, None => false
      | _, Some _ => false
      | _, None => true
      end
  end.

Fixpoint agree_strace (cfg : config) (tol : N) (mem : cache) (file : fstate)
         (tr : list ((N * sstep) * sobs)) : bool :=
  match tr with
  | [] => true
  | (t, o) :: rest =>
      sstep_ok cfg tol mem file t o &&
      agree_strace cfg tol (o_mem o)
        (match snd t with SSetFile f => f | SFlush _ => o_file o | _ => file end) rest
  end.

(* ---- constructors: which path the store reports, which files the construction and the flush changed, which
   peers a store constructed the same way loads back.  ctor_new: BootstrapCacheStore::new, otherwise
   new_from_peers_args.  Paths are the labels "config" / "custom" / "default". *)
Definition sorted_keys_eqb (a b : list string) : bool :=
  (len a =? len b) && forallb (fun k => existsb (String.eqb k) b) a && forallb (fun k => existsb (String.eqb k) a) b.

Definition agree_ctor (cfg : config) (now : N) (ctor_new : bool) (config_path : option string) (pa : peers_args)
           (fs0 : files) (adds : list addr)
           (impl_path : string) (impl_disabled : bool) (changed_build changed_flush : list string)
           (impl_reload : option (list string)) : bool :=
  let built := if ctor_new
               then (store_new (match config_path with Some p => p | None => "default"%string end), fs0)
               else store_from_peers_args "default" config_path pa fs0 in
  let st := fst built in
  let fs1 := snd built in
  let st1 := fold_left (store_add cfg now) adds st in
  let flushed := store_flush cfg now st1 fs1 in
  let fs2 := snd flushed in
  (* the second, identically constructed store *)
  let rebuilt := if ctor_new then (st, fs2)
                 else store_from_peers_args "default" config_path
                        {| pa_first := false; pa_local := pa_local pa; pa_dir := pa_dir pa |} fs2 in
  String.eqb (st_cfg_path st) impl_path && Bool.eqb (st_disable st) impl_disabled &&
  sorted_keys_eqb (if (negb ctor_new) && pa_first pa then [st_cache_path st] else []) changed_build &&
  sorted_keys_eqb (if st_disable st then [] else [st_cache_path st]) changed_flush &&
  match store_load cfg now (fst rebuilt) (snd rebuilt), impl_reload with
  | Some c, Some ks => sorted_keys_eqb (map fst c) ks
  | None, None => true
  | _, _ => false
  end.

(* a sequence of write()s of freshly built stores on one path; after each the implementation's load shows `loaded`.
   Addresses are compared as the sorted texts the harness reports. *)
Fixpoint agree_cache_saves (prev : option (list string)) (steps : list (list string * list string)) : bool :=
  match steps with
  | [] => true
  | (written, loaded) :: rest =>
      (* write() replaces the whole content: what is loaded is what was written, whatever `prev` was *)
      list_eqb String.eqb written loaded && agree_cache_saves (Some written) rest
  end.
