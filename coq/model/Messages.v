(* Shapes of the request/response messages of ant-protocol (messages.rs, messages/{cmd,query,response}.rs,
   lib.rs NetworkAddress, error.rs, storage/header.rs RecordType) and of the types they contain, as
   the CBOR codec sees them: structs and struct variants are maps keyed by FIELD NAME, enums are
   externally tagged by VARIANT NAME -- both are part of the wire format.  The name tables below are
   compared with tables regenerated from the source (proofs/Messages.v, props/C12.v). *)
From Coq Require Import List NArith String.
From V Require Import lib.Strs lib.Serde lib.Msgpack lib.Cbor.
Import ListNotations.
Open Scope N_scope.

Definition nm (s : string) : list N := codes s.
Definition nms (l : list string) : list (list N) := map codes l.

Definition C_U8S (n : nat) : cshape := CTuple (repeat (CU W8) n).
Definition C_XOR : cshape := C_U8S 32.                 (* XorName / [u8; 32] *)
Definition C_PK : cshape := C_U8S 48.                  (* bls::PublicKey *)
Definition C_VEC_U8 : cshape := CSeq (CU W8).          (* Vec<u8>, &[u8] *)

Definition c_register_address : cshape := CStruct (nms ["meta"; "owner"]%string) [C_XOR; C_PK].
Definition c_scratchpad_address : cshape := CStruct (nms ["owner"]%string) [C_PK].

Definition c_network_address : cshape :=
  CEnum [CVariant (nm "PeerId") CBytes;
         CVariant (nm "ChunkAddress") C_XOR;
         CVariant (nm "TransactionAddress") C_XOR;
         CVariant (nm "RegisterAddress") c_register_address;
         CVariant (nm "RecordKey") CBytes;
         CVariant (nm "ScratchpadAddress") c_scratchpad_address].

Definition c_record_type : cshape :=
  CEnum [CUnitVariant (nm "Chunk"); CUnitVariant (nm "Scratchpad"); CVariant (nm "NonChunk") C_XOR].

Definition c_cmd : cshape :=
  CEnum [CVariant (nm "Replicate")
           (CStruct (nms ["holder"; "keys"]%string)
                    [c_network_address; CSeq (CTuple [c_network_address; c_record_type])]);
         CVariant (nm "PeerConsideredAsBad")
           (CStruct (nms ["detected_by"; "bad_peer"; "bad_behaviour"]%string)
                    [c_network_address; c_network_address; CStr])].

Definition c_query : cshape :=
  CEnum [CVariant (nm "GetStoreQuote")
           (CStruct (nms ["key"; "nonce"; "difficulty"]%string) [c_network_address; COption (CU W64); CU W64]);
         CVariant (nm "GetReplicatedRecord")
           (CStruct (nms ["requester"; "key"]%string) [c_network_address; c_network_address]);
         CVariant (nm "GetRegisterRecord")
           (CStruct (nms ["requester"; "key"]%string) [c_network_address; c_network_address]);
         CVariant (nm "GetChunkExistenceProof")
           (CStruct (nms ["key"; "nonce"; "difficulty"]%string) [c_network_address; CU W64; CU W64]);
         CVariant (nm "CheckNodeInProblem") c_network_address;
         CVariant (nm "GetClosestPeers")
           (CStruct (nms ["key"; "num_of_peers"; "range"; "sign_result"]%string)
                    [c_network_address; COption (CU W64); COption C_XOR; CBool])].

Definition c_request : cshape := CEnum [CVariant (nm "Cmd") c_cmd; CVariant (nm "Query") c_query].

(* ant_protocol::error::Error *)
Definition c_holder_key : cshape :=
  CStruct (nms ["holder"; "key"]%string) [c_network_address; c_network_address].

Definition c_error : cshape :=
  CEnum [CUnitVariant (nm "UserDataDirectoryNotObtainable");
         CUnitVariant (nm "CouldNotObtainPortFromMultiAddr");
         CUnitVariant (nm "ParseRetryStrategyError");
         CUnitVariant (nm "CouldNotObtainDataDir");
         CVariant (nm "ChunkDoesNotExist") c_network_address;
         CVariant (nm "RegisterNotFound") c_register_address;
         CVariant (nm "RegisterAlreadyClaimed") C_PK;
         CVariant (nm "RegisterRecordNotFound") c_holder_key;
         CUnitVariant (nm "ScratchpadHexDeserializeFailed");
         CUnitVariant (nm "ScratchpadCipherTextFailed");
         CUnitVariant (nm "ScratchpadCipherTextInvalid");
         CUnitVariant (nm "GetStoreQuoteFailed");
         CUnitVariant (nm "QuoteGenerationFailed");
         CVariant (nm "ReplicatedRecordNotFound") c_holder_key;
         CUnitVariant (nm "RecordHeaderParsingFailed");
         CUnitVariant (nm "RecordParsingFailed");
         CVariant (nm "RecordExists") C_VEC_U8].

(* Result<T, Error> *)
Definition c_result (ok : cshape) : cshape := CEnum [CVariant (nm "Ok") ok; CVariant (nm "Err") c_error].

Definition c_cmd_response : cshape :=
  CEnum [CVariant (nm "Replicate") (c_result CUnit); CVariant (nm "PeerConsideredAsBad") (c_result CUnit)].

Definition c_metrics : cshape :=
  CStruct (nms ["close_records_stored"; "max_records"; "received_payment_count"; "live_time";
                "network_density"; "network_size"]%string)
          [CU W64; CU W64; CU W64; CU W64; COption C_XOR; COption (CU W64)].

(* std::time::SystemTime as serde writes it *)
Definition c_system_time : cshape :=
  CStruct (nms ["secs_since_epoch"; "nanos_since_epoch"]%string) [CU W64; CU W32].

Definition c_quote : cshape :=
  CStruct (nms ["content"; "timestamp"; "quoting_metrics"; "rewards_address"; "pub_key"; "signature"]%string)
          [C_XOR; c_system_time; c_metrics; CBytes; C_VEC_U8; C_VEC_U8].

Definition c_proofs : cshape := CSeq (CTuple [c_network_address; c_result C_XOR (* ChunkProof *)]).

Definition c_query_response : cshape :=
  CEnum [CVariant (nm "GetStoreQuote")
           (CStruct (nms ["quote"; "peer_address"; "storage_proofs"]%string)
                    [c_result c_quote; c_network_address; c_proofs]);
         CVariant (nm "CheckNodeInProblem")
           (CStruct (nms ["reporter_address"; "target_address"; "is_in_trouble"]%string)
                    [c_network_address; c_network_address; CBool]);
         CVariant (nm "GetReplicatedRecord") (c_result (CTuple [c_network_address; CBytes]));
         CVariant (nm "GetRegisterRecord") (c_result (CTuple [c_network_address; CBytes]));
         CVariant (nm "GetChunkExistenceProof") c_proofs;
         CVariant (nm "GetClosestPeers")
           (CStruct (nms ["target"; "peers"; "signature"]%string)
                    [c_network_address; CSeq (CTuple [c_network_address; CSeq CBytes (* Multiaddr *)]);
                     COption C_VEC_U8])].

Definition c_response : cshape :=
  CEnum [CVariant (nm "Cmd") c_cmd_response; CVariant (nm "Query") c_query_response].

(* ---------- the names on the wire, as strings, for comparison with the source ---------- *)
Definition variant_table (s : cshape) : list string := map of_codes (enum_names s).

(* "Variant.field" for every struct-like variant of an enum shape, in declaration order *)
Fixpoint fields_of_variants (vs : list cshape) : list string :=
  match vs with
  | [] => []
  | CVariant n (CStruct names _) :: r =>
      map (fun f => (of_codes n ++ "." ++ of_codes f)%string) names ++ fields_of_variants r
  | _ :: r => fields_of_variants r
  end.
Definition field_table (s : cshape) : list string :=
  match s with
  | CEnum vs => fields_of_variants vs
  | CStruct names _ => map of_codes names
  | _ => []
  end.

(* variants are identified by name, so their declaration order is irrelevant: compared as sets *)
Definition same_names (a b : list string) : bool :=
  Nat.eqb (List.length a) (List.length b) &&
  forallb (fun x => existsb (String.eqb x) b) a && forallb (fun x => existsb (String.eqb x) a) b.

(* the Error enum has one newtype variant whose payload is itself a struct (RegisterNotFound carries a
   RegisterAddress): its fields come from that struct's declaration *)
Definition error_fields_from (reg err : list string) : list string :=
  map (fun f => ("RegisterNotFound." ++ f)%string) reg ++ err.

(* ---------- agreement terms ---------- *)
Definition agree_request (v : sval) (bytes : list N) : bool := agree_cbor c_request v bytes.
Definition agree_response (v : sval) (bytes : list N) : bool := agree_cbor c_response v bytes.
