(* Model of ant-registers/src/{register.rs, register_op.rs, permissions.rs, reg_crdt.rs}.

   Public keys are numbers (the index of a key).  Signatures are symbolic: `Sig pk m` is the
   signature of key pk over message m, `Junk j` anything else; a message is either the
   serialised base register (`Register::bytes`, injective because rmp-serde round-trips) or the
   8-byte DefaultHasher digest `RegisterOp::bytes_for_signing` computes over (address, node hash,
   source), an abstract function D64.  The node hash is the abstract H of model/MerkleReg.v. *)
From Coq Require Import List NArith Bool.
From V Require Import lib.Strs gen.Consts model.MerkleReg.
Import ListNotations.
Open Scope N_scope.

Definition MAX_ENTRY_SIZE : N := Consts.max_reg_entry_size.     (* MAX_REG_ENTRY_SIZE *)
Definition MAX_ENTRIES : N := Consts.max_reg_num_entries.       (* MAX_REG_NUM_ENTRIES *)

Record address := mkaddr { meta : N; owner : N }.               (* RegisterAddress *)
Inductive perms := Anyone | Writers (ws : list N).              (* Permissions; BTreeSet sorted *)
Record register := mkreg { raddr : address; rperms : perms }.   (* Register *)
Inductive msg := MReg (r : register) | MOp (d : N).
Inductive sig := Sig (pk : N) (m : msg) | Junk (j : N).
Record op := mkop { oaddr : address; onode : node; osource : N; osig : sig }.   (* RegisterOp *)
Record sreg := mksreg { base : register; bsig : sig; ops : list op }.           (* SignedRegister *)

(* ------------------------------------------------------------------ total orders (derive(Ord)) *)
Definition cmp_pair {A B} (ca : A -> A -> comparison) (cb : B -> B -> comparison)
  (x y : A * B) : comparison :=
  match ca (fst x) (fst y) with Eq => cb (snd x) (snd y) | c => c end.

Fixpoint cmp_list {A} (c : A -> A -> comparison) (x y : list A) : comparison :=
  match x, y with
  | [], [] => Eq
  | [], _ :: _ => Lt
  | _ :: _, [] => Gt
  | a :: x', b :: y' => match c a b with Eq => cmp_list c x' y' | r => r end
  end.

Definition cmp_on {A B} (f : A -> B) (c : B -> B -> comparison) (x y : A) := c (f x) (f y).

Definition TA := (N * N)%type.
Definition TP := (N * list N)%type.
Definition TR := (TA * TP)%type.
Definition TN := (list N * list N)%type.
Definition TM := (N * (TR * N))%type.
Definition TS := (N * (N * TM))%type.
Definition TO := (TA * (TN * (N * TS)))%type.

Definition cmpTA : TA -> TA -> comparison := cmp_pair N.compare N.compare.
Definition cmpTP : TP -> TP -> comparison := cmp_pair N.compare (cmp_list N.compare).
Definition cmpTR : TR -> TR -> comparison := cmp_pair cmpTA cmpTP.
Definition cmpTN : TN -> TN -> comparison := cmp_pair (cmp_list N.compare) (cmp_list N.compare).
Definition cmpTM : TM -> TM -> comparison := cmp_pair N.compare (cmp_pair cmpTR N.compare).
Definition cmpTS : TS -> TS -> comparison := cmp_pair N.compare (cmp_pair N.compare cmpTM).
Definition cmpTO : TO -> TO -> comparison :=
  cmp_pair cmpTA (cmp_pair cmpTN (cmp_pair N.compare cmpTS)).

Definition enc_addr (a : address) : TA := (meta a, owner a).
Definition enc_perms (p : perms) : TP := match p with Anyone => (0, []) | Writers ws => (1, ws) end.
Definition enc_reg (r : register) : TR := (enc_addr (raddr r), enc_perms (rperms r)).
Definition enc_node (n : node) : TN := (children n, value n).
Definition reg0 : register := mkreg (mkaddr 0 0) Anyone.
Definition enc_msg (m : msg) : TM :=
  match m with MReg r => (0, (enc_reg r, 0)) | MOp d => (1, (enc_reg reg0, d)) end.
Definition enc_sig (s : sig) : TS :=
  match s with Sig pk m => (0, (pk, enc_msg m)) | Junk j => (1, (j, enc_msg (MOp 0))) end.
Definition enc_op (o : op) : TO :=
  (enc_addr (oaddr o), (enc_node (onode o), (osource o, enc_sig (osig o)))).

Definition cmp_addr := cmp_on enc_addr cmpTA.
Definition cmp_perms := cmp_on enc_perms cmpTP.
Definition cmp_sig := cmp_on enc_sig cmpTS.
Definition cmp_op := cmp_on enc_op cmpTO.

Definition addr_eqb (a b : address) : bool := is_eq (cmp_addr a b).
Definition perms_eqb (a b : perms) : bool := is_eq (cmp_perms a b).
Definition sig_eqb (a b : sig) : bool := is_eq (cmp_sig a b).
Definition op_eqb (a b : op) : bool := is_eq (cmp_op a b).

(* BTreeSet<RegisterOp> *)
Definition oins : op -> list op -> list op := kins (fun o => o) cmp_op.
Definition ounion : list op -> list op -> list op := kunion (fun o => o) cmp_op.
Definition ohas : op -> list op -> bool := khas (fun o : op => o) cmp_op.
Definition oset (l : list op) : list op := kof_list (fun o => o) cmp_op l.

(* ------------------------------------------------------------------ errors *)
Inductive err :=
| EAddrMismatch            (* Error::RegisterAddrMismatch *)
| EEntryTooBig (size : N)
| EAccessDenied (pk : N)
| ETooManyEntries (n : N)
| EDifferentBase           (* Error::DifferentBaseRegister *)
| EInvalidSignature
| EInvalidRegAddr.         (* Error::InvalidRegisterAddress *)
Inductive res := Ok | Err (e : err).

Definition len {A} (l : list A) : N := N.of_nat (length l).

(* ------------------------------------------------------------------ permissions.rs *)
Definition can_anyone_write (p : perms) : bool := match p with Anyone => true | _ => false end.
Definition can_write (p : perms) (u : N) : bool :=
  match p with Anyone => true | Writers ws => nhas u ws end.
Definition add_writer (p : perms) (u : N) : perms :=
  match p with Anyone => Anyone | Writers ws => Writers (nins u ws) end.
Definition new_with (l : list N) : perms := Writers (kof_list (fun x => x) N.compare l).

(* Register::new *)
Definition register_new (own metaN : N) (p : perms) : register :=
  mkreg (mkaddr metaN own) (add_writer p own).

Section Reg.
  Variable H : node -> N.                       (* Node::hash *)
  Variable D64 : address -> N -> N -> N.        (* DefaultHasher digest of (address, hash, source) *)

  (* ---------------------------------------------------------------- register_op.rs *)
  Definition op_msg (o : op) : msg := MOp (D64 (oaddr o) (H (onode o)) (osource o)).
  (* RegisterOp::new *)
  Definition op_new (a : address) (n : node) (signer : N) : op :=
    mkop a n signer (Sig signer (MOp (D64 a (H n) signer))).
  (* verify_signature *)
  Definition verify_signature (o : op) (pk : N) : res :=
    if sig_eqb (osig o) (Sig pk (op_msg o)) then Ok else Err EInvalidSignature.

  (* ---------------------------------------------------------------- register.rs *)
  Definition check_user_permissions (b : register) (u : N) : res :=
    if can_write (rperms b) u then Ok else Err (EAccessDenied u).

  (* check_register_op (with the address comparison added by the `fix:` commit, F6) *)
  Definition check_register_op (b : register) (o : op) : res :=
    if negb (addr_eqb (oaddr o) (raddr b)) then Err EAddrMismatch
    else if can_anyone_write (rperms b) then Ok
    else match check_user_permissions b (osource o) with
         | Ok => verify_signature o (osource o)
         | e => e
         end.

  Definition owner_sig_ok (b : register) (s : sig) : bool :=
    sig_eqb s (Sig (owner (raddr b)) (MReg b)).

  Definition esize (o : op) : N := len (value (onode o)).

  Fixpoint verify_ops (b : register) (l : list op) : res :=
    match l with
    | [] => Ok
    | o :: t =>
        match check_register_op b o with
        | Ok => if MAX_ENTRY_SIZE <? esize o then Err (EEntryTooBig (esize o)) else verify_ops b t
        | e => e
        end
    end.

  (* verify(), iterating the operations in the given order (the BTreeSet order of the real ops is
     the order of their bytes; only the identity of the first error depends on it) *)
  Definition verify_in (r : sreg) (order : list op) : res :=
    if MAX_ENTRIES <=? len (ops r) then Err (ETooManyEntries (len (ops r)))
    else if negb (owner_sig_ok (base r) (bsig r)) then Err EInvalidSignature
    else verify_ops (base r) order.
  Definition verify (r : sreg) : res := verify_in r (ops r).

  Definition verify_with_address_in (r : sreg) (a : address) (order : list op) : res :=
    if negb (addr_eqb (raddr (base r)) a) then Err EInvalidRegAddr else verify_in r order.

  (* verify_is_mergeable *)
  Definition mergeable (a b : register) : bool :=
    addr_eqb (raddr a) (raddr b) && perms_eqb (rperms a) (rperms b).

  Definition with_ops (r : sreg) (l : list op) : sreg := mksreg (base r) (bsig r) l.

  Definition merge (r other : sreg) : res * sreg :=
    if mergeable (base r) (base other) then (Ok, with_ops r (ounion (ops r) (ops other)))
    else (Err EDifferentBase, r).

  Definition verified_merge_in (r other : sreg) (order : list op) : res * sreg :=
    if mergeable (base r) (base other) then
      match verify_in other order with
      | Ok => (Ok, with_ops r (ounion (ops r) (ops other)))
      | e => (e, r)
      end
    else (Err EDifferentBase, r).
  Definition verified_merge (r other : sreg) : res * sreg := verified_merge_in r other (ops other).

  Definition add_op (r : sreg) (o : op) : res * sreg :=
    if MAX_ENTRIES <=? len (ops r) then (Err (ETooManyEntries (len (ops r))), r)
    else if MAX_ENTRY_SIZE <? esize o then (Err (EEntryTooBig (esize o)), r)
    else match check_register_op (base r) o with
         | Ok => (Ok, with_ops r (oins o (ops r)))
         | e => (e, r)
         end.

  (* ---------------------------------------------------------------- reg_crdt.rs *)
  Record crdt := mkcrdt { caddr : address; cdata : mreg }.
  Definition crdt_new (a : address) : crdt := mkcrdt a mr_empty.
  Definition crdt_apply_op (c : crdt) (o : op) : res * crdt :=
    if addr_eqb (caddr c) (oaddr o) then (Ok, mkcrdt (caddr c) (mr_apply H (cdata c) (onode o)))
    else (Err EAddrMismatch, c).
  Definition crdt_merge (c other : crdt) : crdt := mkcrdt (caddr c) (mr_merge H (cdata c) (cdata other)).
  Definition crdt_read (c : crdt) : list (N * list N) :=
    map (fun e => (fst e, value (snd e))) (mr_read (cdata c)).
  Definition crdt_size (c : crdt) : N := len (dag (cdata c)) + len (orphans (cdata c)).

  (* autonomi register_get: rebuild the CRDT from a fetched register's operations *)
  Fixpoint client_apply (c : crdt) (l : list op) : res * crdt :=
    match l with
    | [] => (Ok, c)
    | o :: t => match crdt_apply_op c o with (Ok, c') => client_apply c' t | r => r end
    end.
  Definition client_build (r : sreg) (order : list op) : res * crdt :=
    client_apply (crdt_new (raddr (base r))) order.

  (* ---------------------------------------------------------------- histories *)
  (* delivering a sequence of operations to one replica (rejected ones leave it unchanged) *)
  Definition deliver (r : sreg) (l : list op) : sreg := fold_left (fun r o => snd (add_op r o)) l r.

  (* every state a replica can reach from an owner-signed empty register through add_op and
     merges with other replicas' states *)
  Inductive reachable : sreg -> Prop :=
  | R_new b s : owner_sig_ok b s = true -> reachable (mksreg b s [])
  | R_add r o : reachable r -> reachable (snd (add_op r o))
  | R_merge r r' : reachable r -> reachable r' -> reachable (snd (merge r r'))
  | R_vmerge r r' : reachable r -> reachable r' -> reachable (snd (verified_merge r r')).

  (* an operation a register with base b accepts (when it has room) *)
  Definition op_ok (b : register) (o : op) : bool :=
    match check_register_op b o with Ok => esize o <=? MAX_ENTRY_SIZE | _ => false end.

  (* ---------------------------------------------------------------- correspondence traces *)
  Inductive step :=
  | SAdd (i : nat) (o : op)
  | SMerge (i j : nat)
  | SVMerge (i j : nat)
  | SClone (i j : nat)
  | SVerify (i : nat)
  | SVerifyAddr (i : nat) (a : address)
  | SDump (i : nat)
  | SClient (i : nat).

  (* what the harness observed for a step: result, the BTreeSet iteration order of the register
     involved (Verify/VerifyAddr/Dump/Client: replica i; VMerge: replica j), the client's read() *)
  Record obs := mkobs { o_res : res; o_order : list op; o_read : list (N * list N) }.

  Definition res_eqb (a b : res) : bool :=
    match a, b with
    | Ok, Ok => true
    | Err x, Err y =>
        match x, y with
        | EAddrMismatch, EAddrMismatch | EDifferentBase, EDifferentBase
        | EInvalidSignature, EInvalidSignature | EInvalidRegAddr, EInvalidRegAddr => true
        | EEntryTooBig a, EEntryTooBig b | EAccessDenied a, EAccessDenied b
        | ETooManyEntries a, ETooManyEntries b => a =? b
        | _, _ => false
        end
    | _, _ => false
    end.

  Definition dummy_sreg : sreg := mksreg reg0 (Junk 0) [].
  Definition getr (st : list sreg) (i : nat) : sreg := nth i st dummy_sreg.
  Fixpoint setr (st : list sreg) (i : nat) (r : sreg) : list sreg :=
    match st, i with
    | [], _ => []
    | _ :: t, O => r :: t
    | x :: t, S k => x :: setr t k r
    end.

  (* the observed order lists exactly the replica's operations *)
  Definition same_set (order l : list op) : bool :=
    list_eqb op_eqb (oset order) l && Nat.eqb (length order) (length l).

  Definition read_eqb (a b : list (N * list N)) : bool :=
    list_eqb (fun x y => (fst x =? fst y) && nlist_eqb (snd x) (snd y)) a b.

  Definition agree_step (st : list sreg) (s : step) (o : obs) : bool * list sreg :=
    match s with
    | SAdd i x => let (r, s') := add_op (getr st i) x in (res_eqb r (o_res o), setr st i s')
    | SMerge i j => let (r, s') := merge (getr st i) (getr st j) in (res_eqb r (o_res o), setr st i s')
    | SVMerge i j =>
        let (r, s') := verified_merge_in (getr st i) (getr st j) (o_order o) in
        (same_set (o_order o) (ops (getr st j)) && res_eqb r (o_res o), setr st i s')
    | SClone i j => (true, setr st i (getr st j))
    | SVerify i =>
        (same_set (o_order o) (ops (getr st i)) && res_eqb (verify_in (getr st i) (o_order o)) (o_res o), st)
    | SVerifyAddr i a =>
        (same_set (o_order o) (ops (getr st i)) &&
         res_eqb (verify_with_address_in (getr st i) a (o_order o)) (o_res o), st)
    | SDump i => (same_set (o_order o) (ops (getr st i)), st)
    | SClient i =>
        let (r, c) := client_build (getr st i) (o_order o) in
        (same_set (o_order o) (ops (getr st i)) && res_eqb r (o_res o) &&
         match r with Ok => read_eqb (crdt_read c) (o_read o) | _ => true end, st)
    end.

  Fixpoint agree_hist (st : list sreg) (ss : list step) (os : list obs) : bool :=
    match ss, os with
    | [], [] => true
    | s :: ss', o :: os' => let (b, st') := agree_step st s o in b && agree_hist st' ss' os'
    | _, _ => false
    end.

  (* diagnostics for replay files: index of the first step on which model and implementation differ *)
  Fixpoint first_bad_hist (st : list sreg) (ss : list step) (os : list obs) (i : N) : option N :=
    match ss, os with
    | [], [] => None
    | s :: ss', o :: os' =>
        let (b, st') := agree_step st s o in if b then first_bad_hist st' ss' os' (i + 1) else Some i
    | _, _ => Some i
    end.

  (* CRDT-level traces: replicas of RegisterCrdt, every step followed by a full state dump *)
  Inductive cstep := CApply (i : nat) (o : op) | CMerge (i j : nat).
  Record cobs := mkcobs { c_res : res; c_dag : list N; c_orph : list N; c_read : list (N * list N) }.
  Definition dummy_crdt : crdt := crdt_new (mkaddr 0 0).
  Definition getc (st : list crdt) (i : nat) : crdt := nth i st dummy_crdt.
  Fixpoint setc (st : list crdt) (i : nat) (c : crdt) : list crdt :=
    match st, i with
    | [], _ => []
    | _ :: t, O => c :: t
    | x :: t, S k => x :: setc t k c
    end.
  Definition agree_cstate (c : crdt) (o : cobs) : bool :=
    nlist_eqb (map fst (dag (cdata c))) (c_dag o) && nlist_eqb (map fst (orphans (cdata c))) (c_orph o) &&
    read_eqb (crdt_read c) (c_read o).
  Definition agree_cstep (st : list crdt) (s : cstep) (o : cobs) : bool * list crdt :=
    match s with
    | CApply i x => let (r, c) := crdt_apply_op (getc st i) x in
                    (res_eqb r (c_res o) && agree_cstate c o, setc st i c)
    | CMerge i j => let c := crdt_merge (getc st i) (getc st j) in (agree_cstate c o, setc st i c)
    end.
  Fixpoint agree_chist (st : list crdt) (ss : list cstep) (os : list cobs) : bool :=
    match ss, os with
    | [], [] => true
    | s :: ss', o :: os' => let (b, st') := agree_cstep st s o in b && agree_chist st' ss' os'
    | _, _ => false
    end.
  Fixpoint first_bad_chist (st : list crdt) (ss : list cstep) (os : list cobs) (i : N) : option N :=
    match ss, os with
    | [], [] => None
    | s :: ss', o :: os' =>
        let (b, st') := agree_cstep st s o in if b then first_bad_chist st' ss' os' (i + 1) else Some i
    | _, _ => Some i
    end.
End Reg.

(* ------------------------------------------------------------------ case-file helpers *)
Definition pick {A} (d : A) (l : list A) (i : N) : A := nth (N.to_nat i) l d.
Definition node0 : node := mknode [] [].
Definition op0 : op := mkop (mkaddr 0 0) node0 0 (Junk 0).
(* the digest of a generated case: an injective packing of its (small) indices *)
Definition sym_d64 (a : address) (h s : N) : N := ((meta a * 65536 + owner a) * 65536 + h) * 65536 + s.
