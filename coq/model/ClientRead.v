(* Model of the client read paths (C15):
     autonomi/src/client/data/public.rs   chunk_get
     autonomi/src/client/vault.rs         get_vault_from_network, fetch_and_decrypt_vault,
                                          get_or_create_scratchpad (read part)
     ant-networking/src/lib.rs            get_record_from_network (retry_strategy = None, as both
                                          callers configure it) and handle_split_record_error
     ant-protocol/src/storage/scratchpad.rs  is_valid, owner, count, decrypt_data

   What the network hands to the client is adversarial: an arbitrary
   `Result<Record, GetRecordError>`.  A record is represented by what the real decoders make of
   it, its "view": the kind tag `RecordHeader::from_record` yields (None if it fails) and what
   `try_deserialize_record::<Chunk>` / `::<Scratchpad>` yield for its body.  A msgpack `bin`
   (chunk) can never parse as the five-field array of a scratchpad and vice versa, so a body is a
   chunk, a pad, or neither.
   BLS is symbolic (Dolev-Yao): a key pair is a number; a signature names its signer and the exact
   (counter, ciphertext) it was made over; a ciphertext names the key it was encrypted to.
   Content hashing (XorName::from_content = SHA3-256) is a function parameter `H`. *)
From Coq Require Import List NArith Bool String.
From V Require Import lib.Strs gen.Consts.
Import ListNotations.
Open Scope N_scope.

Definition bytes := list N.

(* ---------------------------------------------------------------- symbolic BLS *)

(* bls::Ciphertext bytes.  c_to = None: bytes that `Ciphertext::from_bytes` rejects.
   c_uid distinguishes two encryptions of the same plaintext (encryption is randomised). *)
Record ctext := { c_to : option N; c_plain : bytes; c_uid : N }.

Definition ctext_eqb (a b : ctext) : bool :=
  option_eqb N.eqb (c_to a) (c_to b) && bytes_eqb (c_plain a) (c_plain b) && (c_uid a =? c_uid b).

(* a signature: who made it, over which counter and which encrypted_data (its hash is what is
   signed; hash collisions are outside the symbolic model) *)
Record sig := { s_by : N; s_counter : N; s_ct : ctext }.

(* ant_protocol::storage::Scratchpad *)
Record pad := { p_owner : N; p_encoding : N; p_ct : ctext; p_counter : N; p_sig : option sig }.

(* Scratchpad::is_valid: a signature is present and verifies, under the pad's own owner key, for
   counter.to_be_bytes() ++ hash(encrypted_data) *)
Definition is_valid (p : pad) : bool :=
  match p_sig p with
  | Some s => (s_by s =? p_owner p) && (s_counter s =? p_counter p) && ctext_eqb (s_ct s) (p_ct p)
  | None => false
  end.

(* Scratchpad::decrypt_data(sk): Ciphertext::from_bytes may fail; blsttc's decrypt with a key the
   text was not encrypted to yields unrelated bytes (not an error) *)
Inductive dres := DOk (m : bytes) | DGarbled | DBadFormat.
Definition decrypt_data (sk : N) (p : pad) : dres :=
  match c_to (p_ct p) with
  | None => DBadFormat
  | Some k => if k =? sk then DOk (c_plain (p_ct p)) else DGarbled
  end.

(* ---------------------------------------------------------------- records and replies *)

Inductive body := BChunk (content : bytes) | BPad (p : pad) | BJunk.

(* r_key: the key the returned record carries -- chosen by whoever answers: nothing between the
   holders and the client checks that a reply is keyed with what was asked for, and no read path
   may rely on it.
   r_hdr: the RecordKind tag decoded from the first RecordHeader::SIZE+1 bytes, None if that fails
   (short value, not a header, tag outside 0..7) *)
Record record := { r_key : N; r_hdr : option N; r_body : body }.

Definition parse_chunk (r : record) : option bytes :=
  match r_body r with BChunk c => Some c | _ => None end.
Definition parse_pad (r : record) : option pad :=
  match r_body r with BPad p => Some p | _ => None end.

(* GetRecordError.  Two variants carry a record (whatever the answering holders sent): no read path
   may hand its content to the caller. *)
Inductive gerr :=
| GNotEnoughCopies (r : record)   (* NotEnoughCopies { record, .. }: carries the one version that was seen *)
| GTimeout
| GDoesNotMatch (r : record)      (* RecordDoesNotMatch(record) *)
| GKindMismatch | GNotFound
| GSplit (m : list record).       (* result_map.values() in the map's iteration order *)

Inductive reply := ROk (r : record) | RErr (e : gerr).

Definition KIND_CHUNK : N := Consts.client_kind_chunk.
Definition KIND_SCRATCHPAD : N := Consts.client_kind_scratchpad.

(* what an honest holder serves: the chunk / the scratchpad under its own record kind *)
Definition chunk_record (k : N) (c : bytes) : record :=
  {| r_key := k; r_hdr := Some KIND_CHUNK; r_body := BChunk c |}.
Definition pad_record (k : N) (p : pad) : record :=
  {| r_key := k; r_hdr := Some KIND_SCRATCHPAD; r_body := BPad p |}.

(* ---------------------------------------------------------------- ant-networking: split handling *)

(* the `for (record, _) in result_map.values()` loop of handle_split_record_error, restricted to
   what it does with records whose bodies are chunks / pads / junk: the first parsable header
   dictates the kind; records of another kind are skipped; every kind except Scratchpad either is
   skipped outright or fails its own deserialisation; scratchpads must deserialise and be valid,
   and the first one with the strictly highest counter is kept *)
Fixpoint split_loop (kind : option N) (best : option pad) (l : list record) : option pad :=
  match l with
  | [] => best
  | r :: t =>
      match r_hdr r with
      | None => split_loop kind best t
      | Some k =>
          let kind' := match kind with Some k0 => k0 | None => k end in
          if negb (k =? kind') then split_loop (Some kind') best t
          else if kind' =? KIND_SCRATCHPAD then
            match parse_pad r with
            | None => split_loop (Some kind') best t
            | Some p =>
                if negb (is_valid p) then split_loop (Some kind') best t
                else match best with
                     | Some old => if p_counter p <=? p_counter old
                                   then split_loop (Some kind') best t
                                   else split_loop (Some kind') (Some p) t
                     | None => split_loop (Some kind') (Some p) t
                     end
            end
          else split_loop (Some kind') best t
      end
  end.

(* the merged record is built under the requested key *)
Definition handle_split (key : N) (m : list record) : option record :=
  if (1 <? N.of_nat (List.length m)) then
    match split_loop None None m with
    | Some p => Some {| r_key := key; r_hdr := Some KIND_SCRATCHPAD; r_body := BPad p |}   (* re-serialised *)
    | None => None
    end
  else None.

(* Network::get_record_from_network(key, cfg) with cfg.retry_strategy = None (one attempt); an Ok
   record is handed on as it came, whatever key it carries *)
Definition get_record (key : N) (rp : reply) : record + gerr :=
  match rp with
  | ROk r => inl r
  | RErr (GSplit m) =>
      match handle_split key m with Some r => inl r | None => inr (GSplit m) end
  | RErr e => inr e
  end.

(* ---------------------------------------------------------------- Client::chunk_get *)

Inductive cerr := CNet (e : gerr) | CHeader | CKind | CDeser.

(* public.rs chunk_get (after the repair): fetch, header, kind check, deserialise (the chunk's
   address is recomputed from its content by Chunk's Deserialize), and compare that address with
   the *requested* one (not with record.key, which the holders choose).  The record key asked for
   is the address itself (to_record_key of a ChunkAddress is its xorname). *)
Definition chunk_get (H : bytes -> N) (rp : reply) (addr : N) : bytes + cerr :=
  match get_record addr rp with
  | inr e => inr (CNet e)
  | inl r =>
      match r_hdr r with
      | None => inr CHeader
      | Some k =>
          if k =? KIND_CHUNK then
            match parse_chunk r with
            | None => inr CDeser
            | Some c => if H c =? addr then inl c else inr (CNet (GDoesNotMatch r))
            end
          else inr CKind
      end
  end.

(* ---------------------------------------------------------------- vault reads *)

Inductive verr := VInvalidPad | VMissing | VNet (e : gerr) | VCipherFormat.

(* a pad the requested key owns and has validly signed *)
Definition authentic (pk : N) (p : pad) : bool := (p_owner p =? pk) && is_valid p.

(* Vec::sort_by_key(|s| s.count()) is a stable sort *)
Fixpoint insert_pad (p : pad) (l : list pad) : list pad :=
  match l with
  | [] => [p]
  | q :: t => if p_counter p <=? p_counter q then p :: l else q :: insert_pad p t
  end.
Definition sort_pads (l : list pad) : list pad := fold_right insert_pad [] l.

Fixpoint all_some {A} (l : list (option A)) : option (list A) :=
  match l with
  | [] => Some []
  | None :: _ => None
  | Some x :: t => match all_some t with Some r => Some (x :: r) | None => None end
  end.

(* the SplitRecord arm of get_vault_from_network (after the repair): every version must
   deserialise; versions not owned and validly signed by the requested key are discarded; of the
   rest the first one (in sorted order) carrying the highest counter is returned *)
Definition vault_pick (pk : N) (m : list record) : pad + verr :=
  match all_some (map parse_pad m) with
  | None => inr VInvalidPad
  | Some pads =>
      let pads := sort_pads (filter (authentic pk) pads) in
      match last (map Some pads) None with
      | None => inr VMissing              (* empty: max_version = u64::MAX, nothing matches *)
      | Some top =>
          match filter (fun s => p_counter s =? p_counter top) pads with
          | one :: _ => inl one
          | [] => inr VMissing
          end
      end
  end.

(* vault.rs get_vault_from_network (after the repair); `key` is the record key of the requested
   key's scratchpad address (a hash of the public key) *)
Definition get_vault (key : N) (rp : reply) (pk : N) : pad + verr :=
  match get_record key rp with
  | inl r =>
      match parse_pad r with
      | None => inr VInvalidPad
      | Some p => if authentic pk p then inl p else inr VInvalidPad
      end
  | inr (GSplit m) => vault_pick pk m
  | inr e => inr (VNet e)
  end.

Inductive vres := VOk (data : bytes) (encoding : N) | VOkGarbled (encoding : N) | VErr (e : verr).

(* vault.rs fetch_and_decrypt_vault: the secret key and the requested public key are one pair *)
Definition fetch_and_decrypt_vault (key : N) (rp : reply) (sk : N) : vres :=
  match get_vault key rp sk with
  | inr e => VErr e
  | inl p =>
      match decrypt_data sk p with
      | DOk m => VOk m (p_encoding p)
      | DGarbled => VOkGarbled (p_encoding p)
      | DBadFormat => VErr VCipherFormat
      end
  end.

(* ---------------------------------------------------------------- agreement with the harness *)

Definition gerr_code (e : gerr) : string :=
  match e with
  | GNotEnoughCopies _ => "net:NotEnoughCopies" | GTimeout => "net:Timeout"
  | GDoesNotMatch _ => "net:DoesNotMatch" | GKindMismatch => "net:KindMismatch"
  | GNotFound => "net:NotFound" | GSplit _ => "net:Split"
  end.

Definition cerr_code (e : cerr) : string :=
  match e with CNet g => gerr_code g | CHeader => "header" | CKind => "kind" | CDeser => "deser" end.

Definition verr_code (e : verr) : string :=
  match e with
  | VInvalidPad => "invalid-pad" | VMissing => "missing" | VNet g => gerr_code g
  | VCipherFormat => "ciphertext-format"
  end.

(* content hash supplied with the case: a table content -> digest computed by an independent
   SHA3-256 (python hashlib), 0 for anything else *)
Fixpoint tab_hash (tab : list (bytes * N)) (x : bytes) : N :=
  match tab with
  | [] => 0
  | (k, d) :: t => if bytes_eqb k x then d else tab_hash t x
  end.

(* implementation outcome: inl value | inr error-code *)
Definition agree_chunk_get (tab : list (bytes * N)) (rp : reply) (addr : N) (out : bytes + string) : bool :=
  match chunk_get (tab_hash tab) rp addr, out with
  | inl c, inl v => bytes_eqb c v
  | inr e, inr s => String.eqb (cerr_code e) s
  | _, _ => false
  end.

(* fetch_and_decrypt_vault outcome: inl (Some data | None = some undetermined bytes, encoding)
   | inr code *)
Definition agree_vault (key : N) (rp : reply) (sk : N) (out : (option bytes * N) + string) : bool :=
  match fetch_and_decrypt_vault key rp sk, out with
  | VOk m e, inl (Some m', e') => bytes_eqb m m' && (e =? e')
  | VOkGarbled e, inl (_, e') => e =? e'
  | VErr e, inr s => String.eqb (verr_code e) s
  | _, _ => false
  end.

(* get_or_create_scratchpad exposes the pad get_vault_from_network returned: its counter, whether
   is_valid() holds and whether the requested key owns it; on any read error it creates a fresh
   pad instead (is_new = true) *)
Definition agree_vault_pad (key : N) (rp : reply) (pk : N) (out : option (N * bool * bool)) : bool :=
  match get_vault key rp pk, out with
  | inl p, Some (c, v, o) => (p_counter p =? c) && Bool.eqb (is_valid p) v && Bool.eqb (p_owner p =? pk) o
  | inr _, None => true
  | _, _ => false
  end.
