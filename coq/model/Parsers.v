(* C17 -- parsers of untrusted text and bytes.

   Every parser of the repository is transcribed as a function into `outcome`, where `Panic` is a
   first-class result: Rust slice indexing, `try_into` on slices, `expect` and debug-build integer
   arithmetic are modelled by the primitives below, which return `Panic` exactly where the Rust
   operation panics.  Third-party decoders (BLS key decoding, the AEAD, `Multiaddr::from_str`,
   serde_json, rmp-serde) are *arguments* of the model (total oracles); `hex` is modelled in full
   (lib/Strs.v `unhex` / `tohex`).

   For every repaired defect the transcription of the code before the repair is kept as
   `<parser>_unfixed` (F3, F4, F5), so that the `_refuted` witnesses in proofs/Parsers.v keep
   documenting what failed; the unsuffixed definitions model the code as it is now. *)
From Coq Require Import List NArith String Ascii Bool.
From V Require Import lib.Strs lib.Dec gen.Consts model.Amount.
Import ListNotations.
Open Scope N_scope.

(* ------------------------------------------------------------------ outcomes *)
Inductive outcome (A : Type) : Type :=
| Ok (v : A)
| Err (code : N)
| Panic.
Arguments Ok {A} v.
Arguments Err {A} code.
Arguments Panic {A}.

Definition bind {A B} (o : outcome A) (f : A -> outcome B) : outcome B :=
  match o with Ok v => f v | Err c => Err c | Panic => Panic end.

(* `x.map_err(|_| e)?` : an inner error is replaced by code c, a panic stays a panic *)
Definition map_err {A} (c : N) (o : outcome A) : outcome A :=
  match o with Err _ => Err c | other => other end.

Definition is_panic {A} (o : outcome A) : bool := match o with Panic => true | _ => false end.

Definition len {A} (l : list A) : N := N.of_nat (List.length l).

Definition opt_list {A} (o : option A) : list A := match o with Some x => [x] | None => [] end.

(* ------------------------------------------------------------------ Rust primitives *)
(* &v[..n] *)
Definition slice_to {A} (l : list A) (n : N) : outcome (list A) :=
  if n <=? len l then Ok (firstn (N.to_nat n) l) else Panic.
(* &v[n..] *)
Definition slice_from {A} (l : list A) (n : N) : outcome (list A) :=
  if n <=? len l then Ok (skipn (N.to_nat n) l) else Panic.
(* &v[a..b] *)
Definition slice_range {A} (l : list A) (a b : N) : outcome (list A) :=
  if (a <=? b) && (b <=? len l) then Ok (firstn (N.to_nat (b - a)) (skipn (N.to_nat a) l)) else Panic.
(* <[u8; n]>::try_from(slice) / Vec -> [u8; n] *)
Definition try_into {A} (l : list A) (n : N) : outcome (list A) :=
  if len l =? n then Ok l else Err 0.

(* integer arithmetic of width 2^k: the debug build panics on overflow, the release build wraps *)
Inductive arith_mode := Debug | Release.
Definition U16 : N := 65536.
Definition U32 : N := 4294967296.
Definition add_w (m : arith_mode) (w a b : N) : outcome N :=
  if a + b <? w then Ok (a + b) else match m with Debug => Panic | Release => Ok ((a + b) mod w) end.
Definition sub_w (m : arith_mode) (w a b : N) : outcome N :=
  if b <=? a then Ok (a - b) else match m with Debug => Panic | Release => Ok ((w + a - b) mod w) end.

(* &s[a..b] on a str: the byte-range rule of slices plus the char-boundary rule -- an index inside a
   multi-byte UTF-8 sequence (a continuation byte 0x80..0xBF at that offset) panics *)
Definition is_char_boundary (bytes : list N) (i : N) : bool :=
  if i =? 0 then true
  else if i =? len bytes then true
  else if len bytes <? i then false
  else match nth_error bytes (N.to_nat i) with
       | Some b => negb ((128 <=? b) && (b <=? 191))
       | None => false
       end.
Definition str_slice (s : string) (a b : N) : outcome string :=
  let bytes := codes s in
  if (a <=? b) && (b <=? len bytes) && is_char_boundary bytes a && is_char_boundary bytes b
  then Ok (of_codes (firstn (N.to_nat (b - a)) (skipn (N.to_nat a) bytes)))
  else Panic.

(* std::time::SystemTime as nanoseconds since the epoch (Unix: i64 seconds + nanoseconds).
   `t + d` panics on overflow ("overflow when adding duration to instant"); duration_since / elapsed
   return Err when the argument is later and never panic *)
Definition ST_MAX : N := 9223372036854775807 * 1000000000 + 999999999.
Definition st_add (t d : N) : outcome N := if t + d <=? ST_MAX then Ok (t + d) else Panic.
Definition st_duration_since (later earlier : N) : outcome N :=
  if earlier <=? later then Ok (later - earlier) else Err 0.

(* ------------------------------------------------------------------ hex (the `hex` crate, in full) *)
Definition hex_decode (s : string) : outcome (list N) :=
  match unhex s with Some l => Ok l | None => Err 0 end.

(* ------------------------------------------------------------------ RegisterAddress (ant-registers/src/address.rs) *)
Definition XOR_NAME_LEN : N := 32.      (* xor_name::XOR_NAME_LEN *)
Definition PK_SIZE : N := 48.           (* blsttc::PK_SIZE *)

Record reg_addr := { ra_meta : list N; ra_owner : list N }.

(* `pk_ok b` : blsttc's PublicKey::from_bytes accepts the 48 bytes b (third-party oracle).  A key is
   represented by its canonical compressed bytes. *)
Definition reg_from_hex_unfixed (pk_ok : list N -> bool) (s : string) : outcome reg_addr :=
  bind (map_err 1 (hex_decode s)) (fun bytes =>
  bind (slice_to bytes XOR_NAME_LEN) (fun mb =>
  bind (map_err 1 (try_into mb XOR_NAME_LEN)) (fun meta =>
  bind (slice_from bytes XOR_NAME_LEN) (fun ob =>
  bind (map_err 1 (try_into ob PK_SIZE)) (fun owner =>
  if pk_ok owner then Ok {| ra_meta := meta; ra_owner := owner |} else Err 1))))).

(* after `fix:` -- the decoded length is checked before the two slices are taken *)
Definition reg_from_hex (pk_ok : list N -> bool) (s : string) : outcome reg_addr :=
  bind (map_err 1 (hex_decode s)) (fun bytes =>
  if negb (len bytes =? XOR_NAME_LEN + PK_SIZE) then Err 1 else
  bind (slice_to bytes XOR_NAME_LEN) (fun mb =>
  bind (map_err 1 (try_into mb XOR_NAME_LEN)) (fun meta =>
  bind (slice_from bytes XOR_NAME_LEN) (fun ob =>
  bind (map_err 1 (try_into ob PK_SIZE)) (fun owner =>
  if pk_ok owner then Ok {| ra_meta := meta; ra_owner := owner |} else Err 1))))).

Definition reg_to_hex (a : reg_addr) : string := tohex (ra_meta a ++ ra_owner a).

(* ------------------------------------------------------------------ ScratchpadAddress / blsttc PublicKey::from_hex *)
Definition pk_from_hex (pk_ok : list N -> bool) (s : string) : outcome (list N) :=
  bind (map_err 1 (hex_decode s)) (fun bytes =>
  bind (map_err 1 (try_into bytes PK_SIZE)) (fun b =>
  if pk_ok b then Ok b else Err 1)).
Definition scratch_from_hex := pk_from_hex.
Definition scratch_to_hex (owner : list N) : string := tohex owner.

(* ------------------------------------------------------------------ autonomi: str_to_addr, DataMapChunk::from_hex *)
Definition str_to_addr (s : string) : outcome (list N) :=
  bind (map_err 1 (hex_decode s)) (fun bytes => map_err 2 (try_into bytes XOR_NAME_LEN)).
Definition addr_to_str (x : list N) : string := tohex x.

(* NOT the code: a well-meant "accept a 0x prefix" variant that slices the text at byte 2 when it is 66
   bytes long -- kept only for `str_slice_prefix_refuted` (why such probes are in the generated stream) *)
Definition str_to_addr_prefix_tolerant (s : string) : outcome (list N) :=
  if slen s =? 66 then
    bind (str_slice s 0 2) (fun pre =>
    if String.eqb pre "0x" || String.eqb pre "0X"
    then bind (str_slice s 2 66) str_to_addr else str_to_addr s)
  else str_to_addr s.

Definition datamap_from_hex (s : string) : outcome (list N) := map_err 1 (hex_decode s).
Definition datamap_to_hex (d : list N) : string := tohex d.

(* ------------------------------------------------------------------ UTF-8 validity (String::from_utf8) *)
Definition cont (b : N) : bool := (128 <=? b) && (b <=? 191).
Definition btw (lo b hi : N) : bool := (lo <=? b) && (b <=? hi).

Fixpoint utf8_valid (l : list N) : bool :=
  match l with
  | [] => true
  | b0 :: r =>
      if b0 <? 128 then utf8_valid r
      else if btw 194 b0 223 then
        match r with b1 :: r1 => cont b1 && utf8_valid r1 | _ => false end
      else if btw 224 b0 239 then
        match r with
        | b1 :: b2 :: r2 =>
            (if b0 =? 224 then btw 160 b1 191 else if b0 =? 237 then btw 128 b1 159 else cont b1)
            && cont b2 && utf8_valid r2
        | _ => false
        end
      else if btw 240 b0 244 then
        match r with
        | b1 :: b2 :: b3 :: r3 =>
            (if b0 =? 240 then btw 144 b1 191 else if b0 =? 244 then btw 128 b1 143 else cont b1)
            && cont b2 && cont b3 && utf8_valid r3
        | _ => false
        end
      else false
  end.

(* ------------------------------------------------------------------ decrypt_private_key (ant-cli/src/wallet/encryption.rs) *)
Definition SALT : N := Consts.enc_salt_length.
Definition NONCE : N := Consts.enc_nonce_length.

(* `open_ salt nonce ct` : PBKDF2 + ChaCha20-Poly1305 opening under the (implicit) password; None when
   the tag does not verify (third-party oracle).
   error codes: 1 not hex, 2 salt, 3 nonce, 4 cannot open, 5 not UTF-8, 6 too short *)
Definition decrypt_unfixed (open_ : list N -> list N -> list N -> option (list N)) (data : string)
  : outcome (list N) :=
  bind (map_err 1 (hex_decode data)) (fun d =>
  bind (slice_to d SALT) (fun sb =>
  bind (map_err 2 (try_into sb SALT)) (fun salt =>
  bind (slice_range d SALT (SALT + NONCE)) (fun nb =>
  bind (map_err 3 (try_into nb NONCE)) (fun nonce =>
  bind (slice_from d (SALT + NONCE)) (fun ct =>
  match open_ salt nonce ct with
  | None => Err 4
  | Some pt => if utf8_valid pt then Ok pt else Panic      (* from_utf8(..).expect(..) *)
  end)))))).

Definition decrypt (open_ : list N -> list N -> list N -> option (list N)) (data : string)
  : outcome (list N) :=
  bind (map_err 1 (hex_decode data)) (fun d =>
  if len d <? SALT + NONCE then Err 6 else
  bind (slice_to d SALT) (fun sb =>
  bind (map_err 2 (try_into sb SALT)) (fun salt =>
  bind (slice_range d SALT (SALT + NONCE)) (fun nb =>
  bind (map_err 3 (try_into nb NONCE)) (fun nonce =>
  bind (slice_from d (SALT + NONCE)) (fun ct =>
  match open_ salt nonce ct with
  | None => Err 4
  | Some pt => if utf8_valid pt then Ok pt else Err 5
  end)))))).

(* encrypt_private_key produces hex (salt ++ nonce ++ sealed); `seal` is the AEAD's other half *)
Definition encrypt (seal : list N -> list N -> list N -> list N) (salt nonce key : list N) : string :=
  tohex (salt ++ nonce ++ seal salt nonce key).

(* ------------------------------------------------------------------ u16::from_str (core::num, radix 10) *)
Definition u16_from_str (s : string) : option N :=
  let digits :=
    match s with
    | String c r => if Ascii.eqb c "+"%char then r else s
    | EmptyString => s
    end in
  match digits with
  | EmptyString => None                               (* "" -> Empty, "+" -> InvalidDigit *)
  | _ => if all_digits digits && (val digits <? U16) then Some (val digits) else None
  end.

(* str::split(c).collect::<Vec<_>>() : always at least one piece *)
Fixpoint split_on (c : ascii) (s : string) : list string :=
  match s with
  | EmptyString => [EmptyString]
  | String x r =>
      if Ascii.eqb x c then EmptyString :: split_on c r
      else match split_on c r with
           | p :: ps => String x p :: ps
           | [] => [String x EmptyString]
           end
  end.

(* ------------------------------------------------------------------ PortRange (ant-node-manager/src/add_services/config.rs) *)
Inductive port_range := Single (p : N) | Range (a b : N).

Definition port_parse (s : string) : outcome port_range :=
  match u16_from_str s with
  | Some p => Ok (Single p)
  | None =>
      match split_on "-"%char s with
      | [a; b] =>
          match u16_from_str a with
          | None => Err 2
          | Some st =>
              match u16_from_str b with
              | None => Err 2
              | Some en => if en <=? st then Err 3 else Ok (Range st en)
              end
          end
      | _ => Err 1
      end
  end.

(* validate(count): `end - start + 1` in u16 *)
Definition port_validate_unfixed (m : arith_mode) (r : port_range) (count : N) : outcome unit :=
  match r with
  | Single _ => if count =? 1 then Ok tt else Err 1
  | Range a b =>
      bind (sub_w m U16 b a) (fun d =>
      bind (add_w m U16 d 1) (fun pc =>
      if count =? pc then Ok tt else Err 1))
  end.

(* after `fix:` -- checked_sub, then the count is computed in u32 *)
Definition port_validate (r : port_range) (count : N) : outcome unit :=
  match r with
  | Single _ => if count =? 1 then Ok tt else Err 1
  | Range a b =>
      if b <? a then Err 3 else
      bind (add_w Debug U32 (b - a) 1) (fun pc =>
      if count =? pc then Ok tt else Err 1)
  end.

(* the documented text form: "p" or "start-end" in decimal *)
Definition port_format (r : port_range) : string :=
  match r with
  | Single p => dec p
  | Range a b => append (dec a) (String "-"%char (dec b))
  end.

Definition wf_port_range (r : port_range) : bool :=
  match r with Single p => p <? U16 | Range a b => (a <? b) && (b <? U16) end.

(* ------------------------------------------------------------------ consumers of a PortRange (helpers.rs) *)
(* the ports recorded for the existing services: metrics port, node port (both optional), RPC port *)
Definition all_ports (nodes : list (option N * option N * N)) : list N :=
  flat_map (fun t => match t with (m, n, r) => opt_list m ++ opt_list n ++ [r] end) nodes.

(* `start..=end`: inclusive, empty when end < start, and it does not overflow at 65535 *)
Fixpoint range_from (n : nat) (a : N) : list N :=
  match n with O => [] | S k => a :: range_from k (a + 1) end.
Definition range_incl (a b : N) : list N :=
  if b <? a then [] else range_from (N.to_nat (b - a) + 1) a.

(* check_port_availability: Err as soon as a port of the request is recorded for another service *)
Definition check_port_availability (r : port_range) (nodes : list (option N * option N * N)) : outcome unit :=
  let used := all_ports nodes in
  match r with
  | Single p => if existsb (N.eqb p) used then Err 1 else Ok tt
  | Range a b => if existsb (fun i => existsb (N.eqb i) used) (range_incl a b) then Err 1 else Ok tt
  end.

(* NOT the code: the same test through the exclusive range `start..end + 1` computed in u16 -- kept only for
   `port_availability_exclusive_refuted`: panics (debug) or wraps to an empty range (release) when end = 65535 *)
Definition check_port_availability_exclusive (m : arith_mode) (r : port_range) (nodes : list (option N * option N * N))
  : outcome unit :=
  let used := all_ports nodes in
  match r with
  | Single p => if existsb (N.eqb p) used then Err 1 else Ok tt
  | Range a b =>
      bind (add_w m U16 b 1) (fun e =>
      if existsb (fun p => (a <=? p) && (p <? e)) used then Err 1 else Ok tt)
  end.

Definition start_port (r : option port_range) : option N :=
  match r with Some (Single p) => Some p | Some (Range a _) => Some a | None => None end.

(* ------------------------------------------------------------------ increment_port_option (helpers.rs) *)
Definition increment_port_unfixed (m : arith_mode) (p : option N) : outcome (option N) :=
  match p with
  | Some p => bind (add_w m U16 p 1) (fun q => Ok (Some q))
  | None => Ok None
  end.

(* after `fix:` -- checked_add: no next port after 65535 *)
Definition increment_port (p : option N) : outcome (option N) :=
  match p with
  | Some p => if p + 1 <? U16 then Ok (Some (p + 1)) else Ok None
  | None => Ok None
  end.

(* ------------------------------------------------------------------ AttoTokens::from_str (model/Amount.v, C16) *)
Definition amount_from_str (s : string) : outcome N :=
  match Amount.from_str s with
  | POk a => Ok a
  | PErr e => Err (perr_code e)
  end.

(* ------------------------------------------------------------------ craft_valid_multiaddr (ant-bootstrap/src/lib.rs) *)
(* a multiaddress is its protocol list; protocols the function never looks at are `Other` *)
Inductive proto :=
| Ip4 (a : N) | Udp (p : N) | Tcp (p : N) | QuicV1 | Ws (path : string) | P2p (id : string)
| Other (s : string).

Definition is_ip4 p := match p with Ip4 _ => true | _ => false end.
Definition is_udp p := match p with Udp _ => true | _ => false end.
Definition is_tcp p := match p with Tcp _ => true | _ => false end.
Definition is_quic p := match p with QuicV1 => true | _ => false end.
Definition is_ws p := match p with Ws _ => true | _ => false end.
Definition is_p2p p := match p with P2p _ => true | _ => false end.

Definition craft (addr : list proto) (ignore_peer_id : bool) : option (list proto) :=
  let peer := find is_p2p addr in
  match find is_ip4 addr with
  | None => None
  | Some ip =>
      let transport :=
        match find is_udp addr, find is_tcp addr with
        | Some u, _ => Some (u :: opt_list (find is_quic addr))
        | None, Some t => Some (t :: opt_list (find is_ws addr))
        | None, None => None
        end in
      match transport with
      | None => None
      | Some tr =>
          match peer with
          | Some p => Some (ip :: tr ++ [p])
          | None => if ignore_peer_id then Some (ip :: tr) else None
          end
      end
  end.

(* `parse` : Multiaddr::from_str (third-party oracle) *)
Definition craft_from_str (parse : string -> option (list proto)) (s : string) (ignore_peer_id : bool)
  : outcome (list proto) :=
  match parse s with
  | None => Err 1
  | Some a => match craft a ignore_peer_id with Some o => Ok o | None => Err 2 end
  end.

(* the shapes craft_valid_multiaddr produces with ignore_peer_id = false *)
Definition wf_addr (l : list proto) : bool :=
  match l with
  | [Ip4 _; Udp _; P2p _] => true
  | [Ip4 _; Udp _; QuicV1; P2p _] => true
  | [Ip4 _; Tcp _; P2p _] => true
  | [Ip4 _; Tcp _; Ws _; P2p _] => true
  | _ => false
  end.

(* ------------------------------------------------------------------ NodeRegistry::load (ant-service-management/src/lib.rs) *)
(* the file: absent | present but unreadable as UTF-8 | text.  `parse` : serde_json (oracle) *)
Inductive file_state := Absent | Unreadable | Text (t : string).
Inductive registry_result (A : Type) := RDefault | RParsed (v : A).
Arguments RDefault {A}.
Arguments RParsed {A} v.

Definition registry_load {A} (parse : string -> option A) (f : file_state) : outcome (registry_result A) :=
  match f with
  | Absent => Ok RDefault
  | Unreadable => Err 1
  | Text EmptyString => Ok RDefault
  | Text t => match parse t with Some v => Ok (RParsed v) | None => Err 2 end
  end.

(* NodeRegistry::save: File::create + write_all -- the file's whole content is replaced by the formatter's
   output, whatever was there before *)
Definition file_write (old : file_state) (text : string) : file_state := Text text.

(* NOT the code: opening without truncation keeps the tail of a longer previous content -- kept only for
   `write_without_truncate_refuted` (why save -> shorter save -> load sequences are in the generated stream) *)
Fixpoint sdrop (n : nat) (s : string) : string :=
  match n, s with
  | O, _ => s
  | S k, String _ r => sdrop k r
  | S _, EmptyString => EmptyString
  end.
Definition file_write_no_truncate (old : file_state) (text : string) : file_state :=
  match old with
  | Text o => Text (append text (sdrop (String.length text) o))
  | _ => Text text
  end.

(* a history of saves on one path, then what is on disk *)
Definition saves (init : file_state) (texts : list string) : file_state := fold_left file_write texts init.

(* ------------------------------------------------------------------ RecordHeader::from_record (ant-protocol/src/storage/header.rs) *)
Definition HEADER_SIZE : N := Consts.c17_header_size.

(* `decode` : rmp_serde::from_slice::<RecordHeader> on the header bytes (oracle; its codec is C12's) *)
Definition header_from_record (decode : list N -> option N) (value : list N) : outcome N :=
  if len value <? HEADER_SIZE + 1 then Err 1 else
  bind (slice_to value (HEADER_SIZE + 1)) (fun h =>
  match decode h with Some k => Ok k | None => Err 1 end).

(* try_deserialize_record: the payload after the header *)
Definition record_payload (value : list N) : outcome (list N) :=
  if HEADER_SIZE <? len value then slice_from value HEADER_SIZE else Err 2.

(* try_deserialize_record::<T>: length test, then the slice after the header, then rmp-serde (`decode`, oracle) *)
Definition try_deserialize_record {A} (decode : list N -> option A) (value : list N) : outcome A :=
  bind (record_payload value) (fun b => match decode b with Some v => Ok v | None => Err 2 end).

(* NOT the code: slicing before the length test -- kept only for `payload_slice_first_refuted` *)
Definition try_deserialize_record_slice_first {A} (decode : list N -> option A) (value : list N) : outcome A :=
  bind (slice_from value HEADER_SIZE) (fun b =>
  match b with [] => Err 2 | _ => match decode b with Some v => Ok v | None => Err 2 end end).

(* ------------------------------------------------------------------ agreement predicates (generated case files) *)
Definition outcome_eqb {A} (eqb : A -> A -> bool) (a b : outcome A) : bool :=
  match a, b with
  | Ok x, Ok y => eqb x y
  | Err c, Err d => c =? d
  | Panic, Panic => true
  | _, _ => false
  end.

(* implementation results travel as: 0 = Ok, 1 = Err, 2 = Panic (error kinds where the code exposes them) *)
Definition kind_of {A} (o : outcome A) : N := match o with Ok _ => 0 | Err _ => 1 | Panic => 2 end.
Definition errcode {A} (o : outcome A) : N := match o with Err c => c | _ => 0 end.

Definition agree_bytes_outcome (o : outcome (list N)) (kind : N) (v : list N) : bool :=
  match o with
  | Ok x => (kind =? 0) && bytes_eqb x v
  | Err _ => kind =? 1
  | Panic => kind =? 2
  end.

Definition agree_reg (unfixed : bool) (pk_ok : bool) (s : string) (kind : N) (hex : string) : bool :=
  let o := (if unfixed then reg_from_hex_unfixed else reg_from_hex) (fun _ => pk_ok) s in
  match o with
  | Ok a => (kind =? 0) && String.eqb (reg_to_hex a) hex
  | Err _ => kind =? 1
  | Panic => kind =? 2
  end.

Definition agree_reg_roundtrip (meta pk : list N) (hex : string) : bool :=
  let a := {| ra_meta := meta; ra_owner := pk |} in
  String.eqb (reg_to_hex a) hex &&
  match reg_from_hex (fun _ => true) hex with
  | Ok b => bytes_eqb (ra_meta b) meta && bytes_eqb (ra_owner b) pk
  | _ => false
  end.

Definition agree_scratch (pk_ok : bool) (s : string) (kind : N) (hex : string) : bool :=
  match scratch_from_hex (fun _ => pk_ok) s with
  | Ok b => (kind =? 0) && String.eqb (scratch_to_hex b) hex
  | Err _ => kind =? 1
  | Panic => kind =? 2
  end.

Definition agree_str_to_addr (s : string) (kind code : N) (hex : string) : bool :=
  match str_to_addr s with
  | Ok b => (kind =? 0) && String.eqb (addr_to_str b) hex
  | Err c => (kind =? 1) && (c =? code)
  | Panic => kind =? 2
  end.

Definition agree_datamap (s : string) (kind : N) (hex : string) : bool :=
  match datamap_from_hex s with
  | Ok b => (kind =? 0) && String.eqb (datamap_to_hex b) hex
  | Err _ => kind =? 1
  | Panic => kind =? 2
  end.

Definition agree_hex_roundtrip (b : list N) (hex : string) : bool :=
  String.eqb (tohex b) hex && match unhex hex with Some b' => bytes_eqb b b' | None => false end.

(* decrypt: `opened` is what the AEAD oracle answered for this input (None: tag rejected) *)
Definition agree_decrypt (unfixed : bool) (opened : option (list N)) (data : string)
           (kind code : N) (out : list N) : bool :=
  let o := (if unfixed then decrypt_unfixed else decrypt) (fun _ _ _ => opened) data in
  match o with
  | Ok x => (kind =? 0) && bytes_eqb x out
  | Err c => (kind =? 1) && (c =? code)
  | Panic => kind =? 2
  end.

Definition port_eqb (a b : port_range) : bool :=
  match a, b with
  | Single p, Single q => p =? q
  | Range a1 b1, Range a2 b2 => (a1 =? a2) && (b1 =? b2)
  | _, _ => false
  end.

(* shape: 0 = Single, 1 = Range, 2 = Err *)
Definition agree_port_parse (s : string) (shape a b : N) : bool :=
  match port_parse s with
  | Ok (Single p) => (shape =? 0) && (p =? a)
  | Ok (Range x y) => (shape =? 1) && (x =? a) && (y =? b)
  | Err _ => shape =? 2
  | Panic => false
  end.

(* which transcription the implementation under test is compared with: the code as it is now, or the code
   before the repairs under debug-build (panicking) or release-build (wrapping) arithmetic.  The repaired
   code has no overflowing operation left, so `Fixed` is the model for both build profiles. *)
Inductive variant := Fixed | Unfixed (m : arith_mode).

(* vkind: 0 = Ok(()), 1 = Err, 2 = Panic *)
Definition agree_port_validate (v : variant) (s : string) (count vkind : N) : bool :=
  match port_parse s with
  | Ok r => kind_of (match v with Fixed => port_validate r count | Unfixed m => port_validate_unfixed m r count end) =? vkind
  | _ => false
  end.

Definition agree_incr (v : variant) (p : option N) (kind : N) (r : option N) : bool :=
  match (match v with Fixed => increment_port p | Unfixed m => increment_port_unfixed m p end) with
  | Ok q => (kind =? 0) && option_eqb N.eqb q r
  | Err _ => kind =? 1
  | Panic => kind =? 2
  end.

(* avail: the implementation returned Ok(()); start: get_start_port_if_applicable *)
Definition agree_port_avail (r : port_range) (nodes : list (option N * option N * N)) (kind : N) (start : option N) : bool :=
  (kind_of (check_port_availability r nodes) =? kind) && option_eqb N.eqb (start_port (Some r)) start.

(* decode_ok: what rmp-serde said about the bytes after the header (None: there are none) *)
Definition agree_payload (value : list N) (decode_ok : option bool) (kind : N) : bool :=
  kind_of (try_deserialize_record (fun _ => match decode_ok with Some true => Some tt | _ => None end) value) =? kind.

Definition agree_amount (s : string) (code v : N) : bool :=
  match amount_from_str s with
  | Ok a => (code =? 0) && (a =? v)
  | Err c => c =? code
  | Panic => false
  end.

Definition proto_eqb (a b : proto) : bool :=
  match a, b with
  | Ip4 x, Ip4 y => x =? y
  | Udp x, Udp y => x =? y
  | Tcp x, Tcp y => x =? y
  | QuicV1, QuicV1 => true
  | Ws x, Ws y => String.eqb x y
  | P2p x, P2p y => String.eqb x y
  | Other x, Other y => String.eqb x y
  | _, _ => false
  end.

Definition agree_craft (parsed : option (list proto)) (ignore : bool) (out : option (list proto)) : bool :=
  match craft_from_str (fun _ => parsed) EmptyString ignore, out with
  | Ok o, Some o' => list_eqb proto_eqb o o'
  | Err _, None => true
  | _, _ => false
  end.

(* file: 0 absent, 1 unreadable, 2 text; parse_ok: serde_json's verdict; result: 0 default, 1 parsed, 2 err *)
Definition agree_registry (fkind : N) (text : string) (parse_ok : bool) (res : N) : bool :=
  let f := match fkind with 0 => Absent | 1 => Unreadable | _ => Text text end in
  match registry_load (fun _ => if parse_ok then Some tt else None) f with
  | Ok RDefault => res =? 0
  | Ok (RParsed _) => res =? 1
  | Err _ => res =? 2
  | Panic => false
  end.

(* save sequence on one path: after each save the implementation's file equals the formatter's output
   (what `file_write` says), step by step from the previous content *)
Fixpoint agree_saves (cur : file_state) (steps : list (string * string)) : bool :=
  match steps with
  | [] => true
  | (fmt, file_after) :: rest =>
      match file_write cur fmt with
      | Text t => String.eqb t file_after && agree_saves (Text t) rest
      | _ => false
      end
  end.

Definition agree_header (value : list N) (oracle : option N) (kind : N) (k : N) : bool :=
  match header_from_record (fun _ => oracle) value with
  | Ok x => (kind =? 0) && (x =? k)
  | Err _ => kind =? 1
  | Panic => kind =? 2
  end.
