(* Model of ant-evm/src/amount.rs: AttoTokens Display / FromStr / checked arithmetic.
   Amounts are N with the 256-bit bound written explicitly wherever the code can overflow. *)
From Coq Require Import List NArith String Ascii Bool.
From V Require Import lib.Strs lib.Dec gen.Consts.
Import ListNotations.
Open Scope N_scope.

Definition U256 : N := 2 ^ 256.
Definition RAW : N := Consts.token_raw_conversion.          (* TOKEN_TO_RAW_CONVERSION *)

(* the repaired helper `parse_decimal`: non-empty, ASCII digits only, must fit 256 bits
   (ruint's from_str_radix reports overflow as an error) *)
Definition parse_decimal (s : string) : option N :=
  match s with
  | EmptyString => None
  | _ => if all_digits s then (if val s <? U256 then Some (val s) else None) else None
  end.

(* str::splitn(2, '.') : first piece, and the rest after the first '.' if there is one *)
Fixpoint split_dot (s : string) : string * option string :=
  match s with
  | EmptyString => (EmptyString, None)
  | String c r =>
      if Ascii.eqb c "."%char then (EmptyString, Some r)
      else let (a, b) := split_dot r in (String c a, b)
  end.

Inductive perr := EUnits | ERemainder | ELossOfPrecision | EExcessive.
Inductive pres := POk (a : N) | PErr (e : perr).

Definition from_str (s : string) : pres :=
  let (us, rs) := split_dot s in
  match parse_decimal us with
  | None => PErr EUnits
  | Some units =>
      if U256 <=? units * RAW then PErr EExcessive else
      let r := trim0 (match rs with Some r => r | None => EmptyString end) in
      match r with
      | EmptyString => POk (units * RAW)
      | _ =>
          match parse_decimal r with
          | None => PErr ERemainder
          | Some pr =>
              if Consts.token_decimals <? slen r then PErr ELossOfPrecision else
              let rem := pr * 10 ^ (Consts.token_decimals - slen r) in
              if U256 <=? rem then PErr EExcessive else
              if U256 <=? units * RAW + rem then PErr EExcessive else POk (units * RAW + rem)
          end
      end
  end.

Definition display (a : N) : string :=
  append (dec (a / RAW)) (String "."%char (pad_left Consts.display_pad (dec (a mod RAW)))).

Definition checked_add (a b : N) : option N := if a + b <? U256 then Some (a + b) else None.
Definition checked_sub (a b : N) : option N := if b <=? a then Some (a - b) else None.

(* ---- agreement predicates used by the generated case files ---- *)
Definition perr_code (e : perr) : N :=
  match e with EUnits => 1 | ERemainder => 2 | ELossOfPrecision => 3 | EExcessive => 4 end.

(* implementation outcome as reported by the harness: (0, value) for Ok, (code, 0) for Err *)
Definition agree_from_str (s : string) (code v : N) : bool :=
  match from_str s with
  | POk a => (code =? 0) && (a =? v)
  | PErr e => code =? perr_code e
  end.

Definition agree_display (a : N) (s : string) : bool := String.eqb (display a) s.

Definition agree_add (a b : N) (r : option N) : bool := option_eqb N.eqb (checked_add a b) r.
Definition agree_sub (a b : N) (r : option N) : bool := option_eqb N.eqb (checked_sub a b) r.
