(* Model of the two service-definition builders (C20):
     ant-node-manager/src/add_services/config.rs   InstallNodeServiceCtxBuilder::build      (installation)
     ant-service-management/src/node.rs            NodeService::build_upgrade_install_context (upgrade)
                                                   push_arguments_from_peers_args            (shared)
   and of the shape of the antnode command line (clap attributes of Opt / PeersArgs / EvmNetworkCommand,
   regenerated into gen/Consts.v): named flags in any order, then the EVM network sub-command with
   its own options.  Definitions only. *)
From Coq Require Import List NArith String Ascii Bool.
From V Require Import lib.Strs lib.Dec gen.Consts.
Import ListNotations.
Open Scope string_scope.

Inductive evm := EvmOne | EvmSepolia | EvmCustom (url token payments : string).
Inductive logfmt := LDefault | LJson.

(* one option combination = the fields of InstallNodeServiceCtxBuilder = the fields add_node copies
   into NodeServiceData (values already in the textual form `to_string()` gives them) *)
Record cfg := mkCfg {
  c_rpc : string; c_root : string; c_log : string;
  c_first : bool; c_local : bool; c_addrs : list string; c_urls : list string;
  c_testnet : bool; c_ignore : bool; c_cache : option string;
  c_netid : option N; c_home : bool; c_logfmt : option logfmt; c_upnp : bool;
  c_ip : option string; c_port : option N; c_metrics : option N; c_owner : option string;
  c_maxarch : option N; c_maxlog : option N; c_rewards : string; c_evm : evm;
  c_autostart : bool; c_name : string; c_program : string; c_user : option string
}.

Inductive item := IFlag (n : string) | IOpt (n v : string).
Definition iname (i : item) : string := match i with IFlag n => n | IOpt n _ => n end.
Definition ivalue (i : item) : option string := match i with IFlag _ => None | IOpt _ v => Some v end.
Definition takes_value (i : item) : bool := match i with IFlag _ => false | IOpt _ _ => true end.

Fixpoint render (l : list item) : list string :=
  match l with
  | [] => []
  | IFlag n :: r => n :: render r
  | IOpt n v :: r => n :: v :: render r
  end.

(* `.join(",")` *)
Fixpoint join_comma (l : list string) : string :=
  match l with
  | [] => ""
  | [x] => x
  | x :: r => x ++ "," ++ join_comma r
  end.

Definition logfmt_str (f : logfmt) : string := match f with LDefault => "default" | LJson => "json" end.

(* every conditional `args.push` of the two builders is one segment *)
Inductive seg :=
| SRpc | SRoot | SLog
| SFirst | SLocal | SPeer | SUrls | STestnet | SIgnore | SCache          (* push_arguments_from_peers_args *)
| SNetId | SHome | SLogFmt | SUpnp | SIp | SPort | SMetrics | SOwner | SMaxArch | SMaxLog | SRewards.

Definition seg_name (s : seg) : string :=
  match s with
  | SRpc => "--rpc" | SRoot => "--root-dir" | SLog => "--log-output-dest"
  | SFirst => "--first" | SLocal => "--local" | SPeer => "--peer" | SUrls => "--network-contacts-url"
  | STestnet => "--testnet" | SIgnore => "--ignore-cache" | SCache => "--bootstrap-cache-dir"
  | SNetId => "--network-id" | SHome => "--home-network" | SLogFmt => "--log-format" | SUpnp => "--upnp"
  | SIp => "--ip" | SPort => "--port" | SMetrics => "--metrics-server-port" | SOwner => "--owner"
  | SMaxArch => "--max-archived-log-files" | SMaxLog => "--max-log-files" | SRewards => "--rewards-address"
  end.

(* does the segment's flag carry a value *)
Definition seg_arity (s : seg) : bool :=
  match s with SFirst | SLocal | STestnet | SIgnore | SHome | SUpnp => false | _ => true end.

Definition oflag (b : bool) (s : seg) : list item := if b then [IFlag (seg_name s)] else [].
Definition oopt {A} (o : option A) (s : seg) (f : A -> string) : list item :=
  match o with Some x => [IOpt (seg_name s) (f x)] | None => [] end.
Definition olist (l : list string) (s : seg) : list item :=
  match l with [] => [] | _ => [IOpt (seg_name s) (join_comma l)] end.

Definition seg_items (c : cfg) (s : seg) : list item :=
  match s with
  | SRpc => [IOpt (seg_name s) (c_rpc c)]
  | SRoot => [IOpt (seg_name s) (c_root c)]
  | SLog => [IOpt (seg_name s) (c_log c)]
  | SFirst => oflag (c_first c) s
  | SLocal => oflag (c_local c) s
  | SPeer => olist (c_addrs c) s
  | SUrls => olist (c_urls c) s
  | STestnet => oflag (c_testnet c) s
  | SIgnore => oflag (c_ignore c) s
  | SCache => oopt (c_cache c) s (fun x => x)
  | SNetId => oopt (c_netid c) s dec
  | SHome => oflag (c_home c) s
  | SLogFmt => oopt (c_logfmt c) s logfmt_str
  | SUpnp => oflag (c_upnp c) s
  | SIp => oopt (c_ip c) s (fun x => x)
  | SPort => oopt (c_port c) s dec
  | SMetrics => oopt (c_metrics c) s dec
  | SOwner => oopt (c_owner c) s (fun x => x)
  | SMaxArch => oopt (c_maxarch c) s dec
  | SMaxLog => oopt (c_maxlog c) s dec
  | SRewards => [IOpt (seg_name s) (c_rewards c)]
  end.

Definition peers_order : list seg := [SFirst; SLocal; SPeer; SUrls; STestnet; SIgnore; SCache].

(* InstallNodeServiceCtxBuilder::build, in source order *)
Definition install_order : list seg :=
  [SRpc; SRoot; SLog] ++ peers_order ++
  [SNetId; SHome; SLogFmt; SUpnp; SIp; SPort; SMetrics; SOwner; SMaxArch; SMaxLog; SRewards].
(* NodeService::build_upgrade_install_context, in source order *)
Definition upgrade_order : list seg :=
  [SRpc; SRoot; SLog] ++ peers_order ++
  [SLogFmt; SNetId; SUpnp; SHome; SIp; SPort; SMetrics; SMaxArch; SMaxLog; SOwner; SRewards].

Definition install_main (c : cfg) : list item := flat_map (seg_items c) install_order.
Definition upgrade_main (c : cfg) : list item := flat_map (seg_items c) upgrade_order.

(* `args.push(evm_network.to_string())` and, for a custom network, its three options *)
Definition evm_name (e : evm) : string :=
  match e with EvmOne => "evm-arbitrum-one" | EvmSepolia => "evm-arbitrum-sepolia" | EvmCustom _ _ _ => "evm-custom" end.
Definition evm_items (e : evm) : list item :=
  match e with
  | EvmCustom u t p => [IOpt "--rpc-url" u; IOpt "--payment-token-address" t; IOpt "--data-payments-address" p]
  | _ => []
  end.
Definition evm_tokens (e : evm) : list string := evm_name e :: render (evm_items e).

Definition install_args (c : cfg) : list string := render (install_main c) ++ evm_tokens (c_evm c).
Definition upgrade_args (c : cfg) : list string := render (upgrade_main c) ++ evm_tokens (c_evm c).

(* ServiceInstallCtx (contents = None, working_directory = None in both builders) *)
Record ictx := mkCtx {
  x_args : list string; x_autostart : bool; x_env : option (list (string * string));
  x_label : string; x_program : string; x_user : option string
}.

(* UpgradeOptions as far as the definition is concerned *)
Record uopts := mkU { u_autostart : bool; u_env : option (list (string * string)) }.

Definition install_ctx (c : cfg) (env : option (list (string * string))) : ictx :=
  mkCtx (install_args c) (c_autostart c) env (c_name c) (c_program c) (c_user c).

(* `r` is the registry record (what add_node stored, possibly with the observed node port).
   The auto-restart setting comes from the record (after the repair; before it: from `u_autostart`) *)
Definition upgrade_ctx (r : cfg) (o : uopts) : ictx :=
  mkCtx (upgrade_args r) (c_autostart r) (u_env o) (c_name r) (c_program r) (c_user r).
Definition upgrade_ctx_legacy (r : cfg) (o : uopts) : ictx :=
  mkCtx (upgrade_args r) (u_autostart o) (u_env o) (c_name r) (c_program r) (c_user r).

Definition set_port (c : cfg) (p : option N) : cfg :=
  mkCfg (c_rpc c) (c_root c) (c_log c) (c_first c) (c_local c) (c_addrs c) (c_urls c) (c_testnet c) (c_ignore c)
        (c_cache c) (c_netid c) (c_home c) (c_logfmt c) (c_upnp c) (c_ip c) p (c_metrics c) (c_owner c)
        (c_maxarch c) (c_maxlog c) (c_rewards c) (c_evm c) (c_autostart c) (c_name c) (c_program c) (c_user c).

(* ---------------------------------------------------------------- the antnode side *)
(* flag table: long flag |-> takes a value; sub-command table: name |-> its flag table *)
Fixpoint tlookup (k : string) (t : list (string * bool)) : option bool :=
  match t with [] => None | (k', v) :: r => if String.eqb k' k then Some v else tlookup k r end.

Definition wf_item (t : list (string * bool)) (i : item) : bool :=
  match tlookup (iname i) t with Some b => Bool.eqb b (takes_value i) | None => false end.

(* positional reading of a token list against a flag table (what a named-flag parser does) *)
Fixpoint parse_flags (t : list (string * bool)) (fuel : nat) (l : list string) : option (list item) :=
  match fuel with
  | O => match l with [] => Some [] | _ => None end
  | S fuel' =>
      match l with
      | [] => Some []
      | n :: r =>
          match tlookup n t with
          | Some false => option_map (cons (IFlag n)) (parse_flags t fuel' r)
          | Some true => match r with
                         | v :: r' => option_map (cons (IOpt n v)) (parse_flags t fuel' r')
                         | [] => None
                         end
          | None => None
          end
      end
  end.

Fixpoint slookup (k : string) (t : list (string * list (string * bool))) : option (list (string * bool)) :=
  match t with [] => None | (k', v) :: r => if String.eqb k' k then Some v else slookup k r end.

(* main flags until a sub-command name appears in flag position; the rest belongs to the sub-command *)
Fixpoint parse_cmd (t : list (string * bool)) (subs : list (string * list (string * bool))) (fuel : nat)
         (l : list string) : option (list item * option (string * list item)) :=
  match fuel with
  | O => match l with [] => Some ([], None) | _ => None end
  | S fuel' =>
      match l with
      | [] => Some ([], None)
      | n :: r =>
          match slookup n subs with
          | Some st => option_map (fun its => ([], Some (n, its))) (parse_flags st (List.length r) r)
          | None =>
              match tlookup n t with
              | Some false => option_map (fun x => (IFlag n :: fst x, snd x)) (parse_cmd t subs fuel' r)
              | Some true => match r with
                             | v :: r' => option_map (fun x => (IOpt n v :: fst x, snd x)) (parse_cmd t subs fuel' r')
                             | [] => None
                             end
              | None => None
              end
          end
      end
  end.

(* the interpretation of a parsed command line: each flag's value, whatever the order *)
Fixpoint ilookup (f : string) (l : list item) : option (option string) :=
  match l with
  | [] => None
  | i :: r => if String.eqb (iname i) f then Some (ivalue i) else ilookup f r
  end.

(* ---------------------------------------------------------------- agreement with the implementation *)
Definition ls_eqb := list_eqb String.eqb.
Definition agree_args (c : cfg) (install upgrade : list string) : bool :=
  ls_eqb (install_args c) install && ls_eqb (upgrade_args c) upgrade.

Definition ostr_eqb := option_eqb String.eqb.
Definition env_eqb := option_eqb (list_eqb (fun a b : string * string => String.eqb (fst a) (fst b) && String.eqb (snd a) (snd b))).

Definition ctx_eqb (a b : ictx) : bool :=
  ls_eqb (x_args a) (x_args b) && Bool.eqb (x_autostart a) (x_autostart b) && env_eqb (x_env a) (x_env b) &&
  String.eqb (x_label a) (x_label b) && String.eqb (x_program a) (x_program b) && ostr_eqb (x_user a) (x_user b).

(* c = the options given to `antctl add`; r = the same with the observed node port; both real contexts *)
Definition agree_ctxs (c : cfg) (env : option (list (string * string))) (observed : option N) (o : uopts)
           (install upgrade : ictx) : bool :=
  ctx_eqb (install_ctx c env) install &&
  ctx_eqb (upgrade_ctx (match observed with Some p => set_port c (Some p) | None => c end) o) upgrade.

(* ---------------------------------------------------------------- the run-time meaning of --network-id *)
(* ant-protocol/src/version.rs: format!("ant/node/{}/{}", truncated_version, NETWORK_ID) etc.; the formats, the
   default id and the truncated crate version are regenerated from the source *)
Fixpoint fill (fmt : string) (args : list string) : string :=
  match fmt with
  | String "{" (String "}" r) => match args with a :: rest => a ++ fill r rest | [] => fill r [] end
  | String c r => String c (fill r args)
  | EmptyString => EmptyString
  end.

Definition effective_netid (c : cfg) : N := match c_netid c with Some n => n | None => Consts.default_network_id end.

(* the protocol strings a node installed with configuration c runs with, in declaration order
   (identify node version, identify client version, request/response protocol, identify protocol) *)
Definition protocol_strings (c : cfg) : list string :=
  map (fun f => fill f [Consts.ant_protocol_version_truncated; dec (effective_netid c)]) Consts.protocol_str_formats.

(* what the node reports: its network id and the four strings *)
Definition agree_protocol (c : cfg) (id : string) (reported : list string) : bool :=
  String.eqb (dec (effective_netid c)) id && ls_eqb (protocol_strings c) reported.

(* ---------------------------------------------------------------- the service's life between installation and upgrade *)
(* NodeService::on_start(pid, full_refresh = true) rewrites exactly one installable setting of the record: the node
   port, to the port of the first listener with a UDP component; on_stop, on_start(pid, false) (registry refresh)
   and the save / reload of the registry rewrite none *)
Inductive life := LStart (observed_port : N) | LStop | LRefresh.
Definition life_step (r : cfg) (l : life) : cfg :=
  match l with LStart p => set_port r (Some p) | LStop | LRefresh => r end.
Definition after_life (c : cfg) (ls : list life) : cfg := fold_left life_step ls c.

(* ---------------------------------------------------------------- which EVM network the node resolves *)
Fixpoint env_get (k : string) (env : list (string * string)) : option string :=
  match env with [] => None | (k', v) :: r => if String.eqb k' k then Some v else env_get k r end.

(* evmlib::utils::get_evm_network_from_env (the `local` test network is not modelled: None) *)
Definition evm_from_env (env : list (string * string)) : option evm :=
  let net := env_get "EVM_NETWORK" env in
  if ostr_eqb net (Some "arbitrum-one") then Some EvmOne
  else if ostr_eqb net (Some "arbitrum-sepolia") then Some EvmSepolia
  else match env_get "RPC_URL" env, env_get "PAYMENT_TOKEN_ADDRESS" env, env_get "DATA_PAYMENTS_ADDRESS" env with
       | Some u, Some t, Some p => Some (EvmCustom u t p)
       | _, _, _ => None
       end.

(* EvmNetworkCommand -> EvmNetwork *)
Definition evm_of_sub (name : string) (its : list item) : option evm :=
  if String.eqb name "evm-arbitrum-one" then Some EvmOne
  else if String.eqb name "evm-arbitrum-sepolia" then Some EvmSepolia
  else if String.eqb name "evm-custom" then
    match ilookup "--rpc-url" its, ilookup "--payment-token-address" its, ilookup "--data-payments-address" its with
    | Some (Some u), Some (Some t), Some (Some p) => Some (EvmCustom u t p)
    | _, _, _ => None
    end
  else None.

(* antnode main: opt.evm_network.map(Into::into).unwrap_or_else(get_evm_network_from_env) *)
Definition resolve_evm (sub : option (string * list item)) (env : list (string * string)) : option evm :=
  match sub with
  | Some (name, its) => evm_of_sub name its
  | None => evm_from_env env
  end.

Definition evm_report (e : option evm) : string :=
  match e with
  | Some (EvmCustom u t p) => "evm-custom " ++ u ++ " " ++ t ++ " " ++ p
  | Some e => evm_name e
  | None => "unresolved"
  end.

(* what the node reports it resolved, given the service environment the manager wrote *)
Definition agree_evm (c : cfg) (env : option (list (string * string))) (reported : string) : bool :=
  String.eqb (evm_report (resolve_evm (Some (evm_name (c_evm c), evm_items (c_evm c)))
                                      (match env with Some l => l | None => [] end))) reported.

(* the record the upgrade reads = the installed options after the service's life *)
Definition agree_ctxs_life (c : cfg) (env : option (list (string * string))) (ls : list life) (o : uopts)
           (install upgrade : ictx) : bool :=
  ctx_eqb (install_ctx c env) install && ctx_eqb (upgrade_ctx (after_life c ls) o) upgrade.

(* ---------------------------------------------------------------- ServiceManager::upgrade *)
(* between build_upgrade_install_context and ServiceControl::install the context is not touched, whatever
   `force` and `start_service` are *)
Definition upgrade_installed_ctx (r : cfg) (o : uopts) (force start_service : bool) : ictx := upgrade_ctx r o.

Definition agree_ctxs_upgrade (c : cfg) (env : option (list (string * string))) (ls : list life) (o : uopts)
           (force start_service : bool) (install upgrade : ictx) : bool :=
  ctx_eqb (install_ctx c env) install && ctx_eqb (upgrade_installed_ctx (after_life c ls) o force start_service) upgrade.

(* ---------------------------------------------------------------- where the node looks for its first peers *)
(* PeersArgs::get_bootstrap_addr(config, Some(count)), stage by stage.  `usable` = how many of the --peer
   addresses survive craft_valid_multiaddr (an address without /p2p/<id> is dropped), `cached` = how many the
   bootstrap cache yields, `from_urls` = how many the --network-contacts-url endpoints return.  (ANT_PEERS is not
   part of what the manager writes and is empty in the service environment.) *)
Inductive source := SrcUrls | SrcMainnet.

Definition select_sources (first local testnet ignore_cache : bool) (urls : list string)
           (usable cached from_urls count : nat) : list source :=
  if first then [] else                                   (* "First node in network, no initial bootstrap peers" *)
  if local then [] else                                   (* mDNS only *)
  if Nat.leb count usable then [] else                    (* enough from the arguments *)
  let have := (usable + (if ignore_cache then 0 else cached))%nat in
  if negb ignore_cache && Nat.leb count have then [] else
  let after_urls := match urls with [] => have | _ => (have + from_urls)%nat end in
  (match urls with [] => [] | _ => [SrcUrls] end) ++
  (if (match urls with [] => false | _ => Nat.leb count after_urls end) then []
   else if testnet then [] else [SrcMainnet]).           (* `if !self.disable_mainnet_contacts` *)

Definition source_eqb (a b : source) : bool :=
  match a, b with SrcUrls, SrcUrls | SrcMainnet, SrcMainnet => true | _, _ => false end.

(* the sources the node of configuration c queries, for the numbers the harness's recording proxy hands out *)
Definition cfg_sources (c : cfg) (usable cached from_urls count : nat) : list source :=
  select_sources (c_first c) (c_local c) (c_testnet c) (c_ignore c) (c_urls c) usable cached from_urls count.

Definition agree_sources (c : cfg) (usable cached from_urls count : nat) (urls_seen mainnet_seen : bool) : bool :=
  let s := cfg_sources c usable cached from_urls count in
  Bool.eqb (existsb (source_eqb SrcUrls) s) urls_seen && Bool.eqb (existsb (source_eqb SrcMainnet) s) mainnet_seen.

(* ---------------------------------------------------------------- the run-time meaning of the log-file limits *)
(* ant-logging TracingLayers::fmt_layer: the file appender keeps `uncompressed` plain files and `total` files in all
   (the rest gzip-archived): uncompressed = --max-log-files or the default; total = archived + uncompressed when
   --max-archived-log-files is given (0 included: keep no archive), else max(uncompressed, default total) *)
Definition log_limits (c : cfg) : N * N :=
  let u := match c_maxlog c with Some n => n | None => Consts.log_default_uncompressed end in
  (u, match c_maxarch c with Some a => a + u | None => N.max u Consts.log_default_total end).

Definition agree_log_limits (c : cfg) (uncompressed total : N) : bool :=
  let '(u, t) := log_limits c in N.eqb u uncompressed && N.eqb t total.
