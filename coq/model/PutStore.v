(* Model of `impl RecordStore for NodeRecordStore { fn put }` (ant-networking/src/record_store.rs):
   a record arriving from the network is never stored by `put`; it is size-checked, header-checked,
   de-duplicated against the index and otherwise forwarded to the node for validation as
   NetworkEvent::UnverifiedRecord.  Definitions only. *)
From Coq Require Import List NArith Bool.
From V Require Import lib.Strs gen.Consts model.PutValidation.
Import ListNotations.
Open Scope N_scope.

(* RecordType of an index entry *)
Inductive rtype := RTChunk | RTPad | RTNonChunk (h : N).

(* what `put` looks at: the value's length, its header (None: does not parse) and its content hash *)
Record incoming := { in_len : N; in_hdr : option kind; in_hash : N }.

Inductive put_res := PRTooLarge | PRIgnored | PRForward.

Definition rs_put (max : N) (held : option rtype) (r : incoming) : put_res :=
  if max <=? in_len r then PRTooLarge else          (* record.value.len() >= max_value_bytes *)
  match in_hdr r with
  | None => PRIgnored                                 (* header parse failure: Ok(()), no event *)
  | Some KChunkPaid | Some KRegPaid => PRForward      (* "with payment shall always be processed" *)
  | Some _ =>
      match held with
      | Some RTChunk => PRIgnored
      | Some (RTNonChunk h) => if h =? in_hash r then PRIgnored else PRForward
      | _ => PRForward
      end
  end.

(* the store as `put` could change it: index, readable records, files on disk *)
Record rstate := { rs_index : list (name * rtype);
                   rs_readable : list (name * stored);
                   rs_files : list name }.

Fixpoint idx_lookup (l : list (name * rtype)) (k : name) : option rtype :=
  match l with
  | [] => None
  | (k', t) :: r => if name_eqb k k' then Some t else idx_lookup r k
  end.

(* one call of `put`: result, state afterwards, keys of the UnverifiedRecord events emitted *)
Definition rs_put_step (max : N) (s : rstate) (k : name) (r : incoming) : put_res * rstate * list name :=
  let o := rs_put max (idx_lookup (rs_index s) k) r in
  (o, s, match o with PRForward => [k] | _ => [] end).

Definition put_res_code (o : put_res) : N :=
  match o with PRTooLarge => 1 | PRIgnored => 2 | PRForward => 3 end.

(* harness: (1 = ValueTooLarge, 2 = Ok without event, 3 = Ok with one UnverifiedRecord event) *)
Definition agree_put (max : N) (held : option rtype) (r : incoming) (code : N) : bool :=
  put_res_code (rs_put max held r) =? code.
