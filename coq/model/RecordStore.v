(* Model of the node record store: ant-networking/src/record_store.rs (NodeRecordStore, RecordCache),
   the dispatch in record_store_api.rs and the store-related arms of cmd.rs handle_local_cmd
   (PutLocalRecord, AddLocalRecordAsStored, RemoveFailedLocalRecord, TriggerIrrelevantRecordCleanup,
   PaymentReceived, GetLocalQuotingMetrics).  Shared by C01, C10 and C02.  Definitions only.

   What is explicit here that is ambient in the code:
   * spawned background work is a list of pending `task`s (`tasks`); the scheduler is the op `ORun i`
     (run the i-th pending task; allowed iff no earlier pending task works on the same file);
   * completion notifications travel through the local-swarm-cmd channel (`chan`); the swarm
     driver's handling of one of them is the op `ODeliver j` (any pending one);
   * a process crash is the op `OCrash tears`: writes in progress leave a byte prefix, everything
     not yet run is lost, the store is re-opened over the directory (`reopen` =
     with_config + update_records_from_an_existing_store);
   * distances (sha256/xor), content hashes (sha3) and the AEAD cipher are data of the environment;
   * SystemTime: the cache is kept oldest-first (time stamps strictly increase), the store's start
     time stamp is the number of the start at which it was taken. *)
From Coq Require Import List NArith String Ascii Bool.
From V Require Import lib.Strs gen.Consts.
Import ListNotations.
Open Scope N_scope.

Definition key := string.          (* libp2p RecordKey: a byte string *)
Definition value := list N.        (* Record::value *)
Definition bytes := list N.

Inductive rtype := RChunk | RScratchpad | RNonChunk (h : N).
Inductive notif := NStored (k : key) (t : rtype) | NFailed (k : key).
Inductive task :=
| TWrite (k : key) (v : value) (t : rtype)   (* put_verified's spawned fs::write + notification *)
| TDelete (k : key)                          (* remove's spawned fs::remove_file *)
| TSend (n : notif)                          (* send_local_swarm_cmd's spawned channel send *)
| TFlush (count since : N).                  (* flush_historic_quoting_metrics *)

Record env := mkEnv {
  e_dist : key -> N;                 (* distance of a record key to the node's own address *)
  e_chash : value -> N;              (* XorName::from_content *)
  e_enc : bytes -> value -> bytes;   (* AES-256-GCM-SIV under the seed-derived key: nonce, plaintext *)
  e_dec : bytes -> bytes -> option value;
  e_encrypt : bool;                  (* cfg!(feature = "encrypt-records") *)
  e_starter : bytes;                 (* nonce starter: first 4 bytes of the encryption seed *)
  e_max_records : N;                 (* config.max_records *)
  e_cache_size : N }.                (* config.records_cache_size, >= 1 *)

Record state := mkState {
  idx : list (key * rtype);          (* records: HashMap<Key,(NetworkAddress,RecordType)> *)
  bydist : list (N * key);           (* records_by_distance: BTreeMap<U256,Key> *)
  farthest : option (key * N);       (* farthest_record *)
  cache : list (key * value);        (* records_cache, oldest entry first *)
  range : option N;                  (* responsible_distance_range *)
  payments : N;                      (* received_payment_count *)
  started : N;                       (* timestamp (number of the start it was taken at) *)
  starts : N;                        (* how many times the store has been opened *)
  files : list (string * bytes);     (* storage_dir: file name -> content *)
  metrics : option (N * N);          (* historic_quoting_metrics file: (count, since) *)
  tasks : list task;                 (* spawned, not yet run *)
  chan : list notif }.               (* sent on the cmd channel, not yet handled *)

(* ---------------------------------------------------------------- small finite maps *)
Section Assoc.
  Context {K V : Type} (eqb : K -> K -> bool).
  Fixpoint alookup (k : K) (m : list (K * V)) : option V :=
    match m with
    | [] => None
    | (k', v) :: r => if eqb k k' then Some v else alookup k r
    end.
  Definition aremove (k : K) (m : list (K * V)) : list (K * V) :=
    filter (fun p => negb (eqb k (fst p))) m.
  Definition ainsert (k : K) (v : V) (m : list (K * V)) : list (K * V) := (k, v) :: aremove k m.
End Assoc.

Definition keyb : key -> key -> bool := String.eqb.
Definition klookup {V} := @alookup key V keyb.
Definition kremove {V} := @aremove key V keyb.
Definition kinsert {V} := @ainsert key V keyb.
Definition nlookup {V} := @alookup N V N.eqb.
Definition nremove {V} := @aremove N V N.eqb.
Definition ninsert {V} := @ainsert N V N.eqb.
Definition flookup {V} := @alookup string V String.eqb.
Definition fremove {V} := @aremove string V String.eqb.
Definition finsert {V} := @ainsert string V String.eqb.

Definition len {A} (l : list A) : N := N.of_nat (List.length l).

(* ---------------------------------------------------------------- names, nonces, file bytes *)
Definition fname (k : key) : string := tohex (codes k).            (* generate_filename *)
Definition key_of_fname (s : string) : option key :=               (* get_data_from_filename *)
  match unhex s with Some b => Some (of_codes b) | None => None end.
Definition metrics_name : string := "historic_quoting_metrics".
Definition name_max : N := 255.                                     (* NAME_MAX of the file system *)
(* fs::write succeeds: a non-empty name (the empty name is the directory itself) within NAME_MAX *)
Definition write_ok (k : key) : bool := (0 <? slen (fname k)) && (slen (fname k) <=? name_max).

(* generate_nonce_for_record: starter ++ key, resized to 12 bytes *)
Definition nonce (E : env) (k : key) : bytes :=
  firstn 12 (e_starter E ++ codes k ++ repeat 0 12).

Definition file_bytes (E : env) (k : key) (v : value) : bytes :=   (* prepare_record_bytes *)
  if e_encrypt E then e_enc E (nonce E k) v else v.
Definition read_bytes (E : env) (k : key) (c : bytes) : option value :=   (* get_record_from_bytes *)
  if e_encrypt E then e_dec E (nonce E k) c else Some c.

(* RecordHeader::from_record: needs three bytes and decodes the first three with rmp-serde as a
   struct of one u32-coded kind.  Accepted forms (found by exhaustive probing of the real decoder,
   re-validated on every run): array-of-1 with the kind as positive fixint / uint8 / int8, the map
   {0: kind}, and a 1-byte bin holding the kind. *)
Definition small_kind (n : N) : option N := if n <? Consts.rs_kind_count then Some n else None.
Definition header_kind (v : value) : option N :=
  match v with
  | a :: b :: c :: _ =>
      if a =? 145 then
        (if b <? 128 then small_kind b
         else if (b =? 204) || (b =? 208) then (if c <? 128 then small_kind c else None)
         else None)
      else if ((a =? 129) && (b =? 0)) || ((a =? 196) && (b =? 1))
      then (if c <? 128 then small_kind c else None)
      else None
  | _ => None
  end.

(* ---------------------------------------------------------------- cache (RecordCache) *)
(* free_up_space then insert: the oldest entries go until fewer than cache_size remain *)
Definition cache_push (E : env) (c : list (key * value)) (k : key) (v : value) : list (key * value) :=
  let c1 := if e_cache_size E <=? len c then skipn (N.to_nat (len c + 1 - e_cache_size E)) c else c in
  kremove k c1 ++ [(k, v)].

Definition value_eqb : value -> value -> bool := list_eqb N.eqb.

(* ---------------------------------------------------------------- index maintenance *)
Fixpoint calc_farthest (E : env) (l : list (key * rtype)) : option (key * N) :=
  match l with
  | [] => None
  | (k, _) :: r =>
      match calc_farthest E r with
      | None => Some (k, e_dist E k)
      | Some (f, fd) => if fd <? e_dist E k then Some (k, e_dist E k) else Some (f, fd)
      end
  end.

Definition set_tasks (s : state) (t : list task) : state :=
  mkState (idx s) (bydist s) (farthest s) (cache s) (range s) (payments s) (started s) (starts s)
          (files s) (metrics s) t (chan s).
Definition set_cache (s : state) (c : list (key * value)) : state :=
  mkState (idx s) (bydist s) (farthest s) c (range s) (payments s) (started s) (starts s)
          (files s) (metrics s) (tasks s) (chan s).
Definition set_files (s : state) (f : list (string * bytes)) : state :=
  mkState (idx s) (bydist s) (farthest s) (cache s) (range s) (payments s) (started s) (starts s)
          f (metrics s) (tasks s) (chan s).
Definition set_chan (s : state) (c : list notif) : state :=
  mkState (idx s) (bydist s) (farthest s) (cache s) (range s) (payments s) (started s) (starts s)
          (files s) (metrics s) (tasks s) c.

(* RecordStore::remove *)
Definition remove (E : env) (s : state) (k : key) : state :=
  let idx' := kremove k (idx s) in
  let bd' := match klookup k (idx s) with
             | Some _ => nremove (e_dist E k) (bydist s)
             | None => bydist s
             end in
  let far' := match farthest s with
              | Some (f, fd) => if keyb f k then calc_farthest E idx' else Some (f, fd)
              | None => None
              end in
  mkState idx' bd' far' (kremove k (cache s)) (range s) (payments s) (started s) (starts s)
          (files s) (metrics s) (tasks s ++ [TDelete k]) (chan s).

(* mark_as_stored *)
Definition mark_as_stored (E : env) (s : state) (k : key) (t : rtype) : state :=
  let d := e_dist E k in
  let far' := match farthest s with
              | Some (f, fd) => if fd <? d then Some (k, d) else Some (f, fd)
              | None => Some (k, d)
              end in
  mkState (kinsert k t (idx s)) (ninsert d k (bydist s)) far' (cache s) (range s) (payments s)
          (started s) (starts s) (files s) (metrics s) (tasks s) (chan s).

(* prune_records_if_needed: None = Err(MaxRecords) *)
Definition prune (E : env) (s : state) (k : key) : option state :=
  if len (idx s) <? e_max_records E then Some s
  else match farthest s with
       | Some (f, fd) => if fd <? e_dist E k then None else Some (remove E s f)
       | None => Some s
       end.

Inductive put_path := PEarly | PRefused | PStored.

(* put_verified *)
Definition put_verified (E : env) (s : state) (k : key) (v : value) (t : rtype) : put_path * state :=
  let early := match klookup k (cache s) with
               | Some v0 => value_eqb v0 v
               | None => false
               end in
  if early then (PEarly, set_cache s (cache_push E (kremove k (cache s)) k v))
  else
    let s1 := set_cache s (cache_push E (kremove k (cache s)) k v) in
    match prune E s1 k with
    | None => (PRefused, set_cache s1 (kremove k (cache s1)))   (* refused: taken out of the cache again *)
    | Some s2 => (PStored, set_tasks s2 (tasks s2 ++ [TWrite k v t]))
    end.

(* RecordStore::get *)
Definition get (E : env) (s : state) (k : key) : option value :=
  match klookup k (cache s) with
  | Some v => Some v
  | None =>
      match klookup k (idx s) with
      | None => None
      | Some _ =>
          match flookup (fname k) (files s) with
          | None => None
          | Some c => read_bytes E k c
          end
      end
  end.

Definition contains (s : state) (k : key) : bool :=
  match klookup k (idx s) with Some _ => true | None => false end.

(* cmd.rs PutLocalRecord: record kind -> record type *)
Definition local_type (E : env) (v : value) : option rtype :=
  match header_kind v with
  | None => None
  | Some kd =>
      if kd =? Consts.rs_kind_chunk then Some RChunk
      else if kd =? Consts.rs_kind_scratchpad then Some RScratchpad
      else if (kd =? Consts.rs_kind_transaction) || (kd =? Consts.rs_kind_register)
      then Some (RNonChunk (e_chash E v))
      else None
  end.

(* cleanup_irrelevant_records *)
Fixpoint insert_sorted {A} (x : N * A) (l : list (N * A)) : list (N * A) :=
  match l with
  | [] => [x]
  | y :: r => if fst x <=? fst y then x :: l else y :: insert_sorted x r
  end.
Definition sortN {A} (l : list (N * A)) : list (N * A) := fold_right insert_sorted [] l.

Definition cleanup_threshold : N := Consts.rs_max_records_count / Consts.rs_cleanup_divisor.

Definition cleanup (E : env) (s : state) : state :=
  if len (idx s) <? cleanup_threshold then s
  else match range s with
       | None => s
       | Some r =>
           let ks := map snd (filter (fun p => r <=? fst p) (sortN (bydist s))) in
           fold_left (remove E) ks s
       end.

(* get_records_within_distance_range / quoting_metrics *)
Definition within_range (s : state) (r : N) : N := len (filter (fun p => fst p <? r) (bydist s)).
Definition close_records (s : state) : N :=
  match range s with Some r => within_range s r | None => len (idx s) end.

(* payment_received *)
Definition pay (s : state) : state :=
  let c := N.min (payments s + 1) Consts.rs_usize_max in
  mkState (idx s) (bydist s) (farthest s) (cache s) (range s) c (started s) (starts s)
          (files s) (metrics s) (tasks s ++ [TFlush c (started s)]) (chan s).

Definition set_range (s : state) (d : N) : state :=
  mkState (idx s) (bydist s) (farthest s) (cache s) (Some d) (payments s) (started s) (starts s)
          (files s) (metrics s) (tasks s) (chan s).

(* ---------------------------------------------------------------- background tasks *)
Definition task_file (t : task) : option string :=
  match t with
  | TWrite k _ _ => Some (fname k)
  | TDelete k => Some (fname k)
  | TFlush _ _ => Some metrics_name
  | TSend _ => None
  end.

Definition same_file (f : string) (t : task) : bool :=
  match task_file t with Some f' => String.eqb f f' | None => false end.

(* the i-th pending task may run now: nothing spawned earlier for the same file is still pending *)
Definition enabled (ts : list task) (i : nat) : bool :=
  match nth_error ts i with
  | None => false
  | Some t => match task_file t with
              | None => true
              | Some f => negb (existsb (same_file f) (firstn i ts))
              end
  end.

Fixpoint remove_nth {A} (i : nat) (l : list A) : list A :=
  match l, i with
  | [], _ => []
  | _ :: r, O => r
  | x :: r, S j => x :: remove_nth j r
  end.

Definition exec_task (E : env) (s : state) (t : task) : state :=
  match t with
  | TWrite k v ty =>
      if write_ok k
      then set_tasks (set_files s (finsert (fname k) (file_bytes E k v) (files s)))
                     (tasks s ++ [TSend (NStored k ty)])
      else set_tasks s (tasks s ++ [TSend (NFailed k)])
  | TDelete k => set_files s (fremove (fname k) (files s))
  | TSend n => set_chan s (chan s ++ [n])
  | TFlush c t =>
      mkState (idx s) (bydist s) (farthest s) (cache s) (range s) (payments s) (started s) (starts s)
              (files s) (Some (c, t)) (tasks s) (chan s)
  end.

Definition run_task (E : env) (s : state) (i : nat) : state :=
  if enabled (tasks s) i then
    match nth_error (tasks s) i with
    | Some t => exec_task E (set_tasks s (remove_nth i (tasks s))) t
    | None => s
    end
  else s.

(* handle_local_cmd on AddLocalRecordAsStored / RemoveFailedLocalRecord *)
Definition deliver (E : env) (s : state) (j : nat) : state :=
  match nth_error (chan s) j with
  | None => s
  | Some n =>
      let s1 := set_chan s (remove_nth j (chan s)) in
      match n with
      | NStored k t => mark_as_stored E s1 k t
      | NFailed k => remove E s1 k
      end
  end.

(* ---------------------------------------------------------------- crash and re-open *)
(* update_records_from_an_existing_store on one directory entry:
   (index entry if the file is accepted, whether the file stays on disk) *)
Definition load_entry (E : env) (f : string * bytes) : option (key * rtype) * bool :=
  match key_of_fname (fst f) with
  | None => (None, true)
  | Some k =>
      match read_bytes E k (snd f) with
      | None => (None, false)
      | Some v =>
          match header_kind v with
          | None => (None, false)
          | Some kd => (Some (k, if kd =? Consts.rs_kind_chunk then RChunk
                                 else RNonChunk (e_chash E v)), true)
          end
      end
  end.

Fixpoint load_idx (E : env) (fs : list (string * bytes)) : list (key * rtype) :=
  match fs with
  | [] => []
  | f :: r => match fst (load_entry E f) with
              | Some (k, t) => kinsert k t (load_idx E r)
              | None => load_idx E r
              end
  end.

Definition reopen (E : env) (fs : list (string * bytes)) (m : option (N * N)) (n : N) : state :=
  let fs' := filter (fun f => snd (load_entry E f)) fs in
  let ix := load_idx E fs in
  let bd := fold_right (fun p acc => ninsert (e_dist E (fst p)) (fst p) acc) [] ix in
  let pc := match m with Some (c, t) => (c, t) | None => (0, n) end in
  mkState ix bd (calc_farthest E ix) [] None (fst pc) (snd pc) (n + 1) fs' m
          [TFlush (fst pc) (snd pc)] [].

Definition init (E : env) : state := reopen E [] None 0.

(* a write of file `k` in progress at the crash: the pending deletes spawned before it have run,
   File::create has truncated the file and the first `m` bytes have reached it *)
Fixpoint first_write (k : key) (ts : list task) : option value :=
  match ts with
  | [] => None
  | TWrite k' v _ :: r => if keyb k k' then Some v else first_write k r
  | _ :: r => first_write k r
  end.

Definition tear (E : env) (ts : list task) (fs : list (string * bytes)) (km : key * N)
  : list (string * bytes) :=
  let k := fst km in
  match first_write k ts with
  | Some v => if write_ok k
              then finsert (fname k) (firstn (N.to_nat (snd km)) (file_bytes E k v)) fs
              else fs
  | None => fs
  end.

Definition crash (E : env) (s : state) (tears : list (key * N)) : state :=
  reopen E (fold_left (tear E (tasks s)) tears (files s)) (metrics s) (starts s).

(* ---------------------------------------------------------------- operations *)
Inductive op :=
| OPut (k : key) (v : value) (t : rtype)     (* put_verified *)
| OPutLocal (k : key) (v : value)            (* cmd.rs PutLocalRecord *)
| ORemove (k : key)                          (* RecordStore::remove *)
| OGet (k : key)
| ORun (i : nat)                             (* scheduler: run pending task i *)
| ODeliver (j : nat)                         (* swarm driver handles pending notification j *)
| OSetRange (d : N)
| OCleanup
| OPay
| OQuote (k : key)
| OCrash (tears : list (key * N)).

Inductive out :=
| UNone
| UPut (ok : bool)
| UPutLocal (code : N) (far : option key)    (* 0 Ok, 1 MaxRecords (+ get_farthest), 2 bad header *)
| UGet (v : option value)
| UQuote (close maxr pay : N) (stored : bool).

Definition path_ok (p : put_path) : bool := match p with PRefused => false | _ => true end.

Definition step (E : env) (s : state) (o : op) : state * out :=
  match o with
  | OPut k v t => let (p, s') := put_verified E s k v t in (s', UPut (path_ok p))
  | OPutLocal k v =>
      match local_type E v with
      | None => (s, UPutLocal 2 None)
      | Some t =>
          let (p, s') := put_verified E s k v t in
          if path_ok p then (s', UPutLocal 0 None)
          else (s', UPutLocal 1 (match farthest s' with Some (f, _) => Some f | None => None end))
      end
  | ORemove k => (remove E s k, UNone)
  | OGet k => (s, UGet (get E s k))
  | ORun i => (run_task E s i, UNone)
  | ODeliver j => (deliver E s j, UNone)
  | OSetRange d => (set_range s d, UNone)
  | OCleanup => (cleanup E s, UNone)
  | OPay => (pay s, UNone)
  | OQuote k => (s, UQuote (close_records s) (e_max_records E) (payments s) (contains s k))
  | OCrash tears => (crash E s tears, UNone)
  end.

Definition run (E : env) (ops : list op) (s : state) : state :=
  fold_left (fun s o => fst (step E s o)) ops s.

Definition settled (s : state) : bool :=
  match tasks s, chan s with [], [] => true | _, _ => false end.

(* ---------------------------------------------------------------- ghost history (C01 / C02) *)
(* every value ever handed to the store as a validated record for k *)
Fixpoint hist (ops : list op) (k : key) : list value :=
  match ops with
  | [] => []
  | OPut k' v _ :: r => if keyb k k' then v :: hist r k else hist r k
  | OPutLocal k' v :: r => if keyb k k' then v :: hist r k else hist r k
  | _ :: r => hist r k
  end.

(* what the store last decided about a key *)
Inductive lastop := LPut (v : value) | LRefused | LRemoved.

(* a write of k is not yet acknowledged: its task, its send or its notification is pending *)
Definition notif_stored_for (k : key) (n : notif) : bool :=
  match n with NStored k' _ => keyb k k' | NFailed _ => false end.
Definition unacked (s : state) (k : key) : bool :=
  existsb (fun t => match t with
                    | TWrite k' _ _ => keyb k k'
                    | TSend n => notif_stored_for k n
                    | _ => false
                    end) (tasks s)
  || existsb (notif_stored_for k) (chan s).

(* a write of k, or the notification of its outcome, is still pending *)
Definition notif_for (k : key) (n : notif) : bool :=
  match n with NStored k' _ => keyb k k' | NFailed k' => keyb k k' end.
Definition task_for (k : key) (t : task) : bool :=
  match t with TWrite k' _ _ => keyb k k' | TSend n => notif_for k n | _ => false end.
Definition in_flight (s : state) (k : key) : bool :=
  existsb (task_for k) (tasks s) || existsb (notif_for k) (chan s).

(* the keys a step takes out of the index (explicit removal, eviction, clean-up, failed write) *)
Definition evicted_by_put (E : env) (s : state) (k : key) (v : value) : list key :=
  match put_verified E s k v RChunk with
  | (PStored, _) =>
      if len (idx s) <? e_max_records E then []
      else match farthest s with Some (f, _) => [f] | None => [] end
  | _ => []
  end.

Definition removed_by (E : env) (s : state) (o : op) : list key :=
  match o with
  | OPut k v _ => evicted_by_put E s k v
  | OPutLocal k v => match local_type E v with Some _ => evicted_by_put E s k v | None => [] end
  | ORemove k => [k]
  | ODeliver j => match nth_error (chan s) j with Some (NFailed k) => [k] | _ => [] end
  | OCleanup =>
      if len (idx s) <? cleanup_threshold then []
      else match range s with
           | None => []
           | Some r => map snd (filter (fun p => r <=? fst p) (sortN (bydist s)))
           end
  | _ => []
  end.

Definition put_event (E : env) (s : state) (o : op) (k : key) : option lastop :=
  let ev k' v := if keyb k k'
                 then match fst (put_verified E s k' v RChunk) with
                      | PStored => Some (LPut v)
                      | PRefused => Some LRefused
                      | PEarly => None
                      end
                 else None in
  match o with
  | OPut k' v _ => ev k' v
  | OPutLocal k' v => match local_type E v with Some _ => ev k' v | None => None end
  | _ => None
  end.

(* ghost: last decision about k after running ops from s (None: never mentioned) *)
Fixpoint last_from (E : env) (s : state) (ops : list op) (k : key) (cur : option lastop) : option lastop :=
  match ops with
  | [] => cur
  | o :: r =>
      let cur1 := if existsb (keyb k) (removed_by E s o) then Some LRemoved else cur in
      let cur2 := match put_event E s o k with Some e => Some e | None => cur1 end in
      last_from E (fst (step E s o)) r k cur2
  end.

(* the known class F13: k is taken out of the index while a write of k is unacknowledged *)
Fixpoint relist_risk (E : env) (s : state) (ops : list op) (k : key) : bool :=
  match ops with
  | [] => false
  | o :: r => (existsb (keyb k) (removed_by E s o) && unacked s k)
              || relist_risk E (fst (step E s o)) r k
  end.

Definition is_crash (o : op) : bool := match o with OCrash _ => true | _ => false end.

(* ---------------------------------------------------------------- C10 ghosts *)
Definition inflight (s : state) : N :=
  len (filter (fun t => match t with TWrite _ _ _ => true | TSend (NStored _ _) => true | _ => false end) (tasks s))
  + len (filter (fun n => match n with NStored _ _ => true | _ => false end) (chan s)).

(* largest number of unacknowledged writes present when a put_verified was issued *)
Fixpoint burst_depth (E : env) (s : state) (ops : list op) : N :=
  match ops with
  | [] => 0
  | o :: r =>
      let here := match o with OPut _ _ _ | OPutLocal _ _ => inflight s | _ => 0 end in
      N.max here (burst_depth E (fst (step E s o)) r)
  end.

(* ---------------------------------------------------------------- correspondence (case files) *)
(* tables supplied by the harness for one history: the key universe with the real distance of every
   key and the value universe with the real content hash of every value *)
Record tables := mkTables {
  t_keys : list key; t_dists : list N; t_vals : list value; t_hashes : list N }.

Definition nf : N := 999999.   (* "not in the table" *)
Fixpoint index_of {A} (eqb : A -> A -> bool) (x : A) (l : list A) : N :=
  match l with
  | [] => nf
  | y :: r => if eqb x y then 0 else let i := index_of eqb x r in if i =? nf then nf else i + 1
  end.
Definition nthN {A} (l : list A) (i : N) (d : A) : A := nth (N.to_nat i) l d.

(* large values are written as a pattern in the case files: bytes (a + 7 i) mod 256 for i < n *)
Definition patv (a n : N) : value :=
  map (fun i => (a + 7 * N.of_nat i) mod 256) (seq 0 (N.to_nat n)).

(* compact literals for the case files: a key / a 256-bit number written as hex text *)
Definition kx (s : string) : key := of_codes (hx s).
Definition nx (s : string) : N := fold_left (fun a b => 256 * a + b) (hx s) 0.

Definition kix (T : tables) (k : key) : N := index_of keyb k (t_keys T).

Definition vix (T : tables) (v : value) : N := index_of value_eqb v (t_vals T).
(* what a read returned, as the harness reports it: nf is "nothing", bytes of no known value nf+2 *)
Definition got_code (i : N) : N := if i =? nf then nf + 2 else i.
Definition tdist (T : tables) (k : key) : N := nthN (t_dists T) (kix T k) 0.
Definition thash (T : tables) (v : value) : N := nthN (t_hashes T) (vix T v) 0.

(* a stand-in cipher with the two AEAD laws and the real ciphertext length (plaintext + 16), used to
   run the model; ciphertexts themselves are never compared *)
Definition toy_enc (n : bytes) (v : value) : bytes := len v :: v ++ repeat 0 15.
Definition toy_dec (n : bytes) (c : bytes) : option value :=
  match c with
  | l :: r => if len r =? l + 15 then Some (firstn (N.to_nat l) r) else None
  | [] => None
  end.

Definition case_env (T : tables) (starter : bytes) (maxr cachesz : N) (encrypt : bool) : env :=
  mkEnv (tdist T) (thash T) toy_enc toy_dec encrypt starter maxr cachesz.

Definition type_code (T : tables) (t : rtype) : N :=
  match t with RChunk => 0 | RScratchpad => 1 | RNonChunk h => 2 + index_of N.eqb h (t_hashes T) end.
Definition notif_code (T : tables) (n : notif) : N * N :=
  match n with NStored k t => (type_code T t, kix T k) | NFailed k => (nf, kix T k) end.

(* the hook-exposed abstract state after a step, in table indices *)
Record dump := mkDump {
  d_idx : list (N * N);        (* (key, type code), sorted by key *)
  d_bydist : list (N * N);     (* (key whose distance is the map key, key), by increasing distance *)
  d_far : option (N * N);      (* (key, key whose distance it records) *)
  d_cache : list (N * N);      (* (key, value), oldest first *)
  d_files : list (N * N);      (* (key whose file name it is, value it decrypts to), sorted by key *)
  d_chan : list (N * N);       (* notifications in arrival order *)
  d_ntasks : N;
  d_range : option N;
  d_pay : N;
  d_started : N;
  d_metrics : option (N * N);
  d_gets : list N }.           (* get(k) for every key of the universe: value index or nf *)

Definition dist_owner (T : tables) (d : N) : N := index_of N.eqb d (t_dists T).
Definition file_owner (T : tables) (name : string) : N := index_of String.eqb name (map fname (t_keys T)).

Definition abs_state (T : tables) (E : env) (s : state) : dump :=
  let names := map fname (t_keys T) in
  mkDump
    (sortN (map (fun p => (kix T (fst p), type_code T (snd p))) (idx s)))
    (map (fun p => (dist_owner T (fst p), kix T (snd p))) (sortN (bydist s)))
    (match farthest s with Some (f, fd) => Some (kix T f, dist_owner T fd) | None => None end)
    (map (fun p => (kix T (fst p), vix T (snd p))) (cache s))
    (sortN (map (fun f => (index_of String.eqb (fst f) names,
                           match key_of_fname (fst f) with
                           | Some k => match read_bytes E k (snd f) with Some v => vix T v | None => nf end
                           | None => nf
                           end)) (files s)))
    (map (notif_code T) (chan s))
    (len (tasks s)) (range s) (payments s) (started s) (metrics s)
    (map (fun k => match get E s k with Some v => got_code (vix T v) | None => nf end) (t_keys T)).

Definition pairN_eqb (a b : N * N) : bool := (fst a =? fst b) && (snd a =? snd b).
Definition lpair_eqb := list_eqb pairN_eqb.
Definition opair_eqb := option_eqb pairN_eqb.

Definition dump_eqb (a b : dump) : bool :=
  lpair_eqb (d_idx a) (d_idx b) && lpair_eqb (d_bydist a) (d_bydist b) && opair_eqb (d_far a) (d_far b)
  && lpair_eqb (d_cache a) (d_cache b) && lpair_eqb (d_files a) (d_files b)
  && lpair_eqb (d_chan a) (d_chan b) && (d_ntasks a =? d_ntasks b)
  && option_eqb N.eqb (d_range a) (d_range b) && (d_pay a =? d_pay b) && (d_started a =? d_started b)
  && opair_eqb (d_metrics a) (d_metrics b) && list_eqb N.eqb (d_gets a) (d_gets b).

(* operations and outputs as the harness writes them (table indices) *)
Inductive iop :=
| IPut (k v t : N) | IPutLocal (k v : N) | IRemove (k : N) | IGet (k : N) | IRun | IDeliver (j : N)
| ISetRange (d : N) | ICleanup | IPay | IQuote (k : N) | ICrash (tears : list (N * N))
(* run-length forms of long undumped stretches (bulk fills of the clean-up cases) *)
| IRuns (n : N) | IDelivers0 (n : N) | IPuts (k0 n v t : N).
Inductive iout :=
| JNone | JPut (ok : bool) | JPutLocal (code : N) (far : option N) | JGet (v : N)
| JQuote (close maxr pay : N) (stored : bool).

Definition tkey (T : tables) (i : N) : key := nthN (t_keys T) i EmptyString.
Definition tval (T : tables) (i : N) : value := nthN (t_vals T) i [].
Definition ttype (T : tables) (v t : N) : rtype :=
  if t =? 0 then RChunk else if t =? 1 then RScratchpad else RNonChunk (thash T (tval T v)).

Definition op_of (T : tables) (o : iop) : op :=
  match o with
  | IPut k v t => OPut (tkey T k) (tval T v) (ttype T v t)
  | IPutLocal k v => OPutLocal (tkey T k) (tval T v)
  | IRemove k => ORemove (tkey T k)
  | IGet k => OGet (tkey T k)
  | IRun => ORun 0                       (* the harness runtime runs spawned tasks first-in first-out *)
  | IDeliver j => ODeliver (N.to_nat j)
  | ISetRange d => OSetRange d
  | ICleanup => OCleanup
  | IPay => OPay
  | IQuote k => OQuote (tkey T k)
  | ICrash tears => OCrash (map (fun p => (tkey T (fst p), snd p)) tears)
  | IRuns _ | IDelivers0 _ | IPuts _ _ _ _ => OGet EmptyString      (* expanded by `expand`, never used *)
  end.

(* n task runs / n deliveries of the oldest notification / n accepted puts of consecutive keys *)
Definition expand (T : tables) (o : iop) : option (list op * bool) :=
  match o with
  | IRuns n => Some (repeat (ORun 0) (N.to_nat n), false)
  | IDelivers0 n => Some (repeat (ODeliver 0) (N.to_nat n), false)
  | IPuts k0 n v t =>
      Some (map (fun i => OPut (tkey T (k0 + N.of_nat i)) (tval T v) (ttype T v t)) (seq 0 (N.to_nat n)), true)
  | _ => None
  end.

Fixpoint run_multi (E : env) (s : state) (l : list op) (expect_put : bool) : state * bool :=
  match l with
  | [] => (s, true)
  | o :: r =>
      let (s', m) := step E s o in
      let ok := match m with
                | UPut true => expect_put
                | UNone => negb expect_put
                | _ => false
                end in
      let (s'', ok') := run_multi E s' r expect_put in (s'', ok && ok')
  end.

Definition out_eqb (T : tables) (m : out) (j : iout) : bool :=
  match m, j with
  | UNone, JNone => true
  | UPut a, JPut b => Bool.eqb a b
  | UPutLocal c f, JPutLocal c' f' =>
      (c =? c') && option_eqb N.eqb (match f with Some k => Some (kix T k) | None => None end) f'
  | UGet v, JGet i => (match v with Some x => got_code (vix T x) | None => nf end) =? i
  | UQuote a b c d, JQuote a' b' c' d' => (a =? a') && (b =? b') && (c =? c') && Bool.eqb d d'
  | _, _ => false
  end.

(* lock-step simulation of one history: after every operation the model's output and abstract state
   must equal what the implementation returned and what the hooks exposed *)
Definition dump_ok (T : tables) (E : env) (s : state) (d : option dump) : bool :=
  match d with Some d => dump_eqb (abs_state T E s) d | None => true end.

Fixpoint agree_steps (T : tables) (E : env) (s : state) (l : list (iop * iout * option dump)) : bool :=
  match l with
  | [] => true
  | (o, j, d) :: r =>
      match expand T o with
      | Some (ops, e) =>
          let (s', ok) := run_multi E s ops e in
          ok && out_eqb T UNone j && dump_ok T E s' d && agree_steps T E s' r
      | None =>
          let (s', m) := step E s (op_of T o) in
          out_eqb T m j && dump_ok T E s' d && agree_steps T E s' r
      end
  end.

(* index of the first step that disagrees (diagnostics) *)
Fixpoint first_bad (T : tables) (E : env) (s : state) (l : list (iop * iout * option dump)) (i : N) : option (N * out * dump) :=
  match l with
  | [] => None
  | (o, j, d) :: r =>
      match expand T o with
      | Some (ops, e) =>
          let (s', ok) := run_multi E s ops e in
          if ok && out_eqb T UNone j && dump_ok T E s' d then first_bad T E s' r (i + 1)
          else Some (i, UNone, abs_state T E s')
      | None =>
          let (s', m) := step E s (op_of T o) in
          if out_eqb T m j && dump_ok T E s' d then first_bad T E s' r (i + 1)
          else Some (i, m, abs_state T E s')
      end
  end.

(* names and nonces the implementation derived for every key of the universe *)
Definition agree_names (T : tables) (E : env) (names : list string) (nonces : list bytes) : bool :=
  list_eqb String.eqb (map fname (t_keys T)) names
  && list_eqb bytes_eqb (map (nonce E) (t_keys T)) nonces.

Definition agree_case (T : tables) (starter : bytes) (maxr cachesz : N) (encrypt : bool)
           (names : list string) (nonces : list bytes) (d0 : dump) (l : list (iop * iout * option dump)) : bool :=
  let E := case_env T starter maxr cachesz encrypt in
  Bool.eqb encrypt Consts.rs_encrypt_records_shipped
  && agree_names T E names nonces
  && dump_eqb (abs_state T E (init E)) d0
  && agree_steps T E (init E) l.

Definition show_case (T : tables) (starter : bytes) (maxr cachesz : N) (encrypt : bool)
           (l : list (iop * iout * option dump)) :=
  let E := case_env T starter maxr cachesz encrypt in first_bad T E (init E) l 0.

(* header parsing on its own (the three leading bytes decide) *)
Definition agree_header (v : value) (r : option N) : bool := option_eqb N.eqb (header_kind v) r.
