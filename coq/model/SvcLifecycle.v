(* Model of the antctl service lifecycle (C19):
     ant-node-manager/src/lib.rs            ServiceManager::{start,stop,remove,upgrade}, refresh_node_registry
     ant-node-manager/src/add_services/mod.rs   add_node
     ant-node-manager/src/helpers.rs        check_port_availability, get_start_port_if_applicable, increment_port_option
     ant-service-management/src/node.rs     NodeService::{on_start,on_stop,on_remove,set_version}
   composed with a simulated OS (installed service definitions, live processes, fresh pid / port
   counters, data directories) and a fault plan F: every ServiceControl / RPC call the code makes
   takes the next call index; a call whose index is in F returns an error and has no effect.
   Services are keyed by their number n; the service name is "antnode<n>", the data directory
   <base>/antnode<n>, the binary <base>/antnode<n>/antnode (all written once by add_node).
   Definitions only; proofs are in proofs/SvcLifecycle*.v. *)
From Coq Require Import List NArith String Ascii Bool.
From V Require Import lib.Strs lib.Dec.
Import ListNotations.
Open Scope N_scope.

Inductive status := Added | Running | Stopped | Removed.

Definition status_eqb (a b : status) : bool :=
  match a, b with
  | Added, Added | Running, Running | Stopped, Stopped | Removed, Removed => true
  | _, _ => false
  end.

(* NodeServiceData, restricted to what the lifecycle code reads or writes *)
Record svc := mkSvc {
  number : N;                 (* number; service_name = antnode<number>; data/log dir, binary path *)
  st : status;
  pid : option N;
  version : N;                (* semver 0.1.<version> *)
  node_port : option N;
  metrics_port : option N;
  rpc_port : N;               (* rpc_socket_addr.port() *)
  peers : option (list N);    (* connected_peers: None, Some [] and Some [ids] are three different states *)
  listen : bool;              (* listen_addr.is_some() *)
  peer_id : bool;             (* peer_id.is_some() *)
  first : bool                (* peers_args.first *)
}.

Definition sname (n : N) : string := ("antnode" ++ dec n)%string.

Definition set_st (s : svc) (x : status) (p : option N) (pe : option (list N)) : svc :=
  mkSvc (number s) x p (version s) (node_port s) (metrics_port s) (rpc_port s) pe (listen s) (peer_id s) (first s).

(* NodeService::on_stop: pid = None, status = Stopped, connected_peers = None *)
Definition on_stop (s : svc) : svc := set_st s Stopped None None.
(* NodeService::on_remove: only the status changes *)
Definition on_remove (s : svc) : svc := set_st s Removed (pid s) (peers s).
(* NodeService::on_start(pid, full_refresh = false): previously assigned peers / peer id kept *)
Definition on_start_partial (p : N) (s : svc) : svc := set_st s Running (Some p) (peers s).
(* the assignments at the end of on_start(pid, full_refresh = true) *)
Definition on_start_set (p port : N) (conn : list N) (s : svc) : svc :=
  mkSvc (number s) Running (Some p) (version s) (Some port) (metrics_port s) (rpc_port s) (Some conn) true true (first s).
(* the peers the node of service n reports as connected: none for antnode1 (a just-launched / genesis node),
   one for antnode2, two for antnode3, ... (ids of the three peers the simulated network has) *)
Definition rpc_peers (n : N) : list N := firstn (N.to_nat ((n - 1) mod 3)) [1; 2; 3].
Definition set_version (s : svc) (v : N) : svc :=
  mkSvc (number s) (st s) (pid s) v (node_port s) (metrics_port s) (rpc_port s) (peers s) (listen s) (peer_id s) (first s).

(* ---------------------------------------------------------------- simulated OS *)
Record os := mkOs {
  installed : list (N * option N);   (* service definitions: number |-> the --port argument, if any *)
  procs : list (N * N);              (* live processes: number |-> pid *)
  next_pid : N;
  next_port : N;
  dirs : list N                      (* services whose data and log directories exist *)
}.

Fixpoint lookup {A} (k : N) (l : list (N * A)) : option A :=
  match l with
  | [] => None
  | (k', v) :: r => if k' =? k then Some v else lookup k r
  end.
Definition del {A} (k : N) (l : list (N * A)) : list (N * A) := filter (fun x => negb (fst x =? k)) l.
Definition memN (k : N) (l : list N) : bool := existsb (N.eqb k) l.

Definition live (o : os) (n : N) : option N := lookup n (procs o).
Definition is_installed (o : os) (n : N) : bool := match lookup n (installed o) with Some _ => true | None => false end.

(* everything but the registry: OS, call counter, call log, ghost state *)
Record env := mkEnv {
  eos : os;
  enc : N;                           (* index the next ServiceControl / RPC call will get *)
  elog : list (N * N * bool);        (* calls so far, newest first: (kind, service number, faulted) *)
  elied : bool;                      (* ghost: a faulted get_process_pid hid a live process *)
  ekilled : list N;                  (* ghost: pids of processes that died on their own (OKill) *)
  edisk : list svc                   (* the registry file as add_node last saved it *)
}.

Definition set_os (e : env) (o : os) : env := mkEnv o (enc e) (elog e) (elied e) (ekilled e) (edisk e).
(* NodeRegistry::save *)
Definition set_disk (e : env) (d : list svc) : env := mkEnv (eos e) (enc e) (elog e) (elied e) (ekilled e) d.

(* call kinds, as logged *)
Definition K_PORT := 0. Definition K_INSTALL := 1. Definition K_PID := 2. Definition K_START := 3.
Definition K_STOP := 4. Definition K_UNINSTALL := 5. Definition K_WAIT := 6. Definition K_RPC_CONNECTED := 7.
Definition K_RPC_NODE_INFO := 8. Definition K_RPC_NETWORK_INFO := 9.

(* number the call, log it, report whether the plan makes it fail *)
Definition tick (F : list N) (k a : N) (e : env) : bool * env :=
  let f := memN (enc e) F in
  (f, mkEnv (eos e) (enc e + 1) ((k, a, f) :: elog e) (elied e) (ekilled e) (edisk e)).

(* ServiceControl::get_available_port *)
Definition call_port (F : list N) (e : env) : option N * env :=
  let '(f, e1) := tick F K_PORT 0 e in
  if f then (None, e1) else
  let o := eos e1 in
  (Some (next_port o), set_os e1 (mkOs (installed o) (procs o) (next_pid o) (next_port o + 1) (dirs o))).

(* ServiceControl::install (an existing definition of the same name is overwritten) *)
Definition call_install (F : list N) (n : N) (port : option N) (e : env) : bool * env :=
  let '(f, e1) := tick F K_INSTALL n e in
  if f then (false, e1) else
  let o := eos e1 in
  (true, set_os e1 (mkOs ((n, port) :: del n (installed o)) (procs o) (next_pid o) (next_port o) (dirs o))).

Inductive pidres := PidOk (p : N) | PidNotFound | PidErr.

(* ServiceControl::get_process_pid(bin path of service n) *)
Definition call_pid (F : list N) (n : N) (e : env) : pidres * env :=
  let '(f, e1) := tick F K_PID n e in
  if f then (PidErr, mkEnv (eos e1) (enc e1) (elog e1)
                      (elied e1 || match live (eos e1) n with Some _ => true | None => false end) (ekilled e1) (edisk e1))
  else match live (eos e1) n with Some p => (PidOk p, e1) | None => (PidNotFound, e1) end.

(* ServiceControl::start: unknown unit -> error; already running -> nothing to do; else a fresh pid *)
Definition call_start (F : list N) (n : N) (e : env) : bool * env :=
  let '(f, e1) := tick F K_START n e in
  if f then (false, e1) else
  let o := eos e1 in
  if negb (is_installed o n) then (false, e1) else
  match live o n with
  | Some _ => (true, e1)
  | None => (true, set_os e1 (mkOs (installed o) ((n, next_pid o) :: procs o) (next_pid o + 1) (next_port o) (dirs o)))
  end.

(* ServiceControl::stop *)
Definition call_stop (F : list N) (n : N) (e : env) : bool * env :=
  let '(f, e1) := tick F K_STOP n e in
  if f then (false, e1) else
  let o := eos e1 in
  if negb (is_installed o n) then (false, e1) else
  (true, set_os e1 (mkOs (installed o) (del n (procs o)) (next_pid o) (next_port o) (dirs o))).

Inductive unres := UOk | UMissing | UErr.

(* ServiceControl::uninstall: a missing definition is reported as ServiceDoesNotExists *)
Definition call_uninstall (F : list N) (n : N) (e : env) : unres * env :=
  let '(f, e1) := tick F K_UNINSTALL n e in
  if f then (UErr, e1) else
  let o := eos e1 in
  if negb (is_installed o n) then (UMissing, e1) else
  (UOk, set_os e1 (mkOs (del n (installed o)) (procs o) (next_pid o) (next_port o) (dirs o))).

(* ServiceControl::wait cannot fail; it still takes a call index *)
Definition call_wait (F : list N) (e : env) : env := snd (tick F K_WAIT 0 e).

(* an RPC to the node of service n (only ever issued while its process is alive) *)
Definition call_rpc (F : list N) (k n : N) (e : env) : bool * env :=
  let '(f, e1) := tick F k n e in (negb f, e1).

Definition mkdirs (n : N) (e : env) : env :=
  let o := eos e in
  set_os e (mkOs (installed o) (procs o) (next_pid o) (next_port o) (if memN n (dirs o) then dirs o else n :: dirs o)).
Definition rmdirs (n : N) (e : env) : env :=
  let o := eos e in
  set_os e (mkOs (installed o) (procs o) (next_pid o) (next_port o) (filter (fun x => negb (x =? n)) (dirs o))).
Definition has_dir (n : N) (e : env) : bool := memN n (dirs (eos e)).

(* the port the node listens on: the --port of its service definition, else one it picks itself *)
Definition DYN_LISTEN_BASE := 50000.
Definition listen_port (e : env) (n : N) : N :=
  match lookup n (installed (eos e)) with Some (Some p) => p | _ => DYN_LISTEN_BASE + n end.

(* ---------------------------------------------------------------- outcome codes *)
Definition C_OK := 0.                      Definition C_PID_NOT_FOUND_AFTER_START := 1.
Definition C_PID_NOT_SET := 2.             Definition C_ALREADY_RUNNING := 3.
Definition C_STATUS_MISMATCH := 4.         Definition C_CONTROL := 5.    (* ServiceManagementError(Io) *)
Definition C_DOES_NOT_EXIST := 6.          Definition C_IO := 7.
Definition C_NOT_REQUIRED := 10.           Definition C_UPGRADED := 11.
Definition C_FORCED := 12.                 Definition C_UPGRADED_NOT_STARTED := 13.
Definition C_GENESIS_MULTI := 20.          Definition C_GENESIS_EXISTS := 21.
Definition C_PORT_COUNT := 22.             Definition C_PORT_IN_USE := 23.
Definition C_ADD_FAILED := 24.             Definition C_ADD_ABORTED := 29.
Definition C_NO_SUCH_INDEX := 99.

Definition is_ok (c : N) : bool := (c =? C_OK) || ((C_NOT_REQUIRED <=? c) && (c <=? C_UPGRADED_NOT_STARTED)).

(* ---------------------------------------------------------------- NodeService::on_start(Some(pid), true) *)
Definition on_start_full (F : list N) (dyn : bool) (p : N) (s : svc) (e : env) : N * svc * env :=
  let n := number s in
  let '(ok1, e1) := if dyn then call_rpc F K_RPC_CONNECTED n e else (true, e) in
  if negb ok1 then (C_CONTROL, s, e1) else
  let '(ok2, e2) := call_rpc F K_RPC_NODE_INFO n e1 in
  if negb ok2 then (C_CONTROL, s, e2) else
  let '(ok3, e3) := call_rpc F K_RPC_NETWORK_INFO n e2 in
  if negb ok3 then (C_CONTROL, s, e3) else
  (C_OK, on_start_set p (listen_port e3 n) (rpc_peers n) s, e3).

(* ---------------------------------------------------------------- ServiceManager::start *)
Definition mgr_start (F : list N) (dyn : bool) (s : svc) (e : env) : N * svc * env :=
  let n := number s in
  let '(already, e0) :=
    match st s with
    | Running => let '(r, e1) := call_pid F n e in
                 (match r with PidOk _ => true | _ => false end, e1)
    | _ => (false, e)
    end in
  if already then (C_OK, s, e0) else
  let '(ok, e1) := call_start F n e0 in
  if negb ok then (C_CONTROL, s, e1) else
  let e2 := call_wait F e1 in
  let '(r, e3) := call_pid F n e2 in
  match r with
  | PidOk p => on_start_full F dyn p s e3
  | PidNotFound => (C_PID_NOT_FOUND_AFTER_START, s, e3)
  | PidErr => (C_CONTROL, s, e3)
  end.

(* ---------------------------------------------------------------- ServiceManager::stop *)
Definition mgr_stop (F : list N) (s : svc) (e : env) : N * svc * env :=
  let n := number s in
  match st s with
  | Added | Removed | Stopped => (C_OK, s, e)
  | Running =>
      match pid s with
      | None => (C_PID_NOT_SET, s, e)
      | Some _ =>
          let '(r, e1) := call_pid F n e in
          match r with
          | PidOk _ =>
              let '(ok, e2) := call_stop F n e1 in
              if ok then (C_OK, on_stop s, e2) else (C_CONTROL, s, e2)
          | _ => (C_OK, on_stop s, e1)          (* any error from the probe = "was already stopped" *)
          end
      end
  end.

(* ---------------------------------------------------------------- ServiceManager::remove *)
Definition mgr_remove (F : list N) (keep : bool) (s : svc) (e : env) : N * svc * env :=
  let n := number s in
  match st s with
  | Running =>
      let '(r, e1) := call_pid F n e in
      match r with
      | PidOk _ => (C_ALREADY_RUNNING, s, e1)
      | _ => (C_STATUS_MISMATCH, on_stop s, e1)
      end
  | _ =>
      let '(u, e1) := call_uninstall F n e in
      match u with
      | UErr => (C_CONTROL, s, e1)
      | _ => (C_OK, on_remove s, if keep then e1 else rmdirs n e1)
      end
  end.

(* ---------------------------------------------------------------- ServiceManager::upgrade *)
Definition mgr_upgrade (F : list N) (force start : bool) (tv : N) (binok dyn : bool) (s : svc) (e : env)
  : N * svc * env :=
  let n := number s in
  if negb force && (tv <=? version s) then (C_NOT_REQUIRED, s, e) else
  let '(c, s1, e1) := mgr_stop F s e in
  if negb (c =? C_OK) then (c, s1, e1) else
  if negb (binok && has_dir n e1) then (C_IO, s1, e1) else       (* std::fs::copy of the new binary *)
  let '(u, e2) := call_uninstall F n e1 in
  match u with
  | UErr => (C_CONTROL, s1, e2)
  | UMissing => (C_DOES_NOT_EXIST, s1, e2)
  | UOk =>
      let '(ok, e3) := call_install F n (node_port s1) e2 in
      if negb ok then (C_CONTROL, s1, e3) else
      let done := if force then C_FORCED else C_UPGRADED in
      if start then
        let '(c2, s2, e4) := mgr_start F dyn s1 e3 in
        if c2 =? C_OK then (done, set_version s2 tv, e4)
        else (C_UPGRADED_NOT_STARTED, set_version s2 tv, e4)
      else (done, set_version s1 tv, e3)
  end.

(* ---------------------------------------------------------------- refresh_node_registry(.., full_refresh = false, is_local_network = false) *)
Definition refresh_one (r : pidres) (s : svc) : svc :=
  match r with
  | PidOk q => on_start_partial q s
  | _ => match st s with Added | Removed => s | _ => on_stop s end
  end.

Fixpoint refresh_nodes (F : list N) (l : list svc) (e : env) : list svc * env :=
  match l with
  | [] => ([], e)
  | s :: r =>
      let '(p, e1) := call_pid F (number s) e in
      let '(r', e2) := refresh_nodes F r e1 in
      (refresh_one p s :: r', e2)
  end.

(* ---------------------------------------------------------------- add_node *)
Inductive prange := PSingle (p : N) | PRange (a b : N).

Record addopts := mkAdd {
  a_count : option N;
  a_node : option prange;
  a_metrics : option prange;
  a_rpc : option prange;
  a_enable_metrics : bool;
  a_first : bool
}.

(* PortRange::validate *)
Definition validate (pr : prange) (count : N) : bool :=
  match pr with PSingle _ => count =? 1 | PRange a b => count =? b - a + 1 end.

Definition in_range (pr : prange) (q : N) : bool :=
  match pr with PSingle p => q =? p | PRange a b => (a <=? q) && (q <=? b) end.

(* the ports check_port_availability collects: metrics, node and rpc port of EVERY recorded service *)
Definition svc_ports (s : svc) : list N :=
  (match metrics_port s with Some p => [p] | None => [] end) ++
  (match node_port s with Some p => [p] | None => [] end) ++ [rpc_port s].
Definition all_ports (rg : list svc) : list N := flat_map svc_ports rg.

Definition port_free (pr : prange) (rg : list svc) : bool := negb (existsb (in_range pr) (all_ports rg)).

Definition check_opt (o : option prange) (count : N) (rg : list svc) : option N :=
  match o with
  | None => None
  | Some pr => if negb (validate pr count) then Some C_PORT_COUNT
               else if negb (port_free pr rg) then Some C_PORT_IN_USE else None
  end.

(* get_start_port_if_applicable / increment_port_option *)
Definition start_port (o : option prange) : option N :=
  match o with Some (PSingle p) => Some p | Some (PRange a _) => Some a | None => None end.
Definition incr (o : option N) : option N := option_map (fun p => p + 1) o.

Definition max_number (rg : list svc) : N := fold_right (fun s m => N.max (number s) m) 0 rg.

Definition new_svc (n : N) (np mp : option N) (rpc : N) (fst_ : bool) : svc :=
  mkSvc n Added None 1 np mp rpc None false false fst_.

Fixpoint add_loop (F : list N) (o : addopts) (fuel : nat) (n : N) (np mp rp : option N)
         (rg : list svc) (e : env) (added : list N) (failed : bool) : N * list N * list svc * env :=
  match fuel with
  | O => (if failed then C_ADD_FAILED else C_OK, rev added, rg, e)
  | S fuel' =>
      let '(rpo, e1) := match rp with Some p => (Some p, e) | None => call_port F e end in
      match rpo with
      | None => (C_ADD_ABORTED, rev added, rg, e1)
      | Some rpc =>
          let '(mpo, e2) :=
            match mp with
            | Some p => (Some (Some p), e1)
            | None => if a_enable_metrics o
                      then let '(x, e') := call_port F e1 in (option_map Some x, e')
                      else (Some None, e1)
            end in
          match mpo with
          | None => (C_ADD_ABORTED, rev added, rg, e2)
          | Some mport =>
              let e3 := mkdirs n e2 in                       (* create dirs, copy the binary *)
              let '(ok, e4) := call_install F n np e3 in
              (* a recorded service is saved at once: "any number of services could fail to be added" *)
              add_loop F o fuel' (n + 1) (incr np) (incr mp) (incr rp)
                       (if ok then rg ++ [new_svc n np mport rpc (a_first o)] else rg)
                       (if ok then set_disk e4 (rg ++ [new_svc n np mport rpc (a_first o)]) else e4)
                       (if ok then n :: added else added) (failed || negb ok)
          end
      end
  end.

(* `first_number` is what the first new service is numbered *)
Definition add_node_from (F : list N) (first_number : N) (o : addopts) (rg : list svc) (e : env)
  : N * list N * list svc * env :=
  let count := match a_count o with Some c => c | None => 1 end in
  if a_first o && (1 <? count) then (C_GENESIS_MULTI, [], rg, e) else
  if a_first o && existsb first rg then (C_GENESIS_EXISTS, [], rg, e) else
  match check_opt (a_node o) count rg with Some c => (c, [], rg, e) | None =>
  match check_opt (a_metrics o) count rg with Some c => (c, [], rg, e) | None =>
  match check_opt (a_rpc o) count rg with Some c => (c, [], rg, e) | None =>
    add_loop F o (N.to_nat count) first_number (start_port (a_node o)) (start_port (a_metrics o))
             (start_port (a_rpc o)) rg e [] false
  end end end.

(* the code after the repair: numbering continues after the highest number on record *)
Definition add_node (F : list N) (o : addopts) (rg : list svc) (e : env) :=
  add_node_from F (max_number rg + 1) o rg e.
(* the code before the repair (F21): numbering from the registry length *)
Definition add_node_legacy (F : list N) (o : addopts) (rg : list svc) (e : env) :=
  add_node_from F (N.of_nat (List.length rg) + 1) o rg e.

(* ---------------------------------------------------------------- worlds, operations, runs *)
Record world := mkW { reg : list svc; wenv : env }.

Inductive op :=
| OAdd (o : addopts)
| OStart (i : nat) (dyn : bool)
| OStop (i : nat)
| ORemove (i : nat) (keep : bool)
| OUpgrade (i : nat) (force start : bool) (tv : N) (binok dyn : bool)
| ORefresh
| OKill (i : nat)             (* environment: the process of service i dies on its own *)
| ORestart (i : nat).         (* environment: it dies and the OS service manager brings it back under a fresh pid *)

Fixpoint set_nth {A} (i : nat) (x : A) (l : list A) : list A :=
  match l, i with
  | [], _ => []
  | _ :: r, O => x :: r
  | y :: r, S j => y :: set_nth j x r
  end.

Definition on_service (w : world) (i : nat) (f : svc -> env -> N * svc * env) : world * N :=
  match nth_error (reg w) i with
  | None => (w, C_NO_SUCH_INDEX)
  | Some s => let '(c, s', e') := f s (wenv w) in (mkW (set_nth i s' (reg w)) e', c)
  end.

Definition kill_proc (n : N) (e : env) : env :=
  let o := eos e in
  match live o n with
  | None => e
  | Some p => mkEnv (mkOs (installed o) (del n (procs o)) (next_pid o) (next_port o) (dirs o))
                    (enc e) (elog e) (elied e) (p :: ekilled e) (edisk e)
  end.

(* out-of-band restart: no manager call is involved, so no call index is consumed *)
Definition restart_proc (n : N) (e : env) : env :=
  let o := eos e in
  match live o n with
  | None => e
  | Some p => mkEnv (mkOs (installed o) ((n, next_pid o) :: del n (procs o)) (next_pid o + 1) (next_port o) (dirs o))
                    (enc e) (elog e) (elied e) (p :: ekilled e) (edisk e)
  end.

Definition step (F : list N) (w : world) (o : op) : world * N :=
  match o with
  (* the registry file holds the registry the command loaded (every step ends with a save) *)
  | OAdd a => let '(c, _, rg, e) := add_node F a (reg w) (set_disk (wenv w) (reg w)) in (mkW rg e, c)
  | OStart i dyn => on_service w i (mgr_start F dyn)
  | OStop i => on_service w i (mgr_stop F)
  | ORemove i keep => on_service w i (mgr_remove F keep)
  | OUpgrade i force start tv binok dyn => on_service w i (mgr_upgrade F force start tv binok dyn)
  | ORefresh => let '(rg, e) := refresh_nodes F (reg w) (wenv w) in (mkW rg e, C_OK)
  | OKill i => match nth_error (reg w) i with
               | None => (w, C_NO_SUCH_INDEX)
               | Some s => (mkW (reg w) (kill_proc (number s) (wenv w)), C_OK)
               end
  | ORestart i => match nth_error (reg w) i with
                  | None => (w, C_NO_SUCH_INDEX)
                  | Some s => (mkW (reg w) (restart_proc (number s) (wenv w)), C_OK)
                  end
  end.

Definition FIRST_PID := 1000.
Definition FIRST_PORT := 40000.
Definition init : world := mkW [] (mkEnv (mkOs [] [] FIRST_PID FIRST_PORT []) 0 [] false [] []).

Definition run_from (F : list N) (w : world) (ops : list op) : world :=
  fold_left (fun w o => fst (step F w o)) ops w.
Definition run (F : list N) (ops : list op) : world := run_from F init ops.

(* what the antctl commands do: refresh the registry first, then act on the service *)
Inductive cmd :=
| CAdd (o : addopts) | CStart (i : nat) (dyn : bool) | CStop (i : nat) | CRemove (i : nat) (keep : bool)
| CUpgrade (i : nat) (force start : bool) (tv : N) (binok dyn : bool) | CStatus | CKill (i : nat) | CRestart (i : nat).

Definition expand1 (c : cmd) : list op :=
  match c with
  | CAdd o => [OAdd o]
  | CStart i d => [ORefresh; OStart i d]
  | CStop i => [ORefresh; OStop i]
  | CRemove i k => [ORefresh; ORemove i k]
  | CUpgrade i f s t b d => [ORefresh; OUpgrade i f s t b d]
  | CStatus => [ORefresh]
  | CKill i => [OKill i]
  | CRestart i => [ORestart i]
  end.
Definition expand (cs : list cmd) : list op := flat_map expand1 cs.

(* ---------------------------------------------------------------- registry file: save / load *)
(* the JSON object written per node, as (field, value) pairs; Option fields are null or a value *)
Inductive jv := JNull | JNum (n : N) | JBool (b : bool) | JStr (s : string) | JArr (l : list N).

Definition status_str (x : status) : string :=
  match x with Added => "Added" | Running => "Running" | Stopped => "Stopped" | Removed => "Removed" end.
Definition status_of_str (s : string) : option status :=
  if String.eqb s "Added" then Some Added else if String.eqb s "Running" then Some Running
  else if String.eqb s "Stopped" then Some Stopped else if String.eqb s "Removed" then Some Removed else None.

Definition jopt (o : option N) : jv := match o with Some n => JNum n | None => JNull end.
(* serialize_connected_peers: Some(peers) => serialize_some(list of ids), None => serialize_none *)
Definition jconn (o : option (list N)) : jv := match o with Some l => JArr l | None => JNull end.

Definition save_svc (s : svc) : list (string * jv) :=
  [("number", JNum (number s)); ("service_name", JStr (sname (number s))); ("status", JStr (status_str (st s)));
   ("pid", jopt (pid s)); ("version", JNum (version s)); ("node_port", jopt (node_port s));
   ("metrics_port", jopt (metrics_port s)); ("rpc_port", JNum (rpc_port s)); ("connected_peers", jconn (peers s));
   ("listen_addr", JBool (listen s)); ("peer_id", JBool (peer_id s)); ("first", JBool (first s))]%string.

Fixpoint jget (k : string) (l : list (string * jv)) : option jv :=
  match l with [] => None | (k', v) :: r => if String.eqb k' k then Some v else jget k r end.

Definition get_num l k := match jget k l with Some (JNum n) => Some n | _ => None end.
Definition get_opt l k := match jget k l with Some (JNum n) => Some (Some n) | Some JNull => Some None | _ => None end.
Definition get_bool l k := match jget k l with Some (JBool b) => Some b | _ => None end.
(* deserialize_connected_peers: Option<Vec<String>> -> Some(ids) / None *)
Definition get_conn l k := match jget k l with Some (JArr x) => Some (Some x) | Some JNull => Some None | _ => None end.
Definition get_status l k := match jget k l with Some (JStr s) => status_of_str s | _ => None end.

Definition load_svc (l : list (string * jv)) : option svc :=
  match get_num l "number", get_status l "status", get_opt l "pid", get_num l "version",
        get_opt l "node_port", get_opt l "metrics_port", get_num l "rpc_port",
        get_conn l "connected_peers", get_bool l "listen_addr", get_bool l "peer_id", get_bool l "first",
        jget "service_name" l with
  | Some n, Some x, Some p, Some v, Some np, Some mp, Some rp, Some pe, Some li, Some pi, Some fi, Some (JStr nm) =>
      if String.eqb nm (sname n) then Some (mkSvc n x p v np mp rp pe li pi fi) else None
  | _, _, _, _, _, _, _, _, _, _, _, _ => None
  end%string.

Definition save (rg : list svc) : list (list (string * jv)) := map save_svc rg.
Fixpoint load (f : list (list (string * jv))) : option (list svc) :=
  match f with
  | [] => Some []
  | x :: r => match load_svc x, load r with Some s, Some l => Some (s :: l) | _, _ => None end
  end.

(* ---------------------------------------------------------------- views compared with the implementation *)
Definition o2n (o : option N) : N := match o with Some p => p + 1 | None => 0 end.
Definition b2n (b : bool) : N := if b then 1 else 0.
Definition status_code (x : status) : N := match x with Added => 0 | Running => 1 | Stopped => 2 | Removed => 3 end.

Definition svc_view (e : env) (s : svc) : list N :=
  [number s; status_code (st s); o2n (pid s); version s; o2n (node_port s); o2n (metrics_port s); rpc_port s;
   o2n (option_map (fun l => N.of_nat (List.length l)) (peers s)); b2n (listen s); b2n (peer_id s); b2n (first s); b2n (has_dir (number s) e)].

Fixpoint insN (x : N * N) (l : list (N * N)) : list (N * N) :=
  match l with
  | [] => [x]
  | y :: r => if fst x <=? fst y then x :: l else y :: insN x r
  end.
Definition sortN (l : list (N * N)) : list (N * N) := fold_right insN [] l.

Definition os_view (e : env) : list (list N) :=
  let o := eos e in
  [[next_pid o; next_port o; enc e];
   map fst (sortN (map (fun x => (fst x, 0)) (installed o)));
   flat_map (fun x => [fst x; snd x]) (sortN (procs o));
   ekilled e].

Definition nn_eqb := list_eqb (list_eqb N.eqb).

(* after an add: is the registry file, as add_node itself left it, the in-memory registry? *)
Definition disk_same (w : world) : bool :=
  nn_eqb (map (svc_view (wenv w)) (edisk (wenv w))) (map (svc_view (wenv w)) (reg w)).

(* one expected step: (outcome code, per-service views, service names, OS view, file == memory after an add) *)
Definition stepview := (N * list (list N) * list string * list (list N) * bool)%type.

Definition step_agrees (o : op) (w : world) (c : N) (x : stepview) : bool :=
  let '(c', sv, names, ov, dsame) := x in
  (match o with OAdd _ => Bool.eqb (disk_same w) dsame | _ => true end) &&
  (c =? c') && nn_eqb (map (svc_view (wenv w)) (reg w)) sv &&
  list_eqb String.eqb (map (fun s => sname (number s)) (reg w)) names &&
  nn_eqb (os_view (wenv w)) ov.

Fixpoint agree_steps (F : list N) (w : world) (ops : list op) (xs : list stepview) : bool :=
  match ops, xs with
  | [], [] => true
  | o :: ops', x :: xs' => let '(w', c) := step F w o in step_agrees o w' c x && agree_steps F w' ops' xs'
  | _, _ => false
  end.

Definition log_view (e : env) : list (list N) := map (fun x => [fst (fst x); snd (fst x); b2n (snd x)]) (rev (elog e)).

(* the whole history: every step's outcome / registry / OS, the complete call log, and the
   reloaded registry file equal to the saved one at the end *)
Definition agree_hist (F : list N) (ops : list op) (xs : list stepview) (calls : list (list N)) : bool :=
  agree_steps F init ops xs && nn_eqb (log_view (wenv (run F ops))) calls.
