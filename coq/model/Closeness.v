(* Model of the closeness computations (C11):
     ant-protocol/src/lib.rs        NetworkAddress::{as_bytes,to_record_key,from_record_key,
                                    as_kbucket_key,distance}, convert_distance_to_u256
     ant-networking/src/lib.rs      sort_peers_by_address / sort_peers_by_key
     ant-networking/src/cmd.rs      get_peers_in_range, SwarmDriver::get_replicate_candidates
     ant-node/src/node.rs           Node::calculate_get_closest_peers
     ant-networking/src/replication_fetcher.rs   the `distance_range` filter of add_keys and the
                                    closeness order of next_keys_to_fetch
     ant-networking/src/record_store.rs          get_records_within_distance_range
   Definitions only.  The digest (SHA-256 inside libp2p's KBucketKey::new) is the argument `H`;
   the generated case files instantiate it with V.lib.Sha256.sha256.  Xornames of typed
   addresses (for registers and scratchpads a SHA3 of owner data) are data carried by the
   address, exactly the 32 bytes `xorname()` returns. *)
From Coq Require Import List NArith String Ascii Bool.
From V Require Import lib.Strs lib.Dec lib.XorMetric gen.Consts.
Import ListNotations.
Open Scope N_scope.

Definition bytes := list N.
Definition U256 : N := 2 ^ 256.
Definition CLOSE_GROUP_SIZE : N := Consts.c11_close_group_size.

(* ------------------------------------------------------------------ NetworkAddress *)

Inductive addr :=
| APeer (b : bytes)            (* NetworkAddress::PeerId(Bytes): the PeerId's multihash bytes *)
| AChunk (xn : bytes)          (* ChunkAddress: its xorname *)
| ATx (xn : bytes)             (* TransactionAddress: its xorname *)
| AReg (xn : bytes)            (* RegisterAddress: xorname() = sha3(meta ++ owner) *)
| AKey (b : bytes)             (* NetworkAddress::RecordKey(Bytes) *)
| AScratch (xn : bytes).       (* ScratchpadAddress: xorname() = sha3(owner) *)

Definition as_bytes (a : addr) : bytes :=
  match a with
  | APeer b | AKey b => b
  | AChunk xn => xn
  | ATx xn => xn
  | AScratch xn => xn
  | AReg xn => xn
  end.

(* every arm is RecordKey::new(<the same bytes as as_bytes>) *)
Definition to_record_key (a : addr) : bytes :=
  match a with
  | AKey b => b
  | AChunk xn => xn
  | AReg xn => xn
  | ATx xn => xn
  | AScratch xn => xn
  | APeer b => b
  end.

Definition from_record_key (k : bytes) : addr := AKey k.
Definition from_peer (p : bytes) : addr := APeer p.

(* ------------------------------------------------------------------ convert_distance_to_u256 *)

(* `format!("{distance:?}")`: derived Debug of the tuple struct around uint's U256, whose Debug
   is its decimal Display *)
Definition debug_distance (d : N) : string := ("Distance(" ++ dec d ++ ")")%string.

Fixpoint strip_prefix (p s : string) : option string :=
  match p with
  | EmptyString => Some s
  | String a p' =>
      match s with
      | EmptyString => None
      | String b s' => if Ascii.eqb a b then strip_prefix p' s' else None
      end
  end.

(* str::trim_start_matches(&str): strips the prefix as often as it matches *)
Fixpoint trim_start_fuel (fuel : nat) (p s : string) : string :=
  match fuel with
  | O => s
  | S f => match strip_prefix p s with Some r => trim_start_fuel f p r | None => s end
  end.
Definition trim_start_matches (p s : string) : string := trim_start_fuel (String.length s) p s.

(* str::trim_end_matches(")"): a one-character pattern, strips every trailing occurrence *)
Fixpoint trim_end_char (c : ascii) (s : string) : string :=
  match s with
  | EmptyString => EmptyString
  | String a r =>
      match trim_end_char c r with
      | EmptyString => if Ascii.eqb a c then EmptyString else String a EmptyString
      | r' => String a r'
      end
  end.

(* ruint's from_str_radix for radix <= 36: 0-9 a-z A-Z by value, '_' ignored, anything else or a
   digit >= radix is an error, as is a value that does not fit 256 bits *)
Inductive digit_class := DInvalid | DSkip | DVal (d : N).
Definition classify (c : ascii) : digit_class :=
  let n := N_of_ascii c in
  if (48 <=? n) && (n <=? 57) then DVal (n - 48)
  else if (97 <=? n) && (n <=? 122) then DVal (n - 97 + 10)
  else if (65 <=? n) && (n <=? 90) then DVal (n - 65 + 10)
  else if n =? 95 then DSkip
  else DInvalid.

Fixpoint parse_radix (radix acc : N) (s : string) : option N :=
  match s with
  | EmptyString => Some acc
  | String c r =>
      match classify c with
      | DInvalid => None
      | DSkip => parse_radix radix acc r
      | DVal d =>
          if radix <=? d then None
          else let acc' := acc * radix + d in
               if U256 <=? acc' then None else parse_radix radix acc' r
      end
  end.

(* <ruint::Uint as FromStr>::from_str: optional 0x / 0o / 0b prefix, otherwise decimal *)
Definition u256_from_str (s : string) : option N :=
  match s with
  | String c0 (String c1 r) =>
      if Ascii.eqb c0 "0" then
        if Ascii.eqb c1 "x" || Ascii.eqb c1 "X" then parse_radix 16 0 r
        else if Ascii.eqb c1 "o" || Ascii.eqb c1 "O" then parse_radix 8 0 r
        else if Ascii.eqb c1 "b" || Ascii.eqb c1 "B" then parse_radix 2 0 r
        else parse_radix 10 0 s
      else parse_radix 10 0 s
  | _ => parse_radix 10 0 s
  end.

Definition convert_distance_to_u256 (d : N) : N :=
  let addr_str := debug_distance d in
  let numeric_part := trim_end_char ")" (trim_start_matches "Distance(" addr_str) in
  match u256_from_str numeric_part with
  | Some v => v
  | None => 0            (* unwrap_or(U256::ZERO) *)
  end.

(* U256::from_be_bytes of a [u8; 32] *)
Definition be_val (bs : bytes) : N := fold_left (fun acc b => acc * 256 + b) bs 0.

(* ------------------------------------------------------------------ distances and decisions *)

Inductive sort_res :=
| SortOk (l : list bytes)
| NotEnoughPeers (found required : N).

Section WithDigest.
  Variable H : bytes -> N.

  (* KBucketKey::new(self.as_bytes()): the hashed bytes as a 256-bit big-endian integer *)
  Definition kbucket_key (a : addr) : N := H (as_bytes a).

  (* KBucketKey::distance = xor of the hashed bytes *)
  Definition distance (a b : addr) : N := N.lxor (kbucket_key a) (kbucket_key b).

  (* the U256 every range comparison uses *)
  Definition distance_u256 (a b : addr) : N := convert_distance_to_u256 (distance a b).

  (* key.distance(&NetworkAddress::from_peer(p).as_kbucket_key()) for a KBucketKey with hashed
     bytes kd *)
  Definition key_peer_distance (kd : N) (p : bytes) : N := N.lxor kd (kbucket_key (from_peer p)).

  Definition sort_peers_by_key (peers : list bytes) (kd : N) (expected_entries : N) : sort_res :=
    if N.of_nat (List.length peers) <? CLOSE_GROUP_SIZE
    then NotEnoughPeers (N.of_nat (List.length peers)) CLOSE_GROUP_SIZE
    else SortOk (firstn (N.to_nat expected_entries) (sort_on (key_peer_distance kd) peers)).

  Definition sort_peers_by_address (peers : list bytes) (a : addr) (expected_entries : N) : sort_res :=
    sort_peers_by_key peers (kbucket_key a) expected_entries.

  (* Network::get_all_close_peers_in_range_or_close_group (client_get_all_close_peers_in_range_or_close_group /
     node_get_closest_peers), the part after the kademlia query returned `found_peers`: a client drops
     its own peer id BEFORE the selection, a node keeps itself; then the CLOSE_GROUP_SIZE + CLOSE_GROUP_SIZE/2
     nearest are selected by sort_peers_by_address (whose too-few check thus counts what is left) *)
  Definition expanded_close_group : N := CLOSE_GROUP_SIZE + CLOSE_GROUP_SIZE / 2.
  Definition drop_self (self_peer : bytes) (peers : list bytes) : list bytes :=
    filter (fun p => negb (bytes_eqb p self_peer)) peers.
  Definition get_all_close_peers (self_peer : bytes) (client : bool) (found_peers : list bytes) (key : addr) : sort_res :=
    let closest_peers := if client then drop_self self_peer found_peers else found_peers in
    sort_peers_by_address closest_peers key expanded_close_group.

  (* Node::respond_x_closest_record_proof (GetChunkExistenceProof with difficulty > 1, chunk_only): of the
     locally held records (key, record-type tag; tag 0 = Chunk) FIRST keep the chunks, THEN order them by
     distance to the target, THEN take X = min(difficulty, CLOSE_GROUP_SIZE).  Every address is in raw
     record-key form, as the record store reports it. *)
  Definition is_chunk (r : bytes * N) : bool := snd r =? 0.
  Definition workload_factor (difficulty : N) : N := N.min difficulty CLOSE_GROUP_SIZE.
  Definition x_closest_chunks (target : addr) (difficulty : N) (records : list (bytes * N)) : list bytes :=
    firstn (N.to_nat (workload_factor difficulty))
           (sort_on (fun k => distance target (from_record_key k)) (map fst (filter is_chunk records))).

  (* the swapped order (NOT what the code does): order everything, take X, then drop the non-chunks *)
  Definition take_then_filter_chunks (target : addr) (difficulty : N) (records : list (bytes * N)) : list bytes :=
    map fst (filter is_chunk
                    (firstn (N.to_nat (workload_factor difficulty))
                            (sort_on (fun r => distance target (from_record_key (fst r))) records))).

  Definition get_peers_in_range (peers : list bytes) (a : addr) (range : N) : list bytes :=
    filter (fun p => distance_u256 a (from_peer p) <=? range) peers.

  (* Node::calculate_get_closest_peers; M is the type of the multi-address lists carried along *)
  Definition calculate_get_closest_peers {M : Type} (peer_addrs : list (bytes * M)) (target : addr)
             (num_of_peers : option N) (range : option bytes) : list (addr * M) :=
    match num_of_peers, range with
    | _, Some value =>
        let distance_bound := be_val value in
        map (fun pm => (from_peer (fst pm), snd pm))
            (filter (fun pm => distance_u256 target (from_peer (fst pm)) <=? distance_bound) peer_addrs)
    | Some n, None =>
        firstn (N.to_nat n)
               (sort_on (fun am => distance target (fst am))
                        (map (fun pm => (from_peer (fst pm), snd pm)) peer_addrs))
    | None, None => []
    end.

  (* SwarmDriver::get_replicate_candidates, given what kademlia's get_closest_local_peers
     returned (closest_k_peers) and the store's responsible range *)
  Definition get_replicate_candidates (closest_k_peers : list bytes) (target : addr)
             (responsible_range : option N) : list bytes :=
    let fallback := firstn (N.to_nat CLOSE_GROUP_SIZE) closest_k_peers in
    match responsible_range with
    | Some r =>
        let in_range := get_peers_in_range closest_k_peers target r in
        if CLOSE_GROUP_SIZE <=? N.of_nat (List.length in_range) then in_range else fallback
    | None => fallback
    end.

  (* libp2p kad `closest_keys`: every routing-table entry, ascending by distance to the target
     (third-party behaviour; the correspondence run compares it with the hook's output) *)
  Definition kad_closest_local_peers (table : list bytes) (target : addr) : list bytes :=
    sort_on (fun p => distance target (from_peer p)) table.

  (* ReplicationFetcher::add_keys, the part that decides by distance: keep the advertised
     addresses within `distance_range` of ourselves ... *)
  Definition fetcher_in_range (self_peer : bytes) (range : option N) (keys : list addr) : list addr :=
    match range with
    | Some r => filter (fun a => distance_u256 (from_peer self_peer) a <=? r) keys
    | None => keys
    end.

  (* ... and next_keys_to_fetch hands them out closest first (distance of the record key) *)
  Definition fetcher_order (self_peer : bytes) (keys : list bytes) : list bytes :=
    sort_on (fun k => distance (from_peer self_peer) (from_record_key k)) keys.

  Definition fetcher_add_keys (self_peer : bytes) (range : option N) (keys : list addr) : list bytes :=
    fetcher_order self_peer (map to_record_key (fetcher_in_range self_peer range keys)).

  (* NodeRecordStore: records_by_distance is a BTreeMap keyed by the converted distance;
     get_records_within_distance_range counts the entries strictly below the range *)
  Fixpoint insert_distinct (d : N) (l : list N) : list N :=
    match l with
    | [] => [d]
    | x :: r => if x =? d then l else x :: insert_distinct d r
    end.
  Definition records_by_distance (self_peer : bytes) (keys : list bytes) : list N :=
    fold_left (fun m k => insert_distinct (distance_u256 (from_peer self_peer) (from_record_key k)) m)
              keys [].
  Definition records_within_distance_range (self_peer : bytes) (keys : list bytes) (range : N) : N :=
    N.of_nat (List.length (filter (fun d => d <? range) (records_by_distance self_peer keys))).
End WithDigest.

(* ------------------------------------------------------------------ the fetcher's scheduler
   ReplicationFetcher::next_keys_to_fetch over an arbitrary backlog.  `to_be_fetched` is a hash map
   keyed by (key, type, holder): its iteration order is the explicit argument `pending` (any order,
   any multiset: the same (key, type) may be pending from several holders); `on_going_fetches` is keyed
   by (key, type).  The distance of an entry is the distance of its record key to ourselves,
   `dk key`; everything below is generic in `dk`, the real instance is `key_dist H self_peer`. *)

Definition kt := (bytes * N)%type.                 (* record key, record-type tag *)
Definition entry := (bytes * N * bytes)%type.      (* record key, record-type tag, holder *)
Definition entry_key (e : entry) : bytes := fst (fst e).
Definition entry_kt (e : entry) : kt := fst e.
Definition entry_holder (e : entry) : bytes := snd e.
Definition kt_eqb (a b : kt) : bool := bytes_eqb (fst a) (fst b) && (snd a =? snd b).
Definition entry_eqb (a b : entry) : bool := kt_eqb (fst a) (fst b) && bytes_eqb (snd a) (snd b).
Definition mem_kt (x : kt) (l : list kt) : bool := existsb (kt_eqb x) l.
Definition mem_entry (x : entry) (l : list entry) : bool := existsb (entry_eqb x) l.

Section Scheduler.
  Variable dk : bytes -> N.
  Definition edist (e : entry) : N := dk (entry_key e).

  (* the pick loop: walk the ordered backlog, take an entry when there is capacity left and its
     (key, type) is not in flight (this also skips the same (key, type) offered by another holder) *)
  Fixpoint fetch_walk (maxp : N) (order : list entry) (inflight : list kt) : list entry :=
    match order with
    | [] => []
    | e :: r =>
        if (N.of_nat (List.length inflight) <? maxp) && negb (mem_kt (entry_kt e) inflight)
        then e :: fetch_walk maxp r (entry_kt e :: inflight)
        else fetch_walk maxp r inflight
    end.

  Definition next_keys_generic (maxp : N) (pending : list entry) (inflight : list kt) : list entry :=
    if maxp <=? N.of_nat (List.length inflight) then []          (* no free fetch capacity *)
    else fetch_walk maxp (sort_on edist pending) inflight.

  Fixpoint sortedb (l : list N) : bool :=
    match l with
    | x :: ((y :: _) as r) => (x <=? y) && sortedb r
    | _ => true
    end.

  Fixpoint nodup_kt (l : list kt) : bool :=
    match l with
    | [] => true
    | x :: r => negb (mem_kt x r) && nodup_kt r
    end.

  (* acceptor: "picked is what a scheduling call may hand out from this backlog": ascending by
     distance, pending and not in flight, one entry per (key, type), within capacity, and nothing
     that stays behind is closer than anything picked (and stays behind only when capacity is used up) *)
  Definition sched_ok (maxp : N) (pending : list entry) (inflight : list kt) (picked : list entry) : bool :=
    let total := N.of_nat (List.length inflight + List.length picked) in
    sortedb (map edist picked) &&
    forallb (fun p => mem_entry p pending && negb (mem_kt (entry_kt p) inflight)) picked &&
    nodup_kt (map entry_kt picked) &&
    (total <=? N.max maxp (N.of_nat (List.length inflight))) &&
    forallb (fun e => mem_kt (entry_kt e) inflight || mem_kt (entry_kt e) (map entry_kt picked) ||
                      ((maxp <=? total) && forallb (fun p => edist p <=? edist e) picked)) pending.

  (* what precedes the scheduling call inside each fetcher operation (nothing stored locally, no
     expiry; adverts with at least two new keys: the single-key fast path is C08's subject).
     `farthest` is farthest_acceptable_distance: a KBucketDistance compared exactly (no conversion). *)
  Inductive fstep :=
  | FAdd (holder : bytes) (keys : list kt)
  | FPut (key : bytes) (t : N)
  | FEarly (key : bytes) (t : N)
  | FNext
  | FFull (farthest_in : option bytes).        (* set_farthest_on_full: no scheduling call follows *)

  (* set_farthest_on_full: the bound only ever shrinks; when it does, everything queued or in flight
     beyond the new bound is dropped *)
  Definition set_farthest_on_full (farthest : option N) (farthest_in : option bytes)
             (pending ongoing : list entry) : list entry * list entry * option N :=
    match farthest_in with
    | None => (pending, ongoing, farthest)
    | Some key =>
        let new_d := dk key in
        let keep := match farthest with Some old => old <=? new_d | None => false end in
        if keep then (pending, ongoing, farthest)
        else (filter (fun e => edist e <=? new_d) pending, filter (fun e => edist e <=? new_d) ongoing, Some new_d)
    end.

  Definition step_pre (farthest : option N) (range : option N) (st : fstep) (pending ongoing : list entry)
    : list entry * list entry * option N :=
    match st with
    | FAdd holder keys =>
        let within := match farthest with
                      | Some f => filter (fun k => dk (fst k) <=? f) keys       (* distance > farthest: refused *)
                      | None => keys
                      end in
        let in_range := match range with
                        | Some r => filter (fun k => convert_distance_to_u256 (dk (fst k)) <=? r) within
                        | None => within
                        end in
        (fold_left (fun acc k => if mem_entry (k, holder) acc then acc else acc ++ [(k, holder)]) in_range pending,
         ongoing, farthest)
    | FPut key t =>
        (filter (fun e => negb (kt_eqb (entry_kt e) (key, t))) pending,
         filter (fun e => negb (bytes_eqb (entry_key e) key)) ongoing, farthest)
    | FEarly key t =>
        (filter (fun e => negb (kt_eqb (entry_kt e) (key, t))) pending,
         filter (fun e => negb (kt_eqb (entry_kt e) (key, t))) ongoing, farthest)
    | FNext => (pending, ongoing, farthest)
    | FFull farthest_in => set_farthest_on_full farthest farthest_in pending ongoing
    end.

  Definition same_entries (a b : list entry) : bool :=
    Nat.eqb (List.length a) (List.length b) && forallb (fun x => mem_entry x b) a && forallb (fun x => mem_entry x a) b.

  Definition is_full_step (st : fstep) : bool := match st with FFull _ => true | _ => false end.

  (* one recorded step: both maps and the farthest bound before, the entries that went in flight (in
     hand-out order), both maps and the bound after *)
  Definition agree_fetch_step (maxp : N) (range : option N) (st : fstep)
             (pre_p pre_o : list entry) (pre_far : option N) (picked : list entry)
             (post_p post_o : list entry) (post_far : option N) : bool :=
    let '(p1, o1, far1) := step_pre pre_far range st pre_p pre_o in
    option_eqb N.eqb far1 post_far &&
    if is_full_step st
    then match picked with [] => true | _ => false end && same_entries post_p p1 && same_entries post_o o1
    else sched_ok maxp p1 (map entry_kt o1) picked &&
         same_entries post_p (filter (fun e => negb (mem_entry e picked)) p1) &&
         same_entries post_o (o1 ++ picked).
  (* the fetcher as a deterministic machine over whole histories (the hash-map order of the backlog is
     whatever order the steps produce; theorems about it hold for every order, see fetch_schedule_closest_first) *)
  Definition fetch_step_model (maxp : N) (range : option N)
             (s : list entry * list entry * option N) (st : fstep) : list entry * list entry * option N :=
    let '(pending, ongoing, farthest) := s in
    let '(p1, o1, far1) := step_pre farthest range st pending ongoing in
    if is_full_step st then (p1, o1, far1)
    else let picked := next_keys_generic maxp p1 (map entry_kt o1) in
         (filter (fun e => negb (mem_entry e picked)) p1, o1 ++ picked, far1).

  Definition fetch_run (maxp : N) (range : option N) (steps : list fstep) : list entry * list entry * option N :=
    fold_left (fetch_step_model maxp range) steps ([], [], None).

  (* the minimum of the distances of the farthest keys notified so far *)
  Definition notify_min (b : option N) (st : fstep) : option N :=
    match st with
    | FFull (Some key) => Some (match b with Some o => N.min o (dk key) | None => dk key end)
    | _ => b
    end.
  Definition notified_min (steps : list fstep) : option N := fold_left notify_min steps None.
End Scheduler.

(* ------------------------------------------------------------------ the record store's farthest record
   NodeRecordStore: `records` (the keys held), `farthest_record` (key, distance) and the capacity
   decisions of put_verified / prune_records_if_needed, mark_as_stored, remove, and a restart
   (with_config restores the keys from disk and recomputes the farthest record).  Generic in the
   distance `dk` of a record key to ourselves; the real instance is `key_dist H self_peer`.
   Puts are settled (the write reported back and the key was marked as stored) before the next step. *)
Section Store.
  Variable dk : bytes -> N.
  Definition far_t := option (bytes * N).
  Definition store_t := (list bytes * far_t)%type.      (* held keys (a hash map: any order), farthest_record *)

  (* calculate_farthest: sort by distance (stable), take the last *)
  Definition calc_farthest (held : list bytes) : far_t :=
    fold_left (fun acc k => match acc with
                            | None => Some (k, dk k)
                            | Some (_, d) => if d <=? dk k then Some (k, dk k) else acc
                            end) held None.

  Definition mem_key (k : bytes) (l : list bytes) : bool := existsb (bytes_eqb k) l.
  Definition remove_key (k : bytes) (held : list bytes) : list bytes :=
    filter (fun x => negb (bytes_eqb x k)) held.

  (* RecordStore::remove *)
  Definition store_remove (k : bytes) (s : store_t) : store_t :=
    let held' := remove_key k (fst s) in
    (held', match snd s with
            | Some (fk, fd) => if bytes_eqb fk k then calc_farthest held' else Some (fk, fd)
            | None => None
            end).

  Definition store_mark_as_stored (k : bytes) (s : store_t) : store_t :=
    (if mem_key k (fst s) then fst s else fst s ++ [k],
     match snd s with
     | Some (fk, fd) => if fd <? dk k then Some (k, dk k) else Some (fk, fd)
     | None => Some (k, dk k)
     end).

  (* prune_records_if_needed: None = Err(MaxRecords) *)
  Definition store_prune (max_records : N) (k : bytes) (s : store_t) : option store_t :=
    if N.of_nat (List.length (fst s)) <? max_records then Some s
    else match snd s with
         | Some (fk, fd) => if fd <? dk k then None else Some (store_remove fk s)
         | None => Some s
         end.

  (* SPutSame: put_verified of bytes that are still in the read cache returns Ok before any capacity
     decision and changes nothing (outcome 2 in the recorded histories) *)
  Inductive sstep := SPut (k : bytes) | SPutSame (k : bytes) | SRemove (k : bytes) | SRestart.

  (* result code: 0 = Ok, 1 = MaxRecords *)
  Definition store_step (max_records : N) (s : store_t) (st : sstep) : store_t * N :=
    match st with
    | SPut k => match store_prune max_records k s with
                | Some s' => (store_mark_as_stored k s', 0)
                | None => (s, 1)
                end
    | SPutSame _ => (s, 2)
    | SRemove k => (store_remove k s, 0)
    | SRestart => ((fst s, calc_farthest (fst s)), 0)
    end.

  Definition store_run (max_records : N) (steps : list sstep) : store_t :=
    fold_left (fun s st => fst (store_step max_records s st)) steps ([], None).

  Definition same_keys (a b : list bytes) : bool :=
    Nat.eqb (List.length a) (List.length b) && forallb (fun x => mem_key x b) a && forallb (fun x => mem_key x a) b.
  Definition far_eqb (a b : far_t) : bool :=
    match a, b with
    | None, None => true
    | Some (k, d), Some (k', d') => bytes_eqb k k' && (d =? d')
    | _, _ => false
    end.

  Definition agree_store_step (max_records : N) (st : sstep) (pre_held : list bytes) (pre_far : far_t)
             (res : N) (post_held : list bytes) (post_far : far_t) : bool :=
    let '((held, far), code) := store_step max_records (pre_held, pre_far) st in
    (code =? res) && same_keys held post_held && far_eqb far post_far.
End Store.

(* ------------------------------------------------------------------ agreement predicates
   (what the generated case files evaluate: "the model, run on this case, returns what the
   implementation returned") *)

Definition addr_eqb (a b : addr) : bool :=
  match a, b with
  | APeer x, APeer y | AChunk x, AChunk y | ATx x, ATx y | AReg x, AReg y | AKey x, AKey y
  | AScratch x, AScratch y => bytes_eqb x y
  | _, _ => false
  end.

Definition bytes_list_eqb (a b : list bytes) : bool := list_eqb bytes_eqb a b.

Section Agree.
  Variable H : bytes -> N.

  (* op "addr": bytes, record key, hashed bytes, round trip through the record key *)
  Definition agree_addr (a : addr) (impl_bytes impl_key : bytes) (impl_digest : N) : bool :=
    bytes_eqb (as_bytes a) impl_bytes && bytes_eqb (to_record_key a) impl_key &&
    (kbucket_key H a =? impl_digest).

  (* op "dist": the distance both ways, converted, and via the record-key forms *)
  Definition agree_dist (a b : addr) (d_ab d_ba u_ab d_keys : N) : bool :=
    (distance H a b =? d_ab) && (distance H b a =? d_ba) && (distance_u256 H a b =? u_ab) &&
    (distance H (from_record_key (to_record_key a)) (from_record_key (to_record_key b)) =? d_keys).

  Definition agree_convert (d v : N) : bool := convert_distance_to_u256 d =? v.

  Definition sort_res_eqb (r : sort_res) (code : N) (found required : N) (l : list bytes) : bool :=
    match r with
    | SortOk m => (code =? 0) && bytes_list_eqb m l
    | NotEnoughPeers f q => (code =? 1) && (f =? found) && (q =? required)
    end.

  Definition agree_sort_addr (peers : list bytes) (a : addr) (n : N)
             (code found required : N) (l : list bytes) : bool :=
    sort_res_eqb (sort_peers_by_address H peers a n) code found required l.

  (* sort_peers_by_key with a KBucketKey built from raw preimage bytes *)
  Definition agree_sort_key (peers : list bytes) (preimage : bytes) (n : N)
             (code found required : N) (l : list bytes) : bool :=
    sort_res_eqb (sort_peers_by_key H peers (H preimage) n) code found required l.

  Definition agree_close_peers (self_peer : bytes) (client : bool) (found_peers : list bytes) (a : addr)
             (code found required : N) (l : list bytes) : bool :=
    sort_res_eqb (get_all_close_peers H self_peer client found_peers a) code found required l.

  Definition agree_chunk_proofs (target : addr) (difficulty : N) (records : list (bytes * N)) (out : list bytes) : bool :=
    bytes_list_eqb (x_closest_chunks H target difficulty records) out.

  Definition agree_in_range (peers : list bytes) (a : addr) (range : N) (l : list bytes) : bool :=
    bytes_list_eqb (get_peers_in_range H peers a range) l.

  Definition pair_eqb (x y : addr * N) : bool := addr_eqb (fst x) (fst y) && (snd x =? snd y).

  (* multi-address lists are represented by a tag number chosen by the generator *)
  Definition agree_closest (peer_addrs : list (bytes * N)) (target : addr) (num : option N)
             (range : option bytes) (out : list (addr * N)) : bool :=
    list_eqb pair_eqb (calculate_get_closest_peers H peer_addrs target num range) out.

  Definition agree_candidates (table closest_k : list bytes) (target : addr) (range : option N)
             (out : list bytes) : bool :=
    bytes_list_eqb (kad_closest_local_peers H table target) closest_k &&
    bytes_list_eqb (get_replicate_candidates H closest_k target range) out.

  Definition agree_fetcher (self_peer : bytes) (range : option N) (keys : list addr)
             (out : list bytes) : bool :=
    bytes_list_eqb (fetcher_add_keys H self_peer range keys) out.

  (* SwarmDriver::get_closest_k_value_local_peers: ourselves, then the routing table ascending by distance
     to ourselves (kademlia's closest_keys for our own key), cut at K_VALUE *)
  Definition closest_k_value_local_peers (self_peer : bytes) (k_value : N) (table : list bytes) : list bytes :=
    firstn (N.to_nat k_value)
           (self_peer :: sort_on (fun p => distance H (from_peer self_peer) (from_peer p)) table).

  Definition agree_closest_k (self_peer : bytes) (table : list bytes) (out : list bytes) : bool :=
    bytes_list_eqb (closest_k_value_local_peers self_peer Consts.repl_k_value table) out.

  Definition agree_store_count (self_peer : bytes) (keys : list bytes) (range : N) (n : N) : bool :=
    records_within_distance_range H self_peer keys range =? n.

  (* the real distance of a record key to ourselves, and the scheduler at that distance *)
  Definition key_dist (self_peer : bytes) (k : bytes) : N :=
    distance H (from_peer self_peer) (from_record_key k).
  Definition next_keys_to_fetch (self_peer : bytes) (maxp : N) (pending : list entry) (inflight : list kt) : list entry :=
    next_keys_generic (key_dist self_peer) maxp pending inflight.

  (* a whole recorded history of one fetcher; the distance of every key occurring in it is computed
     once (`keys` lists them) and looked up afterwards *)
  Fixpoint lookup_dist (tbl : list (bytes * N)) (k : bytes) : N :=
    match tbl with
    | [] => 0
    | (k', d) :: r => if bytes_eqb k' k then d else lookup_dist r k
    end.
  Definition dist_table (self_peer : bytes) (keys : list bytes) : list (bytes * N) :=
    let hs := kbucket_key H (from_peer self_peer) in
    map (fun k => (k, N.lxor hs (kbucket_key H (from_record_key k)))) keys.

  Definition fstate := (list entry * list entry * option N)%type.    (* backlog, in flight, farthest bound *)
  Definition fetch_record := (fstep * fstate * list entry * fstate)%type.

  (* every record key whose distance a recorded step needs *)
  Definition record_keys (r : fetch_record) : list bytes :=
    match r with
    | (st, (pre_p, pre_o, _), picked, _) =>
        match st with FAdd _ ks => map fst ks | FFull (Some k) => [k] | _ => [] end ++
        map entry_key pre_p ++ map entry_key pre_o ++ map entry_key picked
    end.
  Definition mem_bytes (k : bytes) (l : list bytes) : bool := existsb (bytes_eqb k) l.

  Definition agree_fetch_sched (self_peer : bytes) (maxp : N) (range : option N) (keys : list bytes)
             (steps : list fetch_record) : bool :=
    let tbl := dist_table self_peer keys in
    (maxp =? Consts.fetcher_max_parallel) &&
    forallb (fun r : fetch_record =>
               forallb (fun k => mem_bytes k keys) (record_keys r) &&
               match r with
               | (st, (pre_p, pre_o, pre_far), picked, (post_p, post_o, post_far)) =>
                   agree_fetch_step (lookup_dist tbl) maxp range st pre_p pre_o pre_far picked post_p post_o post_far
               end) steps.

  Definition store_record := (sstep * (list bytes * far_t) * N * (list bytes * far_t))%type.
  Definition store_record_keys (r : store_record) : list bytes :=
    match r with
    | (st, (pre_held, pre_far), _, _) =>
        match st with SPut k | SPutSame k | SRemove k => [k] | SRestart => [] end ++ pre_held
    end.

  (* a recorded store history; distances are computed once per key (see agree_fetch_sched) *)
  Definition agree_store_hist (self_peer : bytes) (max_records : N) (keys : list bytes)
             (steps : list store_record) : bool :=
    let tbl := dist_table self_peer keys in
    forallb (fun r : store_record =>
               forallb (fun k => mem_key k keys) (store_record_keys r) &&
               match r with
               | (st, (pre_held, pre_far), res, (post_held, post_far)) =>
                   agree_store_step (lookup_dist tbl) max_records st pre_held pre_far res post_held post_far
               end) steps.

End Agree.
