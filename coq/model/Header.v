(* Model of ant-protocol/src/storage/header.rs (RecordKind, RecordHeader, try_serialize_record,
   try_deserialize_record) and chunks.rs (Chunk's Serialize / Deserialize), plus the serde shapes of
   every type that is stored under a record kind.  Values are serde trees (lib/Serde.v); the shapes
   below are what the derives of the stored types produce (checked on every run against the trees
   recorded from real values). *)
From Coq Require Import List NArith ZArith Bool String.
From V Require Import lib.Strs lib.Serde lib.Msgpack gen.Consts model.Quote.
Import ListNotations.
Open Scope N_scope.

Inductive kind :=
| KChunk | KChunkWithPayment | KTransaction | KTransactionWithPayment
| KRegister | KRegisterWithPayment | KScratchpad | KScratchpadWithPayment.

(* the variants of `enum RecordKind`, by name *)
Definition all_kinds : list kind :=
  [KChunk; KChunkWithPayment; KRegister; KRegisterWithPayment; KScratchpad; KScratchpadWithPayment;
   KTransaction; KTransactionWithPayment].

Definition kind_name (k : kind) : string :=
  match k with
  | KChunk => "Chunk" | KChunkWithPayment => "ChunkWithPayment"
  | KTransaction => "Transaction" | KTransactionWithPayment => "TransactionWithPayment"
  | KRegister => "Register" | KRegisterWithPayment => "RegisterWithPayment"
  | KScratchpad => "Scratchpad" | KScratchpadWithPayment => "ScratchpadWithPayment"
  end%string.

Definition kind_eqb (a b : kind) : bool :=
  match a, b with
  | KChunk, KChunk | KChunkWithPayment, KChunkWithPayment | KTransaction, KTransaction
  | KTransactionWithPayment, KTransactionWithPayment | KRegister, KRegister
  | KRegisterWithPayment, KRegisterWithPayment | KScratchpad, KScratchpad
  | KScratchpadWithPayment, KScratchpadWithPayment => true
  | _, _ => false
  end.

(* impl Serialize for RecordKind: the wire tag, pinned *)
Definition tag (k : kind) : N :=
  match k with
  | KChunkWithPayment => 0
  | KChunk => 1
  | KTransaction => 2
  | KRegister => 3
  | KRegisterWithPayment => 4
  | KScratchpad => 5
  | KScratchpadWithPayment => 6
  | KTransactionWithPayment => 7
  end.

(* impl Deserialize for RecordKind *)
Definition kind_of_tag (n : N) : option kind :=
  match n with
  | 0 => Some KChunkWithPayment
  | 1 => Some KChunk
  | 2 => Some KTransaction
  | 3 => Some KRegister
  | 4 => Some KRegisterWithPayment
  | 5 => Some KScratchpad
  | 6 => Some KScratchpadWithPayment
  | 7 => Some KTransactionWithPayment
  | _ => None
  end.

(* the tables as the translator reads them from header.rs: (name, number) sorted by number *)
Definition kind_of_name (s : string) : option kind :=
  find (fun k => String.eqb (kind_name k) s) all_kinds.

Definition ser_table : list (string * N) :=
  map (fun k => (kind_name k, tag k))
      [KChunkWithPayment; KChunk; KTransaction; KRegister; KRegisterWithPayment; KScratchpad;
       KScratchpadWithPayment; KTransactionWithPayment].

(* RecordHeader { kind } is a one-field struct: serialize_struct(1) + serialize_u32(tag) *)
Definition header_tree (k : kind) : sval := VTuple [VU W32 (tag k)].
Definition header (k : kind) : list N := mp_encode (header_tree k).

Definition SIZE : N := Consts.record_header_size.

(* try_serialize_record *)
Definition encode_record (k : kind) (v : sval) : list N := header k ++ mp_encode v.

(* RecordHeader::from_record: needs SIZE + 1 bytes and hands exactly the first SIZE + 1 = 3 bytes to
   rmp_serde::from_slice::<RecordHeader>.  On three bytes b0 b1 b2 the derived struct visitor can be
   reached in three ways (rmp-serde decode.rs, `any_inner`):
     - b0 = 0x91, an array of one element: the element is read by `any_num` (any integer format
       that fits in the remaining bytes; trailing bytes are not inspected);
     - b0 = 0xc4 (bin8): deserialize_struct passes allow_bytes = false, so the payload is offered to
       visit_seq as a sequence of u8: length byte 1, then the tag as a raw byte;
     - b0 = 0x81, a map of one entry: the field is identified by its index 0 (serde-derive's field
       visitor accepts integers), the value again by `any_num`.
   Everything else fails (wrong arity, more bytes needed than the 3-byte window holds, wrong type).
   The set of accepted 3-byte windows is compared exhaustively (all 2^24) with the real code. *)
Definition tag_of_int (bs : list N) : option kind :=
  match dec_int bs with
  | Some (z, _) => if (0 <=? z)%Z && in_u W32 (Z.to_N z) then kind_of_tag (Z.to_N z) else None
  | None => None
  end.

Definition decode_header3 (b0 b1 b2 : N) : option kind :=
  if b0 =? 145 then tag_of_int [b1; b2]
  else if b0 =? 196 then (if b1 =? 1 then kind_of_tag b2 else None)
  else if b0 =? 129 then (if b1 =? 0 then tag_of_int [b2] else None)
  else None.

Definition from_record (bs : list N) : option kind :=
  match bs with
  | b0 :: b1 :: b2 :: _ => decode_header3 b0 b1 b2          (* len >= SIZE + 1 *)
  | _ => None
  end.

(* RecordHeader::is_record_of_type_chunk: from_record's verdict, narrowed to "is it a chunk" *)
Definition is_record_of_type_chunk (bs : list N) : option bool :=
  match from_record bs with Some k => Some (kind_eqb k KChunk) | None => None end.

(* RecordHeader::try_deserialize on exactly the header bytes (used by the size test) *)
Definition header_try_deserialize (bs : list N) : option kind :=
  match mp_from_slice (STuple [SU W32]) bs with
  | Some (VTuple [VU _ n]) => kind_of_tag n
  | _ => None
  end.

(* ---------- shapes of the stored types ---------- *)
Definition S_U8S (n : nat) : shape := STuple (repeat (SU W8) n).
Definition S_XOR : shape := S_U8S 32.              (* XorName, [u8; 32] *)
Definition S_PK : shape := S_U8S 48.               (* bls::PublicKey *)
Definition S_SIG : shape := S_U8S 96.              (* bls::Signature *)
Definition S_VEC_U8 : shape := SSeq (SU W8).       (* Vec<u8> (not serde_bytes) *)

Definition shape_chunk : shape := SBytes.          (* Chunk: only `value: Bytes` goes out *)

Definition shape_quote : shape :=
  STuple [S_XOR; STuple [SU W64; SU W32] (* SystemTime: secs, nanos since epoch *); shape_metrics;
          SBytes (* alloy Address, 20 bytes *); S_VEC_U8 (* pub_key *); S_VEC_U8 (* signature *)].
Definition shape_proof : shape :=
  STuple [SSeq (STuple [S_VEC_U8 (* EncodedPeerId *); shape_quote])].

Definition shape_scratchpad : shape :=
  STuple [STuple [S_PK] (* ScratchpadAddress { owner } *); SU W64; SBytes; SU W64; SOption S_SIG].

Definition shape_transaction : shape :=
  STuple [S_PK; SSeq S_PK; S_XOR; SSeq (STuple [S_PK; S_XOR]); S_SIG].

Definition name_AnyoneCanWrite : list N := [65; 110; 121; 111; 110; 101; 67; 97; 110; 87; 114; 105; 116; 101].
Definition name_Writers : list N := [87; 114; 105; 116; 101; 114; 115].

Definition shape_reg_address : shape := STuple [S_XOR; S_PK].
Definition shape_permissions : shape :=
  SEnum [SUnitVariant name_AnyoneCanWrite; SVariant name_Writers (SSeq S_PK)].
Definition shape_register : shape := STuple [shape_reg_address; shape_permissions].
Definition shape_reg_op : shape :=
  STuple [shape_reg_address;
          STuple [SSeq S_XOR (* children *); S_VEC_U8 (* entry *)] (* crdts MerkleDagEntry *);
          S_PK; S_SIG].
Definition shape_signed_register : shape := STuple [shape_register; S_SIG; SSeq shape_reg_op].

Definition with_payment (s : shape) : shape := STuple [shape_proof; s].

(* the Rust type read under each kind (put_validation.rs / transactions.rs) *)
Definition shape_of_kind (k : kind) : shape :=
  match k with
  | KChunk => shape_chunk
  | KChunkWithPayment => with_payment shape_chunk
  | KTransaction => SSeq shape_transaction                    (* Vec<Transaction> *)
  | KTransactionWithPayment => with_payment shape_transaction
  | KRegister => shape_signed_register
  | KRegisterWithPayment => with_payment shape_signed_register
  | KScratchpad => shape_scratchpad
  | KScratchpadWithPayment => with_payment shape_scratchpad
  end.

(* try_deserialize_record::<T>: strictly more than SIZE bytes, the first SIZE are skipped unseen *)
Definition decode_value (s : shape) (bs : list N) : option sval :=
  if len bs <=? SIZE then None else mp_from_slice s (skipn (N.to_nat SIZE) bs).

(* what a node does with a record: read the kind, then the value under the type of that kind *)
Definition decode_record (bs : list N) : option (kind * sval) :=
  match from_record bs with
  | Some k => match decode_value (shape_of_kind k) bs with Some v => Some (k, v) | None => None end
  | None => None
  end.

(* ---------- chunks ---------- *)
(* `Bytes`' Deserialize accepts, through rmp-serde, a bin, a str (valid UTF-8 or not) or an array
   of integers that fit u8; `Chunk::deserialize` then recomputes the address from the bytes *)
Definition u8_of (v : sval) : N := match v with VU _ n => n | _ => 0 end.

Definition decode_bytes_lenient (bs : list N) : option (list N * list N) :=
  match dec_len BIN bs with
  | Some (k, r) => take_n k r
  | None =>
      match dec_len STR bs with
      | Some (k, r) => take_n k r
      | None =>
          match dec_len ARR bs with
          | Some (n, r) =>
              if len r <? n then None
              else match dec_many (mp_decode_as (SU W8)) (N.to_nat n) r with
                   | Some (l, r') => Some (map u8_of l, r')
                   | None => None
                   end
          | None => None
          end
      end
  end.

Record chunk := { c_address : list N; c_value : list N }.

Section Chunks.
  Variable content_hash : list N -> list N.          (* XorName::from_content = SHA3-256 *)

  Definition chunk_new (value : list N) : chunk := {| c_address := content_hash value; c_value := value |}.

  (* try_deserialize_record::<Chunk> *)
  Definition decode_chunk (bs : list N) : option chunk :=
    if len bs <=? SIZE then None
    else match decode_bytes_lenient (skipn (N.to_nat SIZE) bs) with
         | Some (b, _) => Some (chunk_new b)
         | None => None
         end.

  (* try_serialize_record(&chunk, RecordKind::Chunk): the address is not written *)
  Definition encode_chunk (c : chunk) : list N := encode_record KChunk (VBytes (c_value c)).
End Chunks.

(* ---------- agreement terms ---------- *)
Definition vu8s (l : list N) : list sval := map (VU W8) l.

Definition kind_opt_eqb (a b : option kind) : bool := option_eqb kind_eqb a b.

Definition agree_header (k : kind) (bytes : list N) (back : option kind) : bool :=
  bytes_eqb (header k) bytes && (len bytes =? SIZE) && kind_opt_eqb (header_try_deserialize bytes) back.

Definition agree_from_record (bs : list N) (r : option kind) : bool := kind_opt_eqb (from_record bs) r.

(* every public reader of the header module on one value: from_record, is_record_of_type_chunk, and
   try_deserialize on the first SIZE bytes (None when the value is shorter) *)
Definition agree_header_fns (bs : list N) (r : option kind) (is_chunk : option bool) (td2 : option (option kind)) : bool :=
  kind_opt_eqb (from_record bs) r && option_eqb Bool.eqb (is_record_of_type_chunk bs) is_chunk &&
  match td2 with
  | Some x => kind_opt_eqb (header_try_deserialize (firstn (N.to_nat SIZE) bs)) x
  | None => len bs <? SIZE
  end.

(* a real value of kind k: its tree has the model's shape, is well formed, the model encodes it to
   the implementation's bytes, and the model decodes those bytes back to the tree *)
Definition agree_record (k : kind) (v : sval) (bytes : list N) : bool :=
  has_shape (shape_of_kind k) v && wf v && bytes_eqb (encode_record k v) bytes &&
  match decode_record bytes with
  | Some (k', v') => kind_eqb k k' && sval_eqb v v'
  | None => false
  end.

(* serde's Deserialize for SystemTime builds Duration::new(secs, nanos), which carries nanos >= 10^9
   into the seconds: the value handed back is the normalised one *)
Fixpoint norm_times (v : sval) : sval :=
  match v with
  | VSome x => VSome (norm_times x)
  | VVariant n x => VVariant n (norm_times x)
  | VSeq l => VSeq (map norm_times l)
  | VMap l => VMap (map norm_times l)
  | VTuple l =>
      match l with
      | [VU W64 s; VU W32 n] => VTuple [VU W64 (s + n / 1000000000); VU W32 (n mod 1000000000)]
      | _ => VTuple (map norm_times l)
      end
  | _ => v
  end.

(* arbitrary bytes: header layer exactly; typed layer see Msgpack.agree_decode *)
Definition agree_decode_record (exact : bool) (as_kind : kind) (bs : list N)
           (r_header : option kind) (r_value : option sval) : bool :=
  kind_opt_eqb (from_record bs) r_header &&
  match decode_value (shape_of_kind as_kind) bs, r_value with
  | Some v, Some v' => if exact then sval_eqb v v' else sval_sim (norm_times v) v'
  | None, None => true
  | _, _ => negb exact
  end.

Definition agree_decode_chunk (bs : list N) (r_value : option (list N)) : bool :=
  option_eqb bytes_eqb
    (match decode_chunk (fun _ => []) bs with Some c => Some (c_value c) | None => None end) r_value.

(* exhaustive sweep of all 2^24 three-byte windows: the implementation's accepted set, sorted *)
Definition bytes3 (x : N) : list N := [x / 65536; (x / 256) mod 256; x mod 256].
Definition accepted_count : N := 8 * 256 + 4 * 8.     (* 91 k *, 91 cc k, 91 d0 k, c4 01 k, 81 00 k *)

Fixpoint increasing (l : list N) : bool :=
  match l with
  | a :: (b :: _) as r => (a <? b) && increasing r
  | _ => true
  end.

Definition agree_sweep (acc : list (N * kind)) : bool :=
  (len acc =? accepted_count) && increasing (map fst acc) &&
  forallb (fun xk : N * kind => kind_opt_eqb (from_record (bytes3 (fst xk))) (Some (snd xk))) acc.
