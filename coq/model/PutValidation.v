(* Model of ant-node/src/put_validation.rs (validate_and_store_record, store_replicated_in_record and
   their helpers), ant-evm/src/data_payments.rs (ProofOfPayment::verify_for / has_expired / payees /
   quotes_by_peer, PaymentQuote::check_is_signed_by_claimed_peer / has_expired), the typed address ->
   record key mapping of ant-protocol (NetworkAddress::to_record_key, Chunk deserialisation
   recomputing its address) and the three per-kind validators, transcribed branch by branch.

   Everything the code does not own is symbolic data supplied with the input:
     - 32-byte names are either the hash of a known byte string ([NHash p]) or opaque ([NRaw n]);
       hashing is the injective constructor [NHash] (collision freedom is a reading, not an axiom);
     - signatures are Dolev-Yao symbols: who signed, and over which fields;
     - the payment contract's answer and the node's close-peer list are part of the environment;
     - time is the age of each quote in milliseconds at the moment of the check.

   The code is written as an *interaction tree* over the two store queries the node really makes
   (RecordStoreHasKey, GetLocalRecord) and the fire-and-forget commands it emits (PutLocalRecord,
   PaymentReceived, ...), so that the same definition gives the serial semantics ([run]) and every
   interleaving of overlapping deliveries ([sched_run]).  Definitions only; proofs live in proofs/. *)
From Coq Require Import List NArith ZArith Bool.
From V Require Import lib.Strs gen.Consts.
Import ListNotations.
Open Scope N_scope.

(* ------------------------------------------------------------------ symbolic universe *)

Definition peer := N.        (* libp2p identities (ed25519); [self_peer] is this node *)
Definition owner := N.       (* BLS keys *)
Definition self_peer : peer := 0.

(* byte strings whose hash is used as a name *)
Inductive preimage :=
| PData (n : N)                 (* opaque chunk bytes *)
| POwner (o : owner)            (* the 48 bytes of a BLS public key *)
| PReg (o : owner) (m : N).     (* register meta ++ owner key *)

Inductive name := NHash (p : preimage) | NRaw (n : N).

Definition preimage_eqb (a b : preimage) : bool :=
  match a, b with
  | PData x, PData y => x =? y
  | POwner x, POwner y => x =? y
  | PReg o m, PReg o' m' => (o =? o') && (m =? m')
  | _, _ => false
  end.

Definition name_eqb (a b : name) : bool :=
  match a, b with
  | NHash p, NHash q => preimage_eqb p q
  | NRaw x, NRaw y => x =? y
  | _, _ => false
  end.

(* typed address -> record key (NetworkAddress::to_record_key after as_xorname) *)
Definition chunk_key (c : preimage) : name := NHash c.          (* XorName::from_content(value) *)
Definition owner_key (o : owner) : name := NHash (POwner o).   (* scratchpad and transaction address *)
Definition reg_key (o : owner) (m : N) : name := NHash (PReg o m).

(* ------------------------------------------------------------------ stored / uploaded objects *)

Inductive pad_sig := PSNone | PSJunk | PSBy (s : owner) (ctr data : N).
Record pad := { p_owner : owner; p_ctr : N; p_data : N; p_enc : N; p_sig : pad_sig }.

(* Scratchpad::is_valid: owner's signature over counter ++ hash(encrypted_data) *)
Definition pad_valid (p : pad) : bool :=
  match p_sig p with
  | PSBy s c d => (s =? p_owner p) && (c =? p_ctr p) && (d =? p_data p)
  | _ => false
  end.

(* the message a transaction's owner signs (Transaction::bytes_to_sign), as the sequence of fixed-width
   fields and separator literals it is built from: owner key, "parent", parent keys, "content",
   content, "outputs", then per output its key and its 32-byte content.  Which fields the function
   covers is re-read from the source on every run (gen/Consts.v, the pv_tx_signs flags). *)
Inductive tok := TPk (o : owner) | TLit (n : N) | TCont (c : N).
Definition tx_msg (o : owner) (parents : list owner) (content : N) (outputs : list (owner * N)) : list tok :=
  (if Consts.pv_tx_signs_owner then [TPk o] else []) ++ [TLit 1] ++
  (if Consts.pv_tx_signs_parents then map TPk parents else []) ++ [TLit 2] ++
  (if Consts.pv_tx_signs_content then [TCont content] else []) ++ [TLit 3] ++
  flat_map (fun kc => (if Consts.pv_tx_signs_output_keys then [TPk (fst kc)] else []) ++
                      (if Consts.pv_tx_signs_output_contents then [TCont (snd kc)] else [])) outputs.

(* BLS signature symbol: who signed, and the message that was signed *)
Inductive tx_sig := TSJunk | TSBy (s : owner) (msg : list tok).
Record tx := { t_owner : owner; t_parents : list owner; t_content : N;
               t_outputs : list (owner * N); t_sig : tx_sig }.

Definition tok_eqb (a b : tok) : bool :=
  match a, b with
  | TPk x, TPk y | TLit x, TLit y | TCont x, TCont y => x =? y
  | _, _ => false
  end.

(* Transaction::verify: the owner's signature over bytes_to_sign of this transaction's own fields *)
Definition tx_valid (t : tx) : bool :=
  match t_sig t with
  | TSBy s m => (s =? t_owner t) &&
                list_eqb tok_eqb m (tx_msg (t_owner t) (t_parents t) (t_content t) (t_outputs t))
  | TSJunk => false
  end.

Inductive perm := PermAnyone | PermWriters (ws : list owner).   (* the owner is always a writer *)
Inductive owner_sig := OSJunk | OSBy (s : owner).
Record regbase := { r_owner : owner; r_meta : N; r_perm : perm; r_osig : owner_sig }.
Record regop := { op_id : N; op_writer : owner; op_sigok : bool;
                  op_addr : option (owner * N);      (* Some = the op names another register *)
                  op_size : N }.
Record reg := { g_base : regbase; g_ops : list regop }.

Definition pad_sig_eqb (a b : pad_sig) : bool :=
  match a, b with
  | PSNone, PSNone | PSJunk, PSJunk => true
  | PSBy s c d, PSBy s' c' d' => (s =? s') && (c =? c') && (d =? d')
  | _, _ => false
  end.
Definition pad_eqb (a b : pad) : bool :=
  (p_owner a =? p_owner b) && (p_ctr a =? p_ctr b) && (p_data a =? p_data b) &&
  (p_enc a =? p_enc b) && pad_sig_eqb (p_sig a) (p_sig b).
Definition tx_sig_eqb (a b : tx_sig) : bool :=
  match a, b with
  | TSJunk, TSJunk => true
  | TSBy s m, TSBy s' m' => (s =? s') && list_eqb tok_eqb m m'
  | _, _ => false
  end.
Definition pair_eqb (a b : owner * N) : bool := (fst a =? fst b) && (snd a =? snd b).
Definition tx_eqb (a b : tx) : bool :=
  (t_owner a =? t_owner b) && list_eqb N.eqb (t_parents a) (t_parents b) && (t_content a =? t_content b) &&
  list_eqb pair_eqb (t_outputs a) (t_outputs b) && tx_sig_eqb (t_sig a) (t_sig b).

Definition mem {A} (eqb : A -> A -> bool) (x : A) (l : list A) : bool := existsb (eqb x) l.
Definition subset {A} (eqb : A -> A -> bool) (a b : list A) : bool := forallb (fun x => mem eqb x b) a.
Definition set_eqb {A} (eqb : A -> A -> bool) (a b : list A) : bool := subset eqb a b && subset eqb b a.
(* BTreeSet::extend / collect, as a duplicate-free list: new elements are appended *)
Definition set_add {A} (eqb : A -> A -> bool) (x : A) (l : list A) : list A :=
  if mem eqb x l then l else l ++ [x].
Definition set_union {A} (eqb : A -> A -> bool) (a b : list A) : list A :=
  fold_left (fun acc x => set_add eqb x acc) b a.
Definition set_of {A} (eqb : A -> A -> bool) (l : list A) : list A := set_union eqb [] l.

Definition perm_eqb (a b : perm) : bool :=
  match a, b with
  | PermAnyone, PermAnyone => true
  | PermWriters x, PermWriters y => set_eqb N.eqb x y
  | _, _ => false
  end.
Definition owner_sig_eqb (a b : owner_sig) : bool :=
  match a, b with
  | OSJunk, OSJunk => true
  | OSBy s, OSBy s' => s =? s'
  | _, _ => false
  end.
Definition regop_eqb (a b : regop) : bool :=
  (op_id a =? op_id b) && (op_writer a =? op_writer b) && Bool.eqb (op_sigok a) (op_sigok b) &&
  option_eqb (fun x y => (fst x =? fst y) && (snd x =? snd y)) (op_addr a) (op_addr b) &&
  (op_size a =? op_size b).
(* Register::new adds the owner to the writer set; Permissions are compared structurally *)
Definition perm_norm (b : regbase) : perm :=
  match r_perm b with PermAnyone => PermAnyone | PermWriters ws => PermWriters (r_owner b :: ws) end.
Definition regbase_eqb (a b : regbase) : bool :=
  (r_owner a =? r_owner b) && (r_meta a =? r_meta b) && perm_eqb (perm_norm a) (perm_norm b) &&
  owner_sig_eqb (r_osig a) (r_osig b).

(* what the record store holds under a key *)
Inductive stored :=
| SChunk (c : preimage)
| SPad (p : pad)
| STxs (l : list tx)
| SReg (r : reg)
| SRaw (n : N).          (* bytes that decode as none of the above *)

Definition stored_eqb (a b : stored) : bool :=
  match a, b with
  | SChunk x, SChunk y => preimage_eqb x y
  | SPad x, SPad y => pad_eqb x y
  | STxs x, STxs y => set_eqb tx_eqb x y
  | SReg x, SReg y => regbase_eqb (g_base x) (g_base y) && set_eqb regop_eqb (g_ops x) (g_ops y)
  | SRaw x, SRaw y => x =? y
  | _, _ => false
  end.

(* ------------------------------------------------------------------ proofs of payment *)

(* ed25519 signature of a quote: who signed, and for which content the signed bytes were built
   (timestamp, metrics and rewards address are signed too; the harness never alters them) *)
Inductive quote_sig := QJunk | QBy (signer : peer) (content : name).
Record quote := { q_content : name;          (* the address the quote was issued for *)
                  q_age : Z;                 (* now - timestamp, milliseconds; negative = future *)
                  q_pub : option peer;       (* pub_key decodes to this identity *)
                  q_sig : quote_sig }.
Record pquote := { pq_claimed : option peer;     (* EncodedPeerId decodes to this identity *)
                   pq_quote : quote }.
Definition proof := list pquote.

(* PaymentQuote::check_is_signed_by_claimed_peer *)
Definition quote_signed_by (q : quote) (claimed : peer) : bool :=
  match q_pub q with
  | None => false
  | Some pk =>
      (pk =? claimed) &&
      match q_sig q with
      | QBy s c => (s =? pk) && name_eqb c (q_content q)
      | QJunk => false
      end
  end.

(* PaymentQuote::has_expired: a timestamp in the future counts as expired; whole seconds compared *)
Definition quote_expired (q : quote) : bool :=
  ((q_age q <? 0) || (Z.of_N Consts.pv_quote_expiration_secs <? q_age q / 1000))%Z.

(* ProofOfPayment::payees: the claimed ids that decode *)
Definition payees (p : proof) : list peer :=
  flat_map (fun pq => match pq_claimed pq with Some x => [x] | None => [] end) p.

(* ProofOfPayment::verify_for *)
Definition verify_for (p : proof) (me : peer) : bool :=
  mem N.eqb me (payees p) &&
  forallb (fun pq => match pq_claimed pq with
                     | None => false
                     | Some c => quote_signed_by (pq_quote pq) c
                     end) p.

Definition has_expired (p : proof) : bool := existsb (fun pq => quote_expired (pq_quote pq)) p.

(* ProofOfPayment::quotes_by_peer: selected by the quote's own public key *)
Definition quotes_by_peer (p : proof) (me : peer) : list quote :=
  flat_map (fun pq => match q_pub (pq_quote pq) with
                      | Some pk => if pk =? me then [pq_quote pq] else []
                      | None => []
                      end) p.

(* the payment contract as seen through verify_data_payment: the RPC fails, or it returns three
   (isValid, amountPaid) results, the i-th one about the i-th submitted quote *)
Inductive chain := ChainErr | ChainOk (res : list (bool * N)).

(* verify_data_payment evaluates the contract call against one block of the chain: the mined state
   ("latest", alloy's default for eth_call) or the pending state (which also counts transactions that
   are only in the mempool).  Which one is re-read from evmlib's handler.rs on every run. *)
Inductive block_tag := BLatest | BPending.
Definition verify_block_tag : block_tag :=
  if Consts.pv_verify_payment_at_latest then BLatest else BPending.
(* what the node's query sees, given the mined and the pending state of the contract *)
Definition chain_queried (latest pending : chain) : chain :=
  match verify_block_tag with BLatest => latest | BPending => pending end.

Record env := { e_closest : list peer }.     (* answer of get_closest_k_value_local_peers *)

Inductive err :=
| EHeader | EParse | EKeyMismatch | ENoPayment | EUnexpectedPayment | EOutdated | EBadPadSig
| EPayNotValid | EPayOtherContent | EPayExpired | EPayOutOfRange | EEvm
| ENoTxForKey | ERegister | ERegMissing | EKindMismatch.

Inductive res (A : Type) := Ok (a : A) | Err (e : err).
Arguments Ok {A} a.
Arguments Err {A} e.

(* amount credited: results whose quote hash is one of this node's quotes *)
Fixpoint reward (p : proof) (rs : list (bool * N)) : N :=
  match p, rs with
  | pq :: p', (_, a) :: rs' =>
      (match q_pub (pq_quote pq) with Some pk => if pk =? self_peer then a else 0 | None => 0 end)
      + reward p' rs'
  | _, _ => 0
  end.

(* the check added by the F9 repair: every quote issued by this node must be for this address *)
Definition own_quotes_for (p : proof) (addr : name) : bool :=
  forallb (fun q => name_eqb (q_content q) addr) (quotes_by_peer p self_peer).

(* payment_for_us_exists_and_is_still_valid, pure part: did the RPC happen, and the verdict *)
Definition payment_check (e : env) (addr : name) (p : proof) (c : chain) : bool * res N :=
  if negb (verify_for p self_peer) then (false, Err EPayNotValid) else
  if Consts.pv_payment_checks_quote_content && negb (own_quotes_for p addr)
  then (false, Err EPayOtherContent) else
  if has_expired p then (false, Err EPayExpired) else
  if negb (subset N.eqb (payees p) (e_closest e)) then (false, Err EPayOutOfRange) else
  match c with
  | ChainErr => (true, Err EEvm)
  | ChainOk rs => if forallb fst rs then (true, Ok (reward p rs)) else (true, Err EEvm)
  end.

(* ------------------------------------------------------------------ uploads *)

Inductive kind := KChunk | KChunkPaid | KTx | KTxPaid | KReg | KRegPaid | KPad | KPadPaid.

(* wire tag of a RecordKind (header.rs Serialize impl); the table is re-read from the source *)
Definition kind_of_tag (t : N) : option kind :=
  if t =? Consts.pv_tag_chunk_with_payment then Some KChunkPaid else
  if t =? Consts.pv_tag_chunk then Some KChunk else
  if t =? Consts.pv_tag_transaction then Some KTx else
  if t =? Consts.pv_tag_register then Some KReg else
  if t =? Consts.pv_tag_register_with_payment then Some KRegPaid else
  if t =? Consts.pv_tag_scratchpad then Some KPad else
  if t =? Consts.pv_tag_scratchpad_with_payment then Some KPadPaid else
  if t =? Consts.pv_tag_transaction_with_payment then Some KTxPaid else None.

Inductive body :=
| BGarbage | BChunk (c : preimage) | BPad (p : pad) | BTx (t : tx) | BTxs (l : list tx) | BReg (r : reg).

Record upload := { u_key : name;              (* Record::key *)
                   u_hdr : option kind;       (* None: the header does not parse *)
                   u_proof : option proof;    (* Some: the body is the tuple (proof, object) *)
                   u_body : body;
                   u_chain : chain }.         (* what the contract will answer for this upload *)

(* try_deserialize_record::<T>: succeeds exactly when the bytes have T's shape *)
Definition de_plain {A} (f : body -> option A) (u : upload) : res A :=
  match u_proof u, f (u_body u) with None, Some a => Ok a | _, _ => Err EParse end.
Definition de_paid {A} (f : body -> option A) (u : upload) : res (proof * A) :=
  match u_proof u, f (u_body u) with Some p, Some a => Ok (p, a) | _, _ => Err EParse end.
Definition as_chunk b := match b with BChunk c => Some c | _ => None end.
Definition as_pad b := match b with BPad p => Some p | _ => None end.
Definition as_tx b := match b with BTx t => Some t | _ => None end.
Definition as_txs b := match b with BTxs l => Some l | _ => None end.
Definition as_reg b := match b with BReg r => Some r | _ => None end.

(* ------------------------------------------------------------------ interaction trees *)

Inductive effect :=
| EPut (k : name) (v : stored)        (* Network::put_local_record *)
| EPaymentReceived                     (* notify_payment_received *)
| EReward (amount : N) (addr : name)   (* NodeEvent::RewardReceived *)
| ERpc                                 (* the eth_call was made *)
| EFetchCompleted
| EReplicate.                          (* replicate_valid_fresh_record *)

Inductive prog (R : Type) :=
| Ret (r : R)
| HasKey (k : name) (cont : bool -> prog R)              (* is_record_key_present_locally *)
| GetLocal (k : name) (cont : option stored -> prog R)   (* get_local_record *)
| Emit (e : effect) (next : prog R).
Arguments Ret {R} r.
Arguments HasKey {R} k cont.
Arguments GetLocal {R} k cont.
Arguments Emit {R} e next.

Fixpoint bind {A B} (m : prog A) (f : A -> prog B) : prog B :=
  match m with
  | Ret a => f a
  | HasKey k c => HasKey k (fun b => bind (c b) f)
  | GetLocal k c => GetLocal k (fun r => bind (c r) f)
  | Emit e n => Emit e (bind n f)
  end.

(* `?` on a Result inside an async fn *)
Definition bindE {A B} (m : prog (res A)) (f : A -> prog (res B)) : prog (res B) :=
  bind m (fun r => match r with Ok a => f a | Err e => Ret (Err e) end).
Definition liftE {A B} (r : res A) (f : A -> prog (res B)) : prog (res B) :=
  match r with Ok a => f a | Err e => Ret (Err e) end.
Definition emits {R} (es : list effect) (n : prog R) : prog R := fold_right Emit n es.

Notation "'doE' x <- m ;; f" := (bindE m (fun x => f)) (at level 200, x name, m at level 100, right associativity).
Notation "'tryE' x <~ r ;; f" := (liftE r (fun x => f)) (at level 200, x name, r at level 100, right associativity).

(* validate_key_and_existence *)
Definition validate_key_and_existence (addr expected : name) : prog (res bool) :=
  if negb (name_eqb expected addr) then Ret (Err EKeyMismatch)
  else HasKey addr (fun present => Ret (Ok present)).

(* payment_for_us_exists_and_is_still_valid *)
Definition payment_for_us (e : env) (addr : name) (p : proof) (c : chain) : prog (res unit) :=
  let '(rpc, verdict) := payment_check e addr p c in
  emits (if rpc then [ERpc] else [])
    match verdict with
    | Err x => Ret (Err x)
    | Ok amount => Emit EPaymentReceived (Emit (EReward amount addr) (Ret (Ok tt)))
    end.

(* store_chunk *)
Definition store_chunk (c : preimage) : prog (res unit) :=
  Emit (EPut (chunk_key c) (SChunk c)) (Ret (Ok tt)).

(* try_deserialize_record::<Scratchpad>(&local) etc.: the stored bytes must have that shape *)
Definition local_pad (s : stored) : res pad := match s with SPad p => Ok p | _ => Err EParse end.
Definition local_reg (s : stored) : res reg := match s with SReg r => Ok r | _ => Err EParse end.

(* validate_and_store_scratchpad_record *)
Definition store_pad (p : pad) (record_key : name) (is_client_put : bool) : prog (res unit) :=
  let k := owner_key (p_owner p) in
  if negb (name_eqb k record_key) then Ret (Err EKeyMismatch) else
  GetLocal k (fun loc =>
    let newer_ok :=
      match loc with
      | None => Ok tt
      | Some s => match local_pad s with
                  | Err x => Err x
                  | Ok lp => if p_ctr p <=? p_ctr lp then Err EOutdated else Ok tt
                  end
      end in
    tryE _ <~ newer_ok ;;
    if negb (pad_valid p) then Ret (Err EBadPadSig) else
    Emit (EPut k (SPad p)) (emits (if is_client_put then [EReplicate] else []) (Ret (Ok tt)))).

(* Register::check_register_op + the entry-size test of SignedRegister::verify *)
Definition can_write (b : regbase) (w : owner) : bool :=
  match r_perm b with PermAnyone => true | PermWriters ws => (w =? r_owner b) || mem N.eqb w ws end.
Definition op_addr_ok (b : regbase) (o : regop) : bool :=
  match op_addr o with
  | None => true
  | Some (o', m') => (o' =? r_owner b) && (m' =? r_meta b)
  end.
Definition op_ok (b : regbase) (o : regop) : bool :=
  op_addr_ok b o &&          (* an op is only valid for the register it was created for *)
  (match r_perm b with
   | PermAnyone => true                       (* no signature check at all *)
   | PermWriters _ => can_write b (op_writer o) && op_sigok o
   end) && (op_size o <=? Consts.pv_max_reg_entry_size).

(* SignedRegister::verify *)
Definition reg_verify (r : reg) : bool :=
  (N.of_nat (length (g_ops r)) <? Consts.pv_max_reg_num_entries) &&
  (match r_osig (g_base r) with OSBy s => s =? r_owner (g_base r) | OSJunk => false end) &&
  forallb (op_ok (g_base r)) (g_ops r).

(* Register::verify_is_mergeable: same address and structurally equal permissions *)
Definition mergeable (a b : regbase) : bool :=
  (r_owner a =? r_owner b) && (r_meta a =? r_meta b) && perm_eqb (perm_norm a) (perm_norm b).

(* register_validation *)
Definition register_validation (r : reg) (present : bool) : prog (res (option reg)) :=
  if negb (reg_verify r) then Ret (Err ERegister) else
  if negb present then Ret (Ok (Some r)) else
  GetLocal (reg_key (r_owner (g_base r)) (r_meta (g_base r))) (fun loc =>
    match loc with
    | None => Ret (Err ERegMissing)
    | Some s =>
        tryE lr <~ local_reg s ;;
        if negb (mergeable (g_base lr) (g_base r)) then Ret (Err ERegister) else
        let merged := {| g_base := g_base lr; g_ops := set_union regop_eqb (g_ops lr) (g_ops r) |} in
        (* merged == local  <=>  nothing new was added (the base is the local one) *)
        if subset regop_eqb (g_ops r) (g_ops lr) then Ret (Ok None) else Ret (Ok (Some merged))
    end).

(* validate_and_store_register *)
Definition store_register (r : reg) (is_client_put : bool) : prog (res unit) :=
  let k := reg_key (r_owner (g_base r)) (r_meta (g_base r)) in
  HasKey k (fun present =>
    doE upd <- register_validation r present ;;
    match upd with
    | None => Ret (Ok tt)
    | Some r' => Emit (EPut k (SReg r')) (emits (if is_client_put then [EReplicate] else []) (Ret (Ok tt)))
    end).

(* get_local_transactions *)
Definition local_txs (o : owner) : prog (res (list tx)) :=
  GetLocal (owner_key o) (fun loc =>
    match loc with
    | None => Ret (Ok [])
    | Some (STxs l) => Ret (Ok l)
    | Some (SRaw _) => Ret (Err EHeader)       (* RecordHeader::from_record(&local)? *)
    | Some _ => Ret (Err EKindMismatch)        (* header kind is not Transaction *)
    end).

(* validate_merge_and_store_transactions *)
Definition store_txs (l : list tx) (record_key : name) : prog (res unit) :=
  let for_key := filter (fun t => name_eqb (owner_key (t_owner t)) record_key) l in
  match for_key with
  | [] => Ret (Err ENoTxForKey)
  | _ =>
      let validated := set_of tx_eqb (filter tx_valid for_key) in
      match validated with
      | [] => Ret (Ok tt)                       (* "no validated transactions": Ok, nothing stored *)
      | t0 :: _ =>
          doE loc <- local_txs (t_owner t0) ;;
          Emit (EPut record_key (STxs (set_union tx_eqb validated loc))) (Ret (Ok tt))
      end
  end.

(* validate_and_store_record: the client-put / unpaid-update path *)
Definition client_put (e : env) (u : upload) : prog (res unit) :=
  match u_hdr u with
  | None => Ret (Err EHeader)
  | Some KChunkPaid =>
      tryE pc <~ de_paid as_chunk u ;;
      let '(pay, c) := pc in
      doE already <- validate_key_and_existence (chunk_key c) (u_key u) ;;
      (* the payment is processed (and credited) before the "already exists" early return *)
      bind (payment_for_us e (chunk_key c) pay (u_chain u)) (fun payment_res =>
        if (already : bool) then Emit EReplicate (Emit EFetchCompleted (Ret (Ok tt))) else
        tryE _ <~ payment_res ;;
        doE _ <- store_chunk c ;;
        Emit EReplicate (Emit EFetchCompleted (Ret (Ok tt))))
  | Some KChunk => Ret (Err ENoPayment)
  | Some KPadPaid =>
      tryE pp <~ de_paid as_pad u ;;
      let '(pay, p) := pp in
      doE _ <- validate_key_and_existence (owner_key (p_owner p)) (u_key u) ;;
      doE _ <- payment_for_us e (owner_key (p_owner p)) pay (u_chain u) ;;
      bind (store_pad p (u_key u) true) (fun r =>
        match r with
        | Ok _ | Err EOutdated => Emit EReplicate (Emit EFetchCompleted (Ret r))
        | Err _ => Ret r
        end)
  | Some KPad =>
      tryE p <~ de_plain as_pad u ;;
      doE present <- validate_key_and_existence (owner_key (p_owner p)) (u_key u) ;;
      if negb present then Ret (Err ENoPayment) else store_pad p (u_key u) false
  | Some KTx => Ret (Err ENoPayment)
  | Some KTxPaid =>
      tryE pt <~ de_paid as_tx u ;;
      let '(pay, t) := pt in
      let k := owner_key (t_owner t) in
      if negb (name_eqb (u_key u) k) then Ret (Err EKeyMismatch) else
      doE already <- validate_key_and_existence k k ;;
      bind (payment_for_us e k pay (u_chain u)) (fun payment_res =>
        tryE _ <~ (match payment_res with
              | Err x => if (already : bool) then Ok tt else Err x
              | Ok _ => Ok tt
              end) ;;
        doE _ <- store_txs [t] k ;;
        Emit EReplicate (Emit EFetchCompleted (Ret (Ok tt))))
  | Some KReg =>
      tryE r <~ de_plain as_reg u ;;
      let k := reg_key (r_owner (g_base r)) (r_meta (g_base r)) in
      (* F8 repair: the record's own key is compared with the derived one *)
      if Consts.pv_unpaid_register_checks_record_key && negb (name_eqb (u_key u) k)
      then Ret (Err EKeyMismatch) else
      doE present <- validate_key_and_existence k k ;;
      if negb present then Ret (Err ENoPayment) else
      doE _ <- store_register r true ;;
      Emit EFetchCompleted (Ret (Ok tt))
  | Some KRegPaid =>
      tryE pr <~ de_paid as_reg u ;;
      let '(pay, r) := pr in
      let k := reg_key (r_owner (g_base r)) (r_meta (g_base r)) in
      if negb (name_eqb (u_key u) k) then Ret (Err EKeyMismatch) else
      doE already <- validate_key_and_existence k k ;;
      bind (payment_for_us e k pay (u_chain u)) (fun payment_res =>
        tryE _ <~ (match payment_res with
              | Err x => if (already : bool) then Ok tt else Err x
              | Ok _ => Ok tt
              end) ;;
        doE _ <- store_register r true ;;
        Emit EFetchCompleted (Ret (Ok tt)))
  end.

(* store_replicated_in_record: the replication path *)
Definition repl_put (u : upload) : prog (res unit) :=
  match u_hdr u with
  | None => Ret (Err EHeader)
  | Some KChunkPaid | Some KTxPaid | Some KRegPaid | Some KPadPaid => Ret (Err EUnexpectedPayment)
  | Some KChunk =>
      tryE c <~ de_plain as_chunk u ;;
      doE already <- validate_key_and_existence (chunk_key c) (u_key u) ;;
      if (already : bool) then Ret (Ok tt) else store_chunk c
  | Some KPad =>
      tryE p <~ de_plain as_pad u ;;
      store_pad p (u_key u) false
  | Some KTx =>
      tryE l <~ de_plain as_txs u ;;
      store_txs l (u_key u)
  | Some KReg =>
      tryE r <~ de_plain as_reg u ;;
      if negb (name_eqb (u_key u) (reg_key (r_owner (g_base r)) (r_meta (g_base r))))
      then Ret (Err EKeyMismatch) else store_register r false
  end.

Inductive path := PClient | PRepl.
Record delivery := { d_path : path; d_up : upload }.

Definition deliver (e : env) (d : delivery) : prog (res unit) :=
  match d_path d with PClient => client_put e (d_up d) | PRepl => repl_put (d_up d) end.

(* ------------------------------------------------------------------ the store, serial semantics *)

Record slot := { s_val : stored; s_listed : bool }.
Definition store := list (name * slot).

Fixpoint lookup (st : store) (k : name) : option slot :=
  match st with
  | [] => None
  | (k', s) :: r => if name_eqb k k' then Some s else lookup r k
  end.
Definition listed (st : store) (k : name) : bool :=
  match lookup st k with Some s => s_listed s | None => false end.
Definition get (st : store) (k : name) : option stored :=
  match lookup st k with Some s => Some (s_val s) | None => None end.

(* put_verified: the value is readable at once; the key is listed only after the write is acked *)
Fixpoint put (st : store) (k : name) (v : stored) : store :=
  match st with
  | [] => [(k, {| s_val := v; s_listed := false |})]
  | (k', s) :: r =>
      if name_eqb k k' then (k', {| s_val := v; s_listed := s_listed s |}) :: r
      else (k', s) :: put r k v
  end.
Definition ack (st : store) : store :=
  map (fun ks => (fst ks, {| s_val := s_val (snd ks); s_listed := true |})) st.

Definition apply_effect (st : store) (e : effect) : store :=
  match e with EPut k v => put st k v | _ => st end.

(* a delivery fully processed against the store (every command handled as soon as it is sent) *)
Fixpoint run {R} (st : store) (p : prog R) : R * store * list effect :=
  match p with
  | Ret r => (r, st, [])
  | HasKey k c => run st (c (listed st k))
  | GetLocal k c => run st (c (get st k))
  | Emit e n => let '(r, st', es) := run (apply_effect st e) n in (r, st', e :: es)
  end.

Definition result_of {R} (x : R * store * list effect) : R := fst (fst x).
Definition store_of {R} (x : R * store * list effect) : store := snd (fst x).
Definition effects_of {R} (x : R * store * list effect) : list effect := snd x.

(* serial history: each delivery fully processed and its disk write acknowledged before the next *)
Definition serial_step (e : env) (st : store) (d : delivery) : store :=
  ack (store_of (run st (deliver e d))).
Definition serial_run (e : env) (st : store) (ds : list delivery) : store :=
  fold_left (serial_step e) ds st.

(* ------------------------------------------------------------------ interleaved semantics *)

(* a delivery in flight: its continuation, the PutLocalRecords it has sent that the driver has not
   processed yet, and everything it emitted so far *)
Inductive dphase := DNew | DWait | DDone.
Record dstate := { ds_prog : prog (res unit); ds_phase : dphase;
                   ds_outbox : list effect; ds_emitted : list effect }.

Definition dinit (e : env) (d : delivery) : dstate :=
  {| ds_prog := deliver e d; ds_phase := DNew; ds_outbox := []; ds_emitted := [] |}.

(* run the task until it blocks on a store query or returns; commands it sends are queued *)
Fixpoint until_query (p : prog (res unit)) (acc : list effect) : prog (res unit) * list effect :=
  match p with
  | Emit e n => until_query n (acc ++ [e])
  | _ => (p, acc)
  end.

Definition settle (p : prog (res unit)) (emitted : list effect) : dstate :=
  let '(p', es) := until_query p [] in
  {| ds_prog := p';
     ds_phase := match p' with Ret _ => DDone | _ => DWait end;
     ds_outbox := es; ds_emitted := emitted ++ es |}.

(* one scheduler token for this delivery: the driver handles its queued commands, answers its pending
   query from the store as it is now, and the task runs on to its next query *)
Definition advance (st : store) (d : dstate) : store * dstate :=
  let st1 := fold_left apply_effect (ds_outbox d) st in
  match ds_phase d, ds_prog d with
  | DDone, _ => (st1, {| ds_prog := ds_prog d; ds_phase := DDone; ds_outbox := []; ds_emitted := ds_emitted d |})
  | DNew, p => (st1, settle p (ds_emitted d))
  | DWait, HasKey k c => (st1, settle (c (listed st1 k)) (ds_emitted d))
  | DWait, GetLocal k c => (st1, settle (c (get st1 k)) (ds_emitted d))
  | DWait, p => (st1, settle p (ds_emitted d))
  end.

Inductive token := TAdv (i : nat) | TAck.

Fixpoint set_nth {A} (l : list A) (i : nat) (x : A) : list A :=
  match l, i with
  | [], _ => []
  | _ :: r, O => x :: r
  | y :: r, S j => y :: set_nth r j x
  end.

Definition sched_step (s : store * list dstate) (t : token) : store * list dstate :=
  let '(st, ds) := s in
  match t with
  | TAck => (ack st, ds)
  | TAdv i => match nth_error ds i with
              | None => s
              | Some d => let '(st', d') := advance st d in (st', set_nth ds i d')
              end
  end.

(* whatever the schedule left unfinished runs to completion, one delivery after the other
   (fuel: a delivery makes at most a handful of store queries) *)
Fixpoint finish_one (fuel : nat) (st : store) (d : dstate) : store * dstate :=
  match fuel with
  | O => (st, d)
  | S f =>
      match ds_phase d, ds_outbox d with
      | DDone, [] => (st, d)
      | _, _ => let '(st', d') := advance st d in finish_one f st' d'
      end
  end.

Fixpoint finish_all (st : store) (before after : list dstate) : store * list dstate :=
  match after with
  | [] => (st, before)
  | d :: r => let '(st', d') := finish_one 16 st d in finish_all (ack st') (before ++ [d']) r
  end.

Definition sched_run (e : env) (st : store) (ds : list delivery) (toks : list token)
  : store * list dstate :=
  let '(st1, ds1) := fold_left sched_step toks (st, map (dinit e) ds) in
  finish_all st1 [] ds1.

(* the serial schedule expressed with tokens: used to check that [run] and [advance] agree *)
Definition dresult (d : dstate) : option (res unit) :=
  match ds_prog d with Ret r => Some r | _ => None end.

(* ------------------------------------------------------------------ agreement with the harness *)

Definition err_code (x : err) : N :=
  match x with
  | EHeader => 1 | EParse => 2 | EKeyMismatch => 3 | ENoPayment => 4 | EUnexpectedPayment => 5
  | EOutdated => 6 | EBadPadSig => 7 | EPayNotValid => 8 | EPayOtherContent => 9 | EPayExpired => 10
  | EPayOutOfRange => 11 | EEvm => 12 | ENoTxForKey => 13 | ERegister => 14 | ERegMissing => 15
  | EKindMismatch => 16
  end.
Definition res_code (r : option (res unit)) : N :=
  match r with Some (Ok _) => 0 | Some (Err x) => err_code x | None => 99 end.

Definition count_eff (f : effect -> bool) (es : list effect) : N := N.of_nat (length (filter f es)).
Definition is_put e := match e with EPut _ _ => true | _ => false end.
Definition is_rpc e := match e with ERpc => true | _ => false end.
Definition is_payrecv e := match e with EPaymentReceived => true | _ => false end.
Definition is_fetch e := match e with EFetchCompleted => true | _ => false end.
Definition puts_of (es : list effect) : list (name * stored) :=
  flat_map (fun e => match e with EPut k v => [(k, v)] | _ => [] end) es.
Definition rewards_of (es : list effect) : list (N * name) :=
  flat_map (fun e => match e with EReward a k => [(a, k)] | _ => [] end) es.

(* what the harness reports per delivery *)
Record observed := { o_code : N;
                     o_puts : list (name * stored);
                     o_rpc : N; o_payrecv : N; o_fetch : N;
                     o_rewards : list (N * name) }.

Definition agree_delivery (d : dstate) (o : observed) : bool :=
  (res_code (dresult d) =? o_code o) &&
  list_eqb (fun a b => name_eqb (fst a) (fst b) && stored_eqb (snd a) (snd b))
           (puts_of (ds_emitted d)) (o_puts o) &&
  (count_eff is_rpc (ds_emitted d) =? o_rpc o) &&
  (count_eff is_payrecv (ds_emitted d) =? o_payrecv o) &&
  (count_eff is_fetch (ds_emitted d) =? o_fetch o) &&
  list_eqb (fun a b => (fst a =? fst b) && name_eqb (snd a) (snd b))
           (rewards_of (ds_emitted d)) (o_rewards o).

Definition slot_eqb (a b : name * slot) : bool :=
  name_eqb (fst a) (fst b) && stored_eqb (s_val (snd a)) (s_val (snd b)) &&
  Bool.eqb (s_listed (snd a)) (s_listed (snd b)).

Definition agree_case (e : env) (st : store) (ds : list delivery) (toks : list token)
                      (obs : list observed) (final : store) : bool :=
  let '(st', ds') := sched_run e st ds toks in
  (Nat.eqb (length ds') (length obs)) &&
  forallb (fun x => agree_delivery (fst x) (snd x)) (combine ds' obs) &&
  set_eqb slot_eqb st' final.

(* serial histories: the interleaved machine run with the serial schedule must coincide with [run] *)
Definition agree_serial (e : env) (st : store) (ds : list delivery) (final : store) : bool :=
  set_eqb slot_eqb (serial_run e st ds) final.
