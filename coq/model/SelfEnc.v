(* Model of self-encryption as the autonomi client uses it (C14, and the whole-data reads of C15):
     self_encryption-0.30.0 (pinned)  get_num_chunks, get_chunk_size, get_start_position,
                                      get_start_end_positions, get_n_1_n_2, get_pad_key_and_iv,
                                      encrypt, decrypt_full_set
     autonomi/src/self_encryption.rs  encrypt, pack_data_map, wrap_data_map, DataMapLevel
     autonomi/src/client/utils.rs     fetch_from_data_map, fetch_from_data_map_chunk,
                                      process_tasks_with_max_concurrency (completion order)
     autonomi/src/client/data/{mod,public}.rs   data_get, data_get_public
   The per-chunk transform (brotli, AES-128-CBC, XOR pad) and the msgpack codecs are third-party:
   they are the fields of a `codec` record; what is assumed of them is the record `codec_ok`
   (inverse laws) and, for termination of the packing loop only, `codec_sizes`.
   MAX_CHUNK_SIZE is a parameter of every function (the crate fixes it at compile time); the
   shipped value is Consts.se_max_chunk_size.  Sizes and indices are N (usize; no overflow is
   reachable: every quantity is bounded by the input length). *)
From Coq Require Import List NArith Bool String.
From V Require Import lib.Strs gen.Consts model.ClientRead.
Import ListNotations.
Open Scope N_scope.

Definition lenN {A} (l : list A) : N := N.of_nat (List.length l).
Definition nthN {A} (l : list A) (i : N) (d : A) : A := nth (N.to_nat i) l d.
Definition nseq (n : N) : list N := map N.of_nat (seq 0 (N.to_nat n)).
(* Bytes::slice(s..e) *)
Definition slice (d : bytes) (s e : N) : bytes := firstn (N.to_nat (e - s)) (skipn (N.to_nat s) d).

(* ---------------------------------------------------------------- partition arithmetic *)

Definition MIN_CHUNK : N := Consts.se_min_chunk_size.
Definition MIN_ENCRYPTABLE : N := Consts.se_min_encryptable_factor * MIN_CHUNK.

(* get_num_chunks *)
Definition num_chunks (MAX size : N) : N :=
  if size <? 3 * MIN_CHUNK then 0
  else if size <? 3 * MAX then 3
  else if size mod MAX =? 0 then size / MAX else size / MAX + 1.

(* get_chunk_size *)
Definition chunk_size (MAX size idx : N) : N :=
  if size <? 3 * MIN_CHUNK then 0
  else if size <? 3 * MAX then
    (if idx <? 2 then size / 3 else size - 2 * (size / 3))
  else
    let total := num_chunks MAX size in
    if idx <? total - 2 then MAX
    else
      let remainder := size mod MAX in
      let penultimate := (total - 2 =? idx) in
      if remainder =? 0 then MAX
      else if remainder <? MIN_CHUNK then
        (if penultimate then MAX - MIN_CHUNK else MIN_CHUNK + remainder)
      else if penultimate then MAX else remainder.

(* get_start_position *)
Definition start_position (MAX size idx : N) : N :=
  let total := num_chunks MAX size in
  if total =? 0 then 0
  else
    let last := (total - 1 =? idx) in
    let first_chunk_size := chunk_size MAX size 0 in
    if last then first_chunk_size * (idx - 1) + chunk_size MAX size (idx - 1)
    else first_chunk_size * idx.

(* get_start_end_positions *)
Definition start_end (MAX size idx : N) : N * N :=
  if num_chunks MAX size =? 0 then (0, 0)
  else let start := start_position MAX size idx in (start, start + chunk_size MAX size idx).

(* ---------------------------------------------------------------- data maps and the codec *)

(* ChunkInfo *)
Record info := { i_index : N; i_dst : N; i_src : N; i_size : N }.
Definition datamap := list info.
(* autonomi's DataMapLevel *)
Inductive level := First (dm : datamap) | Additional (dm : datamap).
Definition dm_of (l : level) : datamap := match l with First dm => dm | Additional dm => dm end.

Record codec := {
  cH : bytes -> N;                              (* XorName::from_content *)
  c_tr : N * N * N -> bytes -> bytes;           (* encrypt_chunk under (src hash, n-1 hash, n-2 hash) *)
  c_untr : N * N * N -> bytes -> option bytes;  (* decrypt_chunk *)
  c_wrap : level -> bytes;                      (* wrap_data_map: rmp_serde of DataMapLevel *)
  c_unwrap : bytes -> option level;             (* rmp_serde::from_slice::<DataMapLevel> *)
  c_ser : bytes -> bytes;                       (* rmp_serde of a Chunk (msgpack bin of its value) *)
  c_deser : bytes -> option bytes               (* rmp_serde::from_slice::<Chunk>, its value *)
}.

(* get_n_1_n_2 *)
Definition n1_n2 (idx total : N) : N * N :=
  if idx =? 0 then (total - 1, total - 2)
  else if idx =? 1 then (0, total - 1)
  else (idx - 1, idx - 2).

(* get_pad_key_and_iv: pad, key and iv are cut out of these three source hashes *)
Definition keys_of (idx : N) (hashes : list N) : N * N * N :=
  let '(a, b) := n1_n2 idx (lenN hashes) in
  (nthN hashes idx 0, nthN hashes a 0, nthN hashes b 0).

(* EncryptedChunk { index, content } *)
Definition echunk := (N * bytes)%type.

Inductive eerr := ETooSmall | EPackFuel.

(* iter().enumerate() from k *)
Fixpoint enum_from {A} (k : N) (l : list A) : list (N * A) :=
  match l with [] => [] | x :: t => (k, x) :: enum_from (k + 1) t end.

(* chunk::batch_chunks: the source chunks in index order *)
Definition raw_chunks (MAX : N) (d : bytes) : list bytes :=
  map (fun i => let '(s, e) := start_end MAX (lenN d) i in slice d s e)
      (nseq (num_chunks MAX (lenN d))).

(* self_encryption::encrypt.  Compression into a Vec and AES encryption cannot fail, so the
   `num_chunks > encrypted_chunks.len()` error is unreachable and not modelled.  rayon produces the
   chunks in any order; DataMap::new sorts the infos by index; the chunks are a set. *)
Definition se_encrypt (C : codec) (MAX : N) (d : bytes) : (datamap * list echunk) + eerr :=
  if lenN d <? MIN_ENCRYPTABLE then inr ETooSmall
  else
    let raws := raw_chunks MAX d in
    let hashes := map (cH C) raws in
    let out := map (fun '(i, x) =>
                      let y := c_tr C (keys_of i hashes) x in
                      ({| i_index := i; i_dst := cH C y; i_src := nthN hashes i 0; i_size := lenN x |},
                       (i, y)))
                   (enum_from 0 raws) in
    inl (map fst out, map snd out).

(* ant_protocol Chunk::new: the address is the hash of the content *)
Record chunk := { k_addr : N; k_value : bytes }.
Definition mk_chunk (C : codec) (v : bytes) : chunk := {| k_addr := cH C v; k_value := v |}.

(* pack_data_map: wrap; while the wrapped map does not fit a chunk, self-encrypt the serialised
   chunk and wrap the resulting map as an additional level.  The Rust loop has no bound; `fuel`
   makes the model total (out of fuel is an error value, see pack_terminates). *)
Fixpoint pack (C : codec) (MAX : N) (fuel : nat) (lvl : level) (acc : list chunk)
  : (chunk * list chunk) + eerr :=
  let content := c_wrap C lvl in
  let ch := mk_chunk C content in
  if lenN content <=? MAX then inl (ch, rev acc)
  else
    match fuel with
    | O => inr EPackFuel
    | S f =>
        match se_encrypt C MAX (c_ser C content) with
        | inr e => inr e
        | inl (dm, cs) =>
            pack C MAX f (Additional dm) (map (fun c => mk_chunk C (snd c)) cs ++ acc)
        end
    end.

(* autonomi::self_encryption::encrypt: (data map chunk, all other chunks) *)
Definition encrypt (C : codec) (MAX : N) (fuel : nat) (d : bytes) : (chunk * list chunk) + eerr :=
  match se_encrypt C MAX d with
  | inr e => inr e
  | inl (dm, cs) =>
      match pack C MAX fuel (First dm) [] with
      | inr e => inr e
      | inl (root, extra) => inl (root, map (fun c => mk_chunk C (snd c)) cs ++ extra)
      end
  end.

(* ---------------------------------------------------------------- reading back *)

(* the network as the client sees it: a reply per requested address *)
Definition net := N -> reply.

(* an honest in-memory store of the produced chunks *)
Definition store_net (C : codec) (chunks : list chunk) : net :=
  fun a => match find (fun c => k_addr c =? a) chunks with
           | Some c => ROk (chunk_record a (k_value c))
           | None => RErr GNotFound
           end.

Inductive gerror := GEFetch (e : cerr) | GEDecrypt | GEInvalidDataMap | GEFuel.

Fixpoint collect {A E} (l : list (A + E)) : list A + E :=
  match l with
  | [] => inl []
  | inr e :: _ => inr e
  | inl a :: t => match collect t with inl r => inl (a :: r) | inr e => inr e end
  end.

(* itertools sorted_by_key(|c| c.index): stable *)
Fixpoint insert_idx (p : echunk) (l : list echunk) : list echunk :=
  match l with
  | [] => [p]
  | q :: t => if fst p <=? fst q then p :: l else q :: insert_idx p t
  end.
Definition sort_idx (l : list echunk) : list echunk := fold_right insert_idx [] l.

(* decrypt_full_set / decrypt::decrypt: sort by index, decrypt each chunk with the keys cut from the
   data map's source hashes (failures are dropped, then detected by the count), sort again, concatenate *)
Definition decrypt_full_set (C : codec) (dm : datamap) (encs : list echunk) : bytes + gerror :=
  let hashes := map i_src dm in
  let sorted := sort_idx encs in
  let raws := flat_map (fun c => match c_untr C (keys_of (fst c) hashes) (snd c) with
                                 | Some b => [(fst c, b)]
                                 | None => []
                                 end) sorted in
  if lenN raws <? lenN sorted then inr GEDecrypt
  else inl (List.concat (map snd (sort_idx raws))).

Definition dflt_info : info := {| i_index := 0; i_dst := 0; i_src := 0; i_size := 0 |}.

(* fetch_from_data_map: one chunk_get per info; `order` is the completion order of the fetches
   (positions in the data map; FuturesUnordered yields results as they complete), the first error in
   that order aborts, otherwise decrypt_full_set *)
Definition fetch_from_data_map (C : codec) (nw : net) (dm : datamap) (order : list nat) : bytes + gerror :=
  let results := map (fun j => let i := nth j dm dflt_info in
                               match chunk_get (cH C) (nw (i_dst i)) (i_dst i) with
                               | inl c => inl (i_index i, c)
                               | inr e => inr e
                               end) order in
  match collect results with
  | inr e => inr (GEFetch e)
  | inl encs => decrypt_full_set C dm encs
  end.

(* the loop of fetch_from_data_map_chunk (after the repair: an additional level decrypts to the
   serialised chunk of the level below).  `sched` gives the completion order for each data map. *)
Fixpoint fetch_levels (C : codec) (nw : net) (sched : datamap -> list nat) (fuel : nat) (lvl : level)
  : bytes + gerror :=
  match fuel with
  | O => inr GEFuel
  | S f =>
      match fetch_from_data_map C nw (dm_of lvl) (sched (dm_of lvl)) with
      | inr e => inr e
      | inl data =>
          match lvl with
          | First _ => inl data
          | Additional _ =>
              match c_deser C data with
              | None => inr GEInvalidDataMap
              | Some v =>
                  match c_unwrap C v with
                  | None => inr GEInvalidDataMap
                  | Some l' => fetch_levels C nw sched f l'
                  end
              end
          end
      end
  end.

Definition fetch_from_data_map_chunk (C : codec) (nw : net) (sched : datamap -> list nat) (fuel : nat)
  (data_map_bytes : bytes) : bytes + gerror :=
  match c_unwrap C data_map_bytes with
  | None => inr GEInvalidDataMap
  | Some l => fetch_levels C nw sched fuel l
  end.

(* Client::data_get (private data: the caller holds the data map chunk) *)
Definition data_get (C : codec) (nw : net) (sched : datamap -> list nat) (fuel : nat) (root : chunk) :=
  fetch_from_data_map_chunk C nw sched fuel (k_value root).

(* Client::data_get_public *)
Definition data_get_public (C : codec) (nw : net) (sched : datamap -> list nat) (fuel : nat) (addr : N) :=
  match chunk_get (cH C) (nw addr) addr with
  | inr e => inr (GEFetch e)
  | inl root => fetch_from_data_map_chunk C nw sched fuel root
  end.

(* ---------------------------------------------------------------- size constants of the codecs *)

(* msgpack sizes: a ChunkInfo is a 4-array of (uint <= 9 bytes, 2 x [array16 header + 32 uints of
   1..2 bytes], uint <= 9 bytes); the wrapper is fixmap1 + fixstr "Additional" + array header <= 5;
   a bin header is at most 5 bytes *)
Definition WRAP_ENTRY : N := 1 + 9 + 2 * (3 + 64) + 9.
Definition WRAP_BASE : N := 1 + 11 + 5.
Definition SER_OVERHEAD : N := 5.

(* ---------------------------------------------------------------- agreement with the harness *)

(* the source-chunk sizes and byte ranges the real crate produced for a file of `size` bytes *)
Definition agree_partition (MAX size : N) (sizes : list N) : bool :=
  let n := num_chunks MAX size in
  (n =? lenN sizes) &&
  list_eqb N.eqb (map (chunk_size MAX size) (nseq n)) sizes &&
  list_eqb N.eqb (map (fun i => fst (start_end MAX size i)) (nseq n))
                 (map (fun i => fold_right N.add 0 (firstn i sizes)) (seq 0 (N.to_nat n))) &&
  (fold_right N.add 0 sizes =? size).

(* acceptor for the packing loop, on sizes only: `trace` lists, deepest level first, the wrapped size
   and the number of infos of every level the real code produced.  Every level but the root must
   have been too big for a chunk, the root must fit, each level above another has exactly the infos
   self-encryption makes of the serialised chunk below (msgpack bin header: 2, 3 or 5 bytes), and
   wrapped sizes respect the bound assumed of the codec (codec_sizes). *)
Definition ser_len (n : N) : N := n + (if n <? 256 then 2 else if n <? 65536 then 3 else 5).

Fixpoint pack_shape_up (MAX : N) (trace : list (N * N)) : bool :=
  match trace with
  | [] => false
  | (w, n) :: above =>
      (w <=? WRAP_BASE + WRAP_ENTRY * n) &&
      match above with
      | [] => w <=? MAX                                   (* the root fits a chunk *)
      | (_, n') :: _ => negb (w <=? MAX) && (n' =? num_chunks MAX (ser_len w)) && pack_shape_up MAX above
      end
  end.

(* `trace`: deepest level (the First data map) first, root last *)
Definition agree_pack (MAX : N) (trace : list (N * N)) : bool := pack_shape_up MAX trace.

(* the (wrapped size, number of infos) sequence the model's packing loop goes through *)
Fixpoint pack_trace (C : codec) (MAX : N) (fuel : nat) (lvl : level) : list (N * N) :=
  let content := c_wrap C lvl in
  (lenN content, lenN (dm_of lvl)) ::
  (if lenN content <=? MAX then []
   else match fuel with
        | O => []
        | S f => match se_encrypt C MAX (c_ser C content) with
                 | inr _ => []
                 | inl (dm, _) => pack_trace C MAX f (Additional dm)
                 end
        end).

Definition gerror_code (e : gerror) : string :=
  match e with
  | GEFetch c => cerr_code c | GEDecrypt => "decrypt" | GEInvalidDataMap => "datamap" | GEFuel => "fuel"
  end.

(* --- shadow reads (C15): the real model functions run on a toy instance that keeps only the shape
   of a case: n content chunks [1] .. [n] and the data map chunk [0]; hashing is injective on these
   tokens; each position of the network is honest or tampered in one of the ways below *)
Inductive fmark := FAuth | FOtherHash | FOtherRecord | FKind | FHeader | FDeser | FNetErr (e : gerr).

Definition toy_H (x : bytes) : N := match x with [v] => v + 100 | _ => 0 end.
Definition toy_dm (n : N) : datamap :=
  map (fun i => {| i_index := i; i_dst := toy_H [i + 1]; i_src := i; i_size := 1 |}) (nseq n).
Definition toy_codec (n : N) : codec :=
  {| cH := toy_H;
     c_tr := fun _ x => x;
     c_untr := fun _ y => Some y;
     c_wrap := fun _ => [0];
     c_unwrap := fun b => match b with [0] => Some (First (toy_dm n)) | _ => None end;
     c_ser := fun b => b;
     c_deser := fun b => Some b |}.

(* `k`: the key the returned record carries (irrelevant to every read path) *)
Definition toy_reply (k : N) (content : bytes) (m : fmark) : reply :=
  match m with
  | FAuth => ROk (chunk_record k content)
  | FOtherHash => ROk (chunk_record k [99])
  | FOtherRecord => ROk (chunk_record (toy_H [99]) [99])     (* a whole well-formed record of another chunk *)
  | FKind => ROk {| r_key := k; r_hdr := Some 0; r_body := BChunk content |}
  | FHeader => ROk {| r_key := k; r_hdr := None; r_body := BJunk |}
  | FDeser => ROk {| r_key := k; r_hdr := Some KIND_CHUNK; r_body := BJunk |}
  | FNetErr e => RErr e
  end.

(* marks: positions 0..n-1 are the content chunks, position n the data map chunk *)
Definition toy_net (n : N) (marks : list fmark) : net :=
  fun a => if a =? 100 then toy_reply a [0] (nthN marks n FAuth)
           else toy_reply a [a - 100] (nthN marks (a - 101) FAuth).

Definition agree_shadow_read (public : bool) (n : N) (marks : list fmark) (out : option string) : bool :=
  let sched := fun dm : datamap => seq 0 (List.length dm) in
  let r := if public then data_get_public (toy_codec n) (toy_net n marks) sched 2 100
           else data_get (toy_codec n) (toy_net n marks) sched 2 (mk_chunk (toy_codec n) [0]) in
  match r, out with
  | inl _, None => true
  | inr e, Some s => String.eqb (gerror_code e) s
  | _, _ => false
  end.
