(* Model of ant-networking/src/replication_fetcher.rs (property C08).

   State = the two hash maps as association lists, the two admission limits and an explicit clock
   (milliseconds).  Distances are data: a key is `(id, distance to this node)`; the harness reports
   the real distance of every key, the theorems quantify over all of them.

   Three layers:
   * deterministic transcriptions of everything except the scheduling loop (`add_keys_pre`,
     `prune`, `notify_*_pre`, `set_farthest`, ...), combined per operation in `settle`;
   * the scheduling loop of `next_keys_to_fetch` transcribed with the hash-map iteration order as an
     explicit argument (`schedule_code iter`), and the whole operation `step_code iter`;
   * the boolean ACCEPTOR `step_ok pre op out post` (what every iteration order may produce), which
     is what the correspondence run evaluates on the steps the real code took (`run_ok`), and what
     the theorems of props/C08.v quantify over.
   No proofs in this file. *)
From Coq Require Import List NArith Bool Arith.
From Coq Require String.
Import String.StringSyntax.
Delimit Scope string_scope with string.
From V Require Import gen.Consts.
Import ListNotations.
Open Scope N_scope.

(* ---- constants re-read from the source on every run ---- *)
Definition MAXP : N := Consts.fetcher_max_parallel.          (* MAX_PARALLEL_FETCH = K_VALUE.get() *)
Definition MAXn : nat := N.to_nat MAXP.
Definition FETCH_T : N := Consts.fetcher_fetch_timeout_ms.   (* FETCH_TIMEOUT *)
Definition PENDING_T : N := Consts.fetcher_pending_timeout_ms. (* PENDING_TIMEOUT *)

(* ---- data ---- *)
Definition key := (N * N)%type.                 (* (identity, distance to self) *)
Definition kdist (k : key) : N := snd k.
Inductive rtype := Chunk | Scratchpad | NonChunk (h : N).
Definition peer := N.
Definition kt := (key * rtype)%type.            (* key of on_going_fetches *)
Definition kth := (key * rtype * peer)%type.    (* key of to_be_fetched *)
Definition tbf_entry := (kth * N)%type.         (* ... -> pending deadline *)
Definition og_entry := (kt * (peer * N))%type.  (* ... -> (holder, fetch deadline) *)

Definition key_eqb (a b : key) : bool := (fst a =? fst b) && (snd a =? snd b).
Definition rtype_eqb (a b : rtype) : bool :=
  match a, b with
  | Chunk, Chunk => true
  | Scratchpad, Scratchpad => true
  | NonChunk x, NonChunk y => x =? y
  | _, _ => false
  end.
Definition kt_eqb (a b : kt) : bool := key_eqb (fst a) (fst b) && rtype_eqb (snd a) (snd b).
Definition kth_eqb (a b : kth) : bool := kt_eqb (fst a) (fst b) && (snd a =? snd b).
Definition tbf_entry_eqb (a b : tbf_entry) : bool := kth_eqb (fst a) (fst b) && (snd a =? snd b).
Definition og_entry_eqb (a b : og_entry) : bool :=
  kt_eqb (fst a) (fst b) && (fst (snd a) =? fst (snd b)) && (snd (snd a) =? snd (snd b)).
Definition pk_eqb (a b : peer * key) : bool := (fst a =? fst b) && key_eqb (snd a) (snd b).

Record state := mkState {
  tbf : list tbf_entry;          (* to_be_fetched *)
  ongoing : list og_entry;       (* on_going_fetches *)
  range : option N;              (* distance_range *)
  farthest : option N;           (* farthest_acceptable_distance *)
  now : N                        (* clock, ms *)
}.

Definition init : state := mkState [] [] None None 0.

Definition set_tbf (s : state) (l : list tbf_entry) : state :=
  mkState l (ongoing s) (range s) (farthest s) (now s).
Definition set_ongoing (s : state) (l : list og_entry) : state :=
  mkState (tbf s) l (range s) (farthest s) (now s).

Definition tbf_mem (x : kth) (l : list tbf_entry) : bool := existsb (fun e => kth_eqb (fst e) x) l.
Definition og_mem (x : kt) (l : list og_entry) : bool := existsb (fun e => kt_eqb (fst e) x) l.
Definition kth_in (x : kth) (l : list kth) : bool := existsb (kth_eqb x) l.
Definition peer_in (p : peer) (l : list peer) : bool := existsb (N.eqb p) l.

Definition kth_kt (x : kth) : kt := fst x.
Definition kth_key (x : kth) : key := fst (fst x).
Definition kth_holder (x : kth) : peer := snd x.
Definition og_kth (e : og_entry) : kth := (fst e, fst (snd e)).
Definition og_pair (e : og_entry) : peer * key := (fst (snd e), fst (fst e)).

(* locally_stored_keys : HashMap<RecordKey, (NetworkAddress, RecordType)> *)
Definition held_map := list (key * rtype).
Fixpoint held_get (held : held_map) (k : key) : option rtype :=
  match held with
  | [] => None
  | (k', t) :: r => if key_eqb k' k then Some t else held_get r k
  end.
Definition is_held (held : held_map) (k : key) : bool :=
  match held_get held k with Some _ => true | None => false end.

(* ---- add_keys, up to (not including) the final next_keys_to_fetch ---- *)

(* the single pass over incoming_keys *)
Definition pass_ok (s : state) (holder : peer) (held : held_map) (x : kt) : bool :=
  negb (is_held held (fst x) || tbf_mem (x, holder) (tbf s)) &&
  match farthest s with Some f => negb (f <? kdist (fst x)) | None => true end.
Definition first_pass (s : state) (holder : peer) (inc : list kt) (held : held_map) : list kt :=
  filter (pass_ok s holder held) inc.

(* remove_stored_keys: an entry goes only if the held record has the SAME type *)
Definition not_stored (held : held_map) (x : kt) : bool :=
  match held_get held (fst x) with Some t' => negb (rtype_eqb (snd x) t') | None => true end.
Definition remove_stored (s : state) (held : held_map) : state :=
  mkState (filter (fun e => not_stored held (kth_kt (fst e))) (tbf s))
          (filter (fun e => not_stored held (fst e)) (ongoing s))
          (range s) (farthest s) (now s).

(* "Special case for single new key": taken whenever exactly one key survived the pass *)
Definition fast_path (s : state) (holder : peer) (new : list kt)
  : state * list (peer * key) * list kt :=
  match new with
  | [x] =>
      if og_mem x (ongoing s) then (s, [], [])
      else (set_ongoing s (ongoing s ++ [(x, (holder, now s + FETCH_T))]), [(holder, fst x)], [])
  | _ => (s, [], new)
  end.

Definition expire_pending (s : state) : state :=
  set_tbf s (filter (fun e => now s <? snd e) (tbf s)).

Definition range_filter (s : state) (new : list kt) : list kt :=
  match range s with
  | Some r => filter (fun x => kdist (fst x) <=? r) new
  | None => new
  end.

Definition or_insert (l : list tbf_entry) (x : kth) (d : N) : list tbf_entry :=
  if tbf_mem x l then l else l ++ [(x, d)].
Definition enqueue (s : state) (holder : peer) (new : list kt) : state :=
  set_tbf s (fold_left (fun l x => or_insert l (x, holder) (now s + PENDING_T)) new (tbf s)).

Definition add_keys_pre (s : state) (holder : peer) (inc : list kt) (held : held_map)
  : state * list (peer * key) :=
  let new := first_pass s holder inc held in
  let s1 := remove_stored s held in
  let '(s2, fast, new2) := fast_path s1 holder new in
  let s3 := expire_pending s2 in
  let new3 := range_filter s3 new2 in
  (enqueue s3 holder new3, fast).

(* ---- prune_expired_keys_and_slow_nodes ---- *)
Definition og_expired (s : state) (e : og_entry) : bool := snd (snd e) <? now s.
Definition failed_holders (s : state) : list peer :=
  map (fun e => fst (snd e)) (filter (og_expired s) (ongoing s)).
Definition prune (s : state) : state * list (list peer) :=
  let fh := failed_holders s in
  (mkState (filter (fun e => negb (peer_in (kth_holder (fst e)) fh)) (tbf s))
           (filter (fun e => negb (og_expired s e)) (ongoing s))
           (range s) (farthest s) (now s),
   match fh with [] => [] | _ => [fh] end).

(* ---- notifications and limits (deterministic parts) ---- *)
Definition notify_put_pre (s : state) (k : key) (t : rtype) : state :=
  mkState (filter (fun e => negb (kt_eqb (kth_kt (fst e)) (k, t))) (tbf s))     (* key AND type *)
          (filter (fun e => negb (key_eqb (fst (fst e)) k)) (ongoing s))        (* key only *)
          (range s) (farthest s) (now s).
Definition notify_early_pre (s : state) (k : key) (t : rtype) : state :=
  mkState (filter (fun e => negb (kt_eqb (kth_kt (fst e)) (k, t))) (tbf s))
          (filter (fun e => negb (kt_eqb (fst e) (k, t))) (ongoing s))
          (range s) (farthest s) (now s).
Definition set_range (s : state) (r : N) : state :=
  mkState (tbf s) (ongoing s) (Some r) (farthest s) (now s).
Definition set_farthest (s : state) (fk : option key) : state :=
  match fk with
  | None => s
  | Some k =>
      let d := kdist k in
      match farthest s with
      | Some old => if old <=? d then s else
          mkState (filter (fun e => kdist (kth_key (fst e)) <=? d) (tbf s))
                  (filter (fun e => kdist (fst (fst e)) <=? d) (ongoing s))
                  (range s) (Some d) (now s)
      | None =>
          mkState (filter (fun e => kdist (kth_key (fst e)) <=? d) (tbf s))
                  (filter (fun e => kdist (fst (fst e)) <=? d) (ongoing s))
                  (range s) (Some d) (now s)
      end
  end.
Definition advance (s : state) (ms : N) : state :=
  mkState (tbf s) (ongoing s) (range s) (farthest s) (now s + ms).

(* ---- operations ---- *)
Inductive op :=
| AddKeys (holder : peer) (inc : list kt) (held : held_map)
| NextKeys
| NotifyPut (k : key) (t : rtype)
| NotifyEarly (k : key) (t : rtype)
| SetRange (r : N)
| SetFarthest (fk : option key)
| Advance (ms : N).

(* what an operation returns and the FailedToFetchHolders events it fired *)
Record output := mkOut { ret : list (peer * key); events : list (list peer) }.

(* the part of a scheduling operation that precedes next_keys_to_fetch: resulting state and the
   pairs already returned by the fast path; None for the three operations that do not schedule *)
Definition pre_prune (s : state) (o : op) : option (state * list (peer * key)) :=
  match o with
  | AddKeys h inc held => Some (add_keys_pre s h inc held)
  | NextKeys => Some (s, [])
  | NotifyPut k t => Some (notify_put_pre s k t, [])
  | NotifyEarly k t => Some (notify_early_pre s k t, [])
  | _ => None
  end.

(* the deterministic part of every operation: state just before the scheduling loop, the pairs
   already returned by the fast path, the events, and whether the scheduling loop runs *)
Definition settle (s : state) (o : op) : state * list (peer * key) * list (list peer) * bool :=
  match pre_prune s o with
  | Some (s1, fast) => let '(s2, ev) := prune s1 in (s2, fast, ev, true)
  | None =>
      (match o with
       | SetRange r => set_range s r
       | SetFarthest fk => set_farthest s fk
       | Advance ms => advance s ms
       | _ => s
       end, [], [], false)
  end.
Definition mid_of (s : state) (o : op) : state := fst (fst (fst (settle s o))).
Definition fast_of (s : state) (o : op) : list (peer * key) := snd (fst (fst (settle s o))).

(* ---- the scheduling loop of next_keys_to_fetch, iteration order explicit ---- *)

(* Vec::sort_by is a stable sort: insertion sort, equal distances keep their order *)
Fixpoint insert_sorted (e : tbf_entry) (l : list tbf_entry) : list tbf_entry :=
  match l with
  | [] => [e]
  | x :: r => if kdist (kth_key (fst e)) <=? kdist (kth_key (fst x)) then e :: l
              else x :: insert_sorted e r
  end.
Definition isort (l : list tbf_entry) : list tbf_entry := fold_right insert_sorted [] l.

Fixpoint sched_loop (nw : N) (l : list tbf_entry) (og : list og_entry) (acc : list kth)
  : list og_entry * list kth :=
  match l with
  | [] => (og, acc)
  | e :: r =>
      let x := fst e in
      let '(og', acc') :=
        if (length og <? MAXn)%nat && negb (og_mem (kth_kt x) og)
        then (og ++ [(kth_kt x, (kth_holder x, nw + FETCH_T))], acc ++ [x])
        else (og, acc) in
      if (MAXn <=? length og')%nat then (og', acc')       (* break *)
      else sched_loop nw r og' acc'
  end.

(* `iter` = the order in which HashMap::iter_mut yields the entries of to_be_fetched *)
Definition schedule_code (iter : list tbf_entry -> list tbf_entry) (s : state)
  : state * list (peer * key) :=
  if (MAXn <=? length (ongoing s))%nat then (s, []) else
  match tbf s with
  | [] => (s, [])
  | _ =>
      let '(og', picks) := sched_loop (now s) (isort (iter (tbf s))) (ongoing s) [] in
      (mkState (filter (fun e => negb (kth_in (fst e) picks)) (tbf s)) og'
               (range s) (farthest s) (now s),
       map (fun x => (kth_holder x, kth_key x)) picks)
  end.

Definition step_code (iter : list tbf_entry -> list tbf_entry) (s : state) (o : op)
  : state * output :=
  let '(mid, fast, ev, sch) := settle s o in
  if sch then let '(post, batch) := schedule_code iter mid in (post, mkOut (fast ++ batch) ev)
  else (mid, mkOut fast ev).

(* canonical deterministic instance: iterate in list order *)
Definition step_det (s : state) (o : op) : state * output := step_code (fun l => l) s o.

(* ---- the acceptor ---- *)
Definition tbf_in (e : tbf_entry) (l : list tbf_entry) : bool := existsb (tbf_entry_eqb e) l.
Definition og_in (e : og_entry) (l : list og_entry) : bool := existsb (og_entry_eqb e) l.

Fixpoint nodup_by {A} (eqb : A -> A -> bool) (l : list A) : bool :=
  match l with
  | [] => true
  | x :: r => negb (existsb (eqb x) r) && nodup_by eqb r
  end.

(* both lists are maps: no key occurs twice *)
Definition wf (s : state) : bool :=
  nodup_by kth_eqb (map fst (tbf s)) && nodup_by kt_eqb (map fst (ongoing s)).

Definition opt_eqb (a b : option N) : bool :=
  match a, b with Some x, Some y => x =? y | None, None => true | _, _ => false end.

Definition same_limits (a b : state) : bool :=
  opt_eqb (range a) (range b) && opt_eqb (farthest a) (farthest b) && (now a =? now b).

(* same maps, entry order irrelevant *)
Definition st_equiv (a b : state) : bool :=
  same_limits a b && wf b &&
  forallb (fun e => tbf_in e (tbf b)) (tbf a) && forallb (fun e => tbf_in e (tbf a)) (tbf b) &&
  forallb (fun e => og_in e (ongoing b)) (ongoing a) && forallb (fun e => og_in e (ongoing a)) (ongoing b).

Fixpoint sorted_N (l : list N) : bool :=
  match l with
  | [] => true
  | x :: r => match r with [] => true | y :: _ => (x <=? y) && sorted_N r end
  end.

Fixpoint count_pk (x : peer * key) (l : list (peer * key)) : nat :=
  match l with [] => O | y :: r => (if pk_eqb x y then 1 else 0)%nat + count_pk x r end.
Definition same_multiset (a b : list (peer * key)) : bool :=
  forallb (fun x => (count_pk x a =? count_pk x b)%nat) (a ++ b).

(* in-flight entries of `post` that were not in flight in `mid` *)
Definition fresh (mid post : state) : list og_entry :=
  filter (fun e => negb (og_mem (fst e) (ongoing mid))) (ongoing post).

(* `post`/`batch` is an admissible result of running the scheduling part of next_keys_to_fetch
   (after pruning) in state `mid`, for SOME iteration order of the hash map *)
Definition sched_clauses (mid : state) (batch : list (peer * key)) (post : state) : list bool :=
  let new := fresh mid post in
  [ same_limits mid post;
    wf post;
    (* in-flight entries are kept untouched; anything else in flight is new *)
    forallb (fun e => og_in e (ongoing post)) (ongoing mid);
    forallb (fun e => if og_mem (fst e) (ongoing mid) then og_in e (ongoing mid) else true) (ongoing post);
    (* a new in-flight entry was queued for that very holder and gets a fresh FETCH_TIMEOUT *)
    forallb (fun e => tbf_mem (og_kth e) (tbf mid) && (snd (snd e) =? now mid + FETCH_T)) new;
    (* exactly the new entries are returned, as (holder, key) pairs *)
    same_multiset batch (map og_pair new);
    (* closest first *)
    sorted_N (map (fun p => kdist (snd p)) batch);
    (* the queue loses exactly the picked entries *)
    forallb (fun e => tbf_in e (tbf mid) && negb (existsb (fun n => kth_eqb (og_kth n) (fst e)) new)) (tbf post);
    forallb (fun e => existsb (fun n => kth_eqb (og_kth n) (fst e)) new || tbf_in e (tbf post)) (tbf mid);
    (* cap *)
    match new with [] => true | _ => (length (ongoing post) <=? MAXn)%nat end;
    if (MAXn <=? length (ongoing mid))%nat then match new with [] => true | _ => false end else true;
    (* maximality *)
    if (length (ongoing post) <? MAXn)%nat
    then forallb (fun e => og_mem (kth_kt (fst e)) (ongoing post)) (tbf mid)
    else if (length (ongoing mid) <? MAXn)%nat
         then forallb (fun e => og_mem (kth_kt (fst e)) (ongoing post) ||
                                forallb (fun p => kdist (snd p) <=? kdist (kth_key (fst e))) batch) (tbf mid)
         else true ].
Definition sched_ok (mid : state) (batch : list (peer * key)) (post : state) : bool :=
  forallb (fun b => b) (sched_clauses mid batch post).

Definition pk_list_eqb (a b : list (peer * key)) : bool :=
  (length a =? length b)%nat && forallb (fun p => pk_eqb (fst p) (snd p)) (combine a b).

(* events: each FailedToFetchHolders carries a set of holders *)
Definition peers_same_set (a b : list peer) : bool :=
  forallb (fun p => peer_in p b) a && forallb (fun p => peer_in p a) b.
Definition events_eqb (a b : list (list peer)) : bool :=
  (length a =? length b)%nat && forallb (fun p => peers_same_set (fst p) (snd p)) (combine a b).

Definition step_ok (pre : state) (o : op) (out : output) (post : state) : bool :=
  let '(mid, fast, ev, sch) := settle pre o in
  events_eqb ev (events out) &&
  if sch then
    pk_list_eqb (firstn (length fast) (ret out)) fast &&
    sched_ok mid (skipn (length fast) (ret out)) post
  else
    pk_list_eqb (ret out) fast && st_equiv mid post.

(* a recorded history: every step the implementation took is accepted, states chained *)
Definition step := (op * output * state)%type.
Fixpoint run_ok (s : state) (tr : list step) : bool :=
  match tr with
  | [] => true
  | (o, out, post) :: r => step_ok s o out post && run_ok post r
  end.

(* ---- vocabulary of the statements in props/C08.v ---- *)
Definition valid (tr : list step) : Prop := run_ok init tr = true.
Fixpoint last_state (s : state) (tr : list step) : state :=
  match tr with [] => s | (_, _, p) :: r => last_state p r end.
(* reachable under ANY interleaving of operations and ANY admissible scheduling order *)
Definition reachable (s : state) : Prop := exists tr, valid tr /\ last_state init tr = s.
Definition inflight (s : state) (x : kt) : Prop := In x (map fst (ongoing s)).
Definition queued (s : state) (x : kth) : Prop := In x (map fst (tbf s)).
Definition og_key (e : og_entry) : key := fst (fst e).
Definition og_holder (e : og_entry) : peer := fst (snd e).
Definition og_deadline (e : og_entry) : N := snd (snd e).
Definition expired (s : state) (e : og_entry) : Prop := og_deadline e < now s.

(* how an in-flight entry can leave: the operation completes it (the record arrived, the fetch was
   reported complete, the advertised store already holds that version), it timed out and the
   operation prunes, or a fullness update put it beyond the farthest acceptable distance *)
Definition schedules (o : op) : bool :=
  match o with AddKeys _ _ _ | NextKeys | NotifyPut _ _ | NotifyEarly _ _ => true | _ => false end.
Definition op_completes (o : op) (e : og_entry) : bool :=
  match o with
  | AddKeys _ _ held => negb (not_stored held (fst e))
  | NotifyPut k _ => key_eqb (og_key e) k
  | NotifyEarly k t => kt_eqb (fst e) (k, t)
  | _ => false
  end.
Definition far_drops (s : state) (o : op) (e : og_entry) : bool :=
  match o with
  | SetFarthest (Some k) =>
      match farthest s with
      | Some old => negb (old <=? kdist k) && negb (kdist (og_key e) <=? kdist k)
      | None => negb (kdist (og_key e) <=? kdist k)
      end
  | _ => false
  end.
Definition op_keeps (s : state) (o : op) (e : og_entry) : bool :=
  negb (op_completes o e) && negb (schedules o && og_expired s e) && negb (far_drops s o e).
(* the in-flight entries of `s` that operation `o` leaves in flight *)
Definition surviving (s : state) (o : op) : list og_entry := filter (op_keeps s o) (ongoing s).

(* histories in which no advert takes the single-new-key fast path *)
Fixpoint no_fast_path (s : state) (tr : list step) : Prop :=
  match tr with
  | [] => True
  | (o, _, post) :: r => fast_of s o = [] /\ no_fast_path post r
  end.

(* the known fast-path class (F15): a multi-record advert of which exactly one key survives the
   held / already-queued / fullness filter *)
Definition KnownFastPathMulti (s : state) (h : peer) (inc : list kt) (held : held_map) : Prop :=
  (2 <= length inc)%nat /\ length (first_pass s h inc held) = 1%nat.

(* ---- vocabulary of the liveness theorem ---- *)
(* a round for record version x and holder h: an advert of h that contains x.  Recorded with the
   state before, the store contents passed in, and the state after. *)
Definition round := (state * held_map * state)%type.
Definition r_pre (r : round) : state := fst (fst r).
Definition r_held (r : round) : held_map := snd (fst r).
Definition r_post (r : round) : state := snd r.
Fixpoint rounds (h : peer) (x : kt) (s : state) (tr : list step) : list round :=
  match tr with
  | [] => []
  | (o, _, post) :: r =>
      match o with
      | AddKeys h' inc held =>
          if (h' =? h) && existsb (kt_eqb x) inc then (s, held, post) :: rounds h x post r
          else rounds h x post r
      | _ => rounds h x post r
      end
  end.

(* fairness premises on one round (U = the finite universe of record versions, one per key) *)
Definition fair_round (U : list kt) (h : peer) (x : kt) (r : round) : Prop :=
  let pre := r_pre r in
  (* the record is still wanted, in range and not beyond the fullness limit *)
  is_held (r_held r) (fst x) = false /\
  (forall rg, range pre = Some rg -> kdist (fst x) <= rg) /\
  (forall f, farthest pre = Some f -> kdist (fst x) <= f) /\
  (* responsive holders: no fetch has timed out at this moment *)
  (forall e, In e (ongoing pre) -> ~ expired pre e) /\
  (* the queued entry for (x, h), if any, has not passed PENDING_TIMEOUT *)
  (forall d, In ((x, h), d) (tbf pre) -> now pre < d) /\
  (* the store only holds record versions of the universe *)
  (forall k t, held_get (r_held r) k = Some t -> In (k, t) U).

(* between consecutive rounds: stored records stay stored, and every fetch that was in flight
   after the earlier round has been stored by the later one *)
Definition fair_link (r1 r2 : round) : Prop :=
  (forall k, is_held (r_held r1) k = true -> is_held (r_held r2) k = true) /\
  (forall e, In e (ongoing (r_post r1)) -> is_held (r_held r2) (og_key e) = true).
Fixpoint fair_chain (rs : list round) : Prop :=
  match rs with
  | r1 :: tl => match tl with r2 :: _ => fair_link r1 r2 /\ fair_chain tl | [] => True end
  | [] => True
  end.

Definition adverts_in (U : list kt) (tr : list step) : Prop :=
  forall o out post h inc held, In (o, out, post) tr -> o = AddKeys h inc held -> incl inc U.

(* number of universe keys not yet stored *)
Definition unheld_count (U : list kt) (held : held_map) : nat :=
  length (filter (fun u => negb (is_held held (fst u))) U).

(* ---- the NetworkEvent channel (C08: "a timed-out holder being reported") ----
   `send_event` spawns a task that awaits `Sender::send`: tokio's bounded mpsc queue plus the senders
   waiting for capacity (served first-come first-served).  `ch_try_send` is what a non-blocking
   `try_send` would do instead: drop the event when the queue is full. *)
Definition event := list peer.
Record chan := mkChan { ch_cap : nat; ch_q : list event; ch_wait : list event }.
Definition ch_send (c : chan) (e : event) : chan :=
  match ch_wait c with
  | [] => if (length (ch_q c) <? ch_cap c)%nat then mkChan (ch_cap c) (ch_q c ++ [e]) []
          else mkChan (ch_cap c) (ch_q c) [e]
  | w => mkChan (ch_cap c) (ch_q c) (w ++ [e])
  end.
Definition ch_try_send (c : chan) (e : event) : chan :=
  if (length (ch_q c) <? ch_cap c)%nat then mkChan (ch_cap c) (ch_q c ++ [e]) (ch_wait c) else c.
(* the consumer takes one event; the longest-waiting sender gets the freed slot *)
Definition ch_recv (c : chan) : option event * chan :=
  match ch_q c with
  | [] => (None, c)
  | x :: q =>
      (Some x, match ch_wait c with
               | [] => mkChan (ch_cap c) q []
               | w :: ws => mkChan (ch_cap c) (q ++ [w]) ws
               end)
  end.
Fixpoint ch_drain (fuel : nat) (c : chan) : list event :=
  match fuel with
  | O => []
  | S f => match ch_recv c with (Some x, c') => x :: ch_drain f c' | (None, _) => [] end
  end.
Definition ch_contents (c : chan) : list event := ch_q c ++ ch_wait c.
(* senders wait only while the queue is full *)
Definition ch_wf (c : chan) : Prop := (0 < ch_cap c)%nat /\ (ch_wait c <> [] -> (ch_cap c <= length (ch_q c))%nat).
(* everything the steps of a history emitted, in order *)
Definition emitted (tr : list step) : list event := concat (map (fun st => events (snd (fst st))) tr).

(* a history whose events were NOT drained step by step (consumer busy): every step is accepted with
   the events the model says it emits, and the events delivered once the consumer catches up are
   exactly those, in order *)
Definition model_events (s : state) (o : op) : list event := snd (fst (settle s o)).
Fixpoint run_deferred (s : state) (tr : list step) : bool * list event :=
  match tr with
  | [] => (true, [])
  | (o, out, post) :: r =>
      let ev := model_events s o in
      let '(ok, em) := run_deferred post r in
      (step_ok s o (mkOut (ret out) ev) post && ok, ev ++ em)
  end.
(* the same history with the events the model says each step emits *)
Fixpoint reemit (s : state) (tr : list step) : list step :=
  match tr with
  | [] => []
  | (o, out, post) :: r => (o, mkOut (ret out) (model_events s o), post) :: reemit post r
  end.
Definition agree_deferred (tr : list step) (delivered : list event) : bool :=
  let '(ok, em) := run_deferred init tr in ok && events_eqb em delivered.

(* ---- the PutLocalRecord arm of SwarmDriver::handle_local_cmd (cmd.rs) around the fetcher ----
   put_verified; on StoreError::MaxRecords: set_farthest_on_full(store.get_farthest());
   then notify_about_new_put (its fetches are emitted); then set_replication_distance_range if the
   store has a responsible range.  The store's answers are data. *)
Inductive put_result := PutOk | PutMaxRecords (farthest_held : option key) | PutErr.
Definition arm_ops (res : put_result) (k : key) (t : rtype) (rng : option N) : list op :=
  (match res with PutMaxRecords fk => [SetFarthest fk] | _ => [] end) ++
  [NotifyPut k t] ++
  (match rng with Some r => [SetRange r] | None => [] end).
Definition with_range (s : state) (r : option N) : state :=
  mkState (tbf s) (ongoing s) r (farthest s) (now s).
(* the arm as steps: only the fetches it emitted (`out`) and the state afterwards (`post`) are
   observed; the intermediate states of the two deterministic updates are the model's *)
Definition arm_steps (pre : state) (res : put_result) (k : key) (t : rtype) (rng : option N)
           (out : output) (post : state) : list step :=
  let s1 := match res with PutMaxRecords fk => set_farthest pre fk | _ => pre end in
  (match res with PutMaxRecords fk => [(SetFarthest fk, mkOut [] [], s1)] | _ => [] end) ++
  [(NotifyPut k t, out, with_range post (range s1))] ++
  (match rng with Some r => [(SetRange r, mkOut [] [], post)] | None => [] end).
(* the WRONG order (seeded change C08-8): the freed slot is handed out before the fullness update *)
Definition arm_steps_wrong (pre : state) (fk : option key) (k : key) (t : rtype)
           (out : output) (mid post : state) : list step :=
  [(NotifyPut k t, out, mid); (SetFarthest fk, mkOut [] [], post)].

(* which fetcher method an arm of handle_local_cmd calls is re-read from cmd.rs on every run
   (gen/Consts.v: fetcher_arm_fetch_completed, fetcher_arm_put_calls) and turned into the operation *)
Definition arm_method_op (m : String.string) (k : key) (t : rtype) : option op :=
  if String.eqb m "notify_fetch_early_completed"%string then Some (NotifyEarly k t)
  else if String.eqb m "notify_about_new_put"%string then Some (NotifyPut k t)
  else None.
(* the FetchCompleted arm: one call on the fetcher *)
Definition fetch_completed_arm (k : key) (t : rtype) : option op :=
  arm_method_op Consts.fetcher_arm_fetch_completed k t.
(* the calls of the PutLocalRecord arm, in source order *)
Definition put_arm_calls : list String.string := Consts.fetcher_arm_put_calls.
Definition op_method (o : op) : String.string :=
  match o with
  | AddKeys _ _ _ => "add_keys"%string
  | NextKeys => "next_keys_to_fetch"%string
  | NotifyPut _ _ => "notify_about_new_put"%string
  | NotifyEarly _ _ => "notify_fetch_early_completed"%string
  | SetRange _ => "set_replication_distance_range"%string
  | SetFarthest _ => "set_farthest_on_full"%string
  | Advance _ => "(clock)"%string
  end.

Inductive item :=
| IStep (st : step)
| IArm (res : put_result) (k : key) (t : rtype) (rng : option N) (out : output) (post : state).
Definition item_steps (s : state) (it : item) : list step :=
  match it with
  | IStep st => [st]
  | IArm res k t rng out post => arm_steps s res k t rng out post
  end.
Definition item_post (it : item) : state :=
  match it with IStep (_, _, post) => post | IArm _ _ _ _ _ post => post end.
Fixpoint expand (s : state) (its : list item) : list step :=
  match its with
  | [] => []
  | it :: r => item_steps s it ++ expand (item_post it) r
  end.
Fixpoint run_items (s : state) (its : list item) : bool :=
  match its with
  | [] => true
  | it :: r =>
      run_ok s (item_steps s it) &&
      st_equiv (last_state s (item_steps s it)) (item_post it) &&
      run_items (item_post it) r
  end.

(* diagnostics for replay files: index of the first rejected step, the clause values, the state
   the deterministic part reached *)
Definition diag_step (pre : state) (o : op) (out : output) (post : state) : list bool * state :=
  let '(mid, fast, ev, sch) := settle pre o in
  ([events_eqb ev (events out)] ++
   (if sch then pk_list_eqb (firstn (length fast) (ret out)) fast ::
                sched_clauses mid (skipn (length fast) (ret out)) post
    else [pk_list_eqb (ret out) fast; st_equiv mid post]), mid).
Fixpoint diag_from (i : N) (s : state) (tr : list step) : option (N * (list bool * state)) :=
  match tr with
  | [] => None
  | (o, out, post) :: r =>
      if step_ok s o out post then diag_from (i + 1) post r else Some (i, diag_step s o out post)
  end.
Definition diag (s : state) (tr : list step) := diag_from 0 s tr.

(* ---- constructors used by the generated case files ---- *)
Definition K (id d : N) : key := (id, d).
Definition T (c : N) : rtype := match c with 0 => Chunk | 1 => Scratchpad | n => NonChunk n end.
Definition TE (k : key) (t h d : N) : tbf_entry := ((k, T t, h), d).
Definition OE (k : key) (t h d : N) : og_entry := ((k, T t), (h, d)).
Definition ST (tb : list tbf_entry) (og : list og_entry) (r f : option N) (n : N) : state :=
  mkState tb og r f n.
Definition agree_consts (m f p : N) : bool := (m =? MAXP) && (f =? FETCH_T) && (p =? PENDING_T).
