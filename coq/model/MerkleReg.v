(* Model of crdts-7.3.2/src/merkle_reg.rs (the third-party MerkleReg wrapped by
   ant-registers/src/reg_crdt.rs) and of the ordered containers it and register.rs use.

   BTreeMap<Hash, Node> / BTreeSet<Hash> / BTreeSet<RegisterOp> are lists kept strictly sorted by
   a key (`kins` = insert-or-replace at the key's position, iteration = list order), so that two
   containers with the same content are equal terms.

   The node hash (SHA3-256 over the children and the value) is an abstract function
   H : node -> N -- an explicit argument of everything below; theorems quantify over it and
   state collision-freedom on the nodes involved as a premise where they need it. *)
From Coq Require Import List NArith Bool.
Import ListNotations.
Open Scope N_scope.

(* ------------------------------------------------------------------ ordered containers *)
Section Keyed.
  Context {A K : Type} (key : A -> K) (cmp : K -> K -> comparison).

  Definition is_eq (c : comparison) : bool := match c with Eq => true | _ => false end.

  (* BTreeMap::insert / BTreeSet::insert *)
  Fixpoint kins (x : A) (l : list A) : list A :=
    match l with
    | [] => [x]
    | y :: r =>
        match cmp (key x) (key y) with
        | Lt => x :: l
        | Eq => x :: r
        | Gt => y :: kins x r
        end
    end.

  (* contains_key *)
  Definition khas (k : K) (l : list A) : bool := existsb (fun y => is_eq (cmp k (key y))) l.

  (* get *)
  Definition kget (k : K) (l : list A) : option A := find (fun y => is_eq (cmp k (key y))) l.

  (* Extend::extend: insert every element of b into a *)
  Definition kunion (a b : list A) : list A := fold_left (fun acc x => kins x acc) b a.

  (* collect() of an arbitrary sequence into a BTreeSet / BTreeMap *)
  Definition kof_list (l : list A) : list A := kunion [] l.
End Keyed.

Definition nins : N -> list N -> list N := kins (fun x => x) N.compare.
Definition nhas : N -> list N -> bool := khas (fun x : N => x) N.compare.

(* ------------------------------------------------------------------ Node / MerkleReg *)
Record node := mknode { children : list N;     (* BTreeSet<Hash>: sorted, duplicate-free *)
                        value : list N }.      (* Entry = Vec<u8> *)

Definition entry := (N * node)%type.           (* (hash, node) pair of a BTreeMap<Hash, Node> *)
Definition eins : entry -> list entry -> list entry := kins (@fst N node) N.compare.
Definition ehas : N -> list entry -> bool := khas (@fst N node) N.compare.
Definition eget : N -> list entry -> option entry := kget (@fst N node) N.compare.

Record mreg := mkmreg { roots : list N; dag : list entry; orphans : list entry }.

Definition mr_empty : mreg := mkmreg [] [] [].

(* all_hashes_seen *)
Definition all_seen (d : list entry) (cs : list N) : bool := forallb (fun c => ehas c d) cs.

Section Apply.
  Variable H : node -> N.

  (* CmRDT::apply.  The recursion of the Rust code (apply the orphans that became ready, each of
     which may release further orphans) is structural on `fuel`; `mr_apply` supplies the number of
     orphans, which bounds the recursion depth because every level removes at least one orphan
     before it recurses (MerkleReg proofs: the fuel is never exhausted). *)
  Fixpoint apply_fuel (fuel : nat) (s : mreg) (n : node) : mreg :=
    let h := H n in
    if ehas h (dag s) || ehas h (orphans s) then s
    else if all_seen (dag s) (children n) then
      (* children that were roots stop being roots; the new node is a root *)
      let roots1 := nins h (filter (fun r => negb (nhas r (children n))) (roots s)) in
      let dag1 := eins (h, n) (dag s) in
      (* hashes_that_are_now_ready_to_apply, in BTreeMap order; they are removed before recursing *)
      let ready := filter (fun e => all_seen dag1 (children (snd e))) (orphans s) in
      let orph1 := filter (fun e => negb (all_seen dag1 (children (snd e)))) (orphans s) in
      let s1 := mkmreg roots1 dag1 orph1 in
      match fuel with
      | O => s1
      | S f => fold_left (apply_fuel f) (map snd ready) s1
      end
    else mkmreg (roots s) (dag s) (eins (h, n) (orphans s)).

  Definition mr_apply (s : mreg) (n : node) : mreg := apply_fuel (length (orphans s)) s n.

  (* CvRDT::merge: apply the other replica's dag nodes, then its orphans, in key order *)
  Definition mr_merge (s other : mreg) : mreg :=
    fold_left mr_apply (map snd (orphans other)) (fold_left mr_apply (map snd (dag other)) s).

  (* read(): the roots that are in the dag, with their nodes (a BTreeMap, so in hash order) *)
  Definition mr_read (s : mreg) : list entry :=
    flat_map (fun r => match eget r (dag s) with Some e => [e] | None => [] end) (roots s).

  (* node(): dag first, then orphans *)
  Definition mr_node (s : mreg) (h : N) : option node :=
    match eget h (dag s) with
    | Some e => Some (snd e)
    | None => match eget h (orphans s) with Some e => Some (snd e) | None => None end
    end.

  Definition mr_deliver (l : list node) : mreg := fold_left mr_apply l mr_empty.
End Apply.

(* ------------------------------------------------------------------ case-file helpers *)
Definition node_eqb (a b : node) : bool :=
  (if list_eq_dec N.eq_dec (children a) (children b) then true else false) &&
  (if list_eq_dec N.eq_dec (value a) (value b) then true else false).

(* the hash function of a generated case: the real SHA3 hashes, reported by the harness for the
   case's nodes and replaced by their rank among all hashes of the case (order preserving) *)
Definition table_hash (tbl : list (node * N)) (n : node) : N :=
  match find (fun p => node_eqb n (fst p)) tbl with Some p => snd p | None => 0 end.

Fixpoint rep (k : nat) (b : N) : list N := match k with O => [] | S j => b :: rep j b end.

Definition nlist_eqb (a b : list N) : bool := if list_eq_dec N.eq_dec a b then true else false.

(* observed MerkleReg state: hashes of the dag, of the orphans, and of read() *)
Definition agree_mreg (s : mreg) (dagk orphk readk : list N) : bool :=
  nlist_eqb (map fst (dag s)) dagk && nlist_eqb (map fst (orphans s)) orphk &&
  nlist_eqb (map fst (mr_read s)) readk.
